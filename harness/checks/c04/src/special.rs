//! Type-specific parts: direct read-side checks, hand-written tables that do
//! not go through the serde pipeline, and the allow-list of explained
//! normalisations.

use crate::mutate::Step;
use crate::oracle::{Diff, DiffKind, Done};
use crate::rules;
use read_fonts::{FontRef, TableProvider};
use serde_json::{json, Value};
use vf_core::{guard, Ctx};

fn get<'a>(v: &'a Value, path: &[Step]) -> Option<&'a Value> {
    let mut cur = v;
    for s in path {
        cur = match s {
            Step::Key(k) => cur.get(k.as_str())?,
            Step::Idx(i) => cur.get(*i)?,
        };
    }
    Some(cur)
}

fn gsub_type(variant: &str) -> Option<u64> {
    Some(match variant {
        "Single" => 1,
        "Multiple" => 2,
        "Alternate" => 3,
        "Ligature" => 4,
        "Contextual" => 5,
        "ChainContextual" => 6,
        "Reverse" => 8,
        _ => return None,
    })
}

fn gpos_type(variant: &str) -> Option<u64> {
    Some(match variant {
        "Single" => 1,
        "Pair" => 2,
        "Cursive" => 3,
        "MarkToBase" => 4,
        "MarkToLig" => 5,
        "MarkToMark" => 6,
        "Contextual" => 7,
        "ChainContextual" => 8,
        _ => return None,
    })
}

/// Type-specific explained normalisations (see lib.rs `explain`).
pub fn explain(type_name: &str, d: &Diff, done: &Done) -> Option<&'static str> {
    let last = d.path.rsplit('.').next().unwrap_or("");
    // --- GPOS ValueRecord (write-fonts/src/tables/gpos/value_record.rs)
    // from_obj_ref: "we want to always preserve the format of an incoming
    // record": a re-read record always has explicit_format = the format it was
    // written with.
    if last == "explicit_format" && d.kind == DiffKind::NullToSome && d.cpath.len() >= 1 {
        let parent = get(&done.written, &d.cpath[..d.cpath.len() - 1])?.as_object()?;
        let expect = rules::value_record_present_bits(parent);
        let read_bits: Value = serde_json::from_str(&d.read).ok()?;
        if read_bits.get("bits").and_then(|b| b.as_u64()) == Some(expect) {
            return Some("ValueRecord-reread-carries-explicit-format");
        }
    }
    // write_into: a field selected by the explicit format but None is written
    // as 0 (`unwrap_or_default`), documented as the way to emit empty records
    // of a given size; it reads back as Some(0).
    if matches!(last, "x_placement" | "y_placement" | "x_advance" | "y_advance") && d.kind == DiffKind::NullToSome && d.read == "0" {
        let parent = get(&done.written, &d.cpath[..d.cpath.len() - 1])?.as_object()?;
        let bit = match last {
            "x_placement" => 1,
            "y_placement" => 2,
            "x_advance" => 4,
            _ => 8,
        };
        if parent.contains_key("explicit_format") && rules::value_record_format(parent)? & bit != 0 {
            return Some("ValueRecord-explicit-format-writes-absent-field-as-zero");
        }
    }
    // --- sbix header flags: "Bit 0: Set to 1" (spec); the writer forces it on
    // (write-fonts/src/tables/sbix.rs compile_header_flags); all other bits
    // must survive.
    if type_name == "Sbix" && d.path == ".flags.bits" && d.kind == DiffKind::Scalar {
        if let (Ok(w), Ok(r)) = (d.written.parse::<u64>(), d.read.parse::<u64>()) {
            if r == (w | 1) {
                return Some("sbix-header-flag-bit0-is-always-set");
            }
        }
    }
    // --- Extension subtables: the writer emits `T::TYPE` of the wrapped
    // subtable type (write-fonts/src/tables/gsub.rs:53, gpos.rs likewise) and
    // ignores the stored extension_lookup_type.
    if last == "extension_lookup_type" && d.kind == DiffKind::Scalar && d.cpath.len() >= 2 {
        if let Step::Key(variant) = &d.cpath[d.cpath.len() - 2] {
            let is_gpos = matches!(type_name, "Gpos" | "PositionLookup" | "PositionLookupList");
            let t = if is_gpos { gpos_type(variant) } else { gsub_type(variant) };
            if t.is_some() && t.map(|x| x.to_string()) == Some(d.read.clone()) {
                return Some("extension_lookup_type-recomputed-from-subtable-type");
            }
        }
    }
    None
}

/// Extra signature component for defects that are specific to a boundary
/// value of a sibling field, so that the known-finding entry stays narrow.
pub fn refine_signature(owner: &str, rel: &str, written: &Value, d: &Diff) -> String {
    // Device: read-fonts computes the number of delta words from
    // `end_size.saturating_add(1)`, which is one short for end_size = 0xFFFF
    if owner == "Device" && rel.trim_start_matches('.') == "delta_value" && !d.cpath.is_empty() {
        if let Some(parent) = get(written, &d.cpath[..d.cpath.len() - 1]) {
            if parent.get("end_size").and_then(|v| v.as_u64()) == Some(0xFFFF) {
                return ":end_size=0xFFFF".into();
            }
        }
    }
    String::new()
}

/// Read-side check for the known defect class: an array getter must not
/// yield more elements than its count field says were written.
pub fn direct_read_checks(ctx: &mut Ctx, font: &FontRef, origin: &str) {
    if let Ok(Ok(avar)) = guard(|| font.avar()) {
        ctx.eval();
        let written = avar.axis_count() as usize;
        let r = guard(|| avar.axis_segment_maps().iter().take(written + 64).filter(|m| m.is_ok()).count());
        if let Ok(read) = r {
            ctx.count("direct:avar_segment_map_counts_checked", 1);
            ctx.label("direct:avar_versions", &format!("{}", avar.version()));
            if read != written {
                ctx.violation(
                    "varlen-overread:Avar:axis_segment_maps",
                    json!({"font": origin, "axis_count": written, "maps_yielded_by_getter": read, "version": format!("{}", avar.version())}),
                    None,
                );
            }
        }
    }
}

/// Stand-alone subtables from font-test-data (the spec's worked examples and
/// the IFT fixtures): (registered type name, bytes, origin).
pub fn extra_byte_seeds() -> Vec<(&'static str, Vec<u8>, &'static str)> {
    use font_test_data::{gdef, gpos, gsub, ift, layout};
    let mut v: Vec<(&'static str, Vec<u8>, &'static str)> = vec![
        ("ScriptList", layout::SCRIPTS.to_vec(), "td:SCRIPTS"),
        ("Script", layout::SCRIPTS_AND_LANGUAGES.to_vec(), "td:SCRIPTS_AND_LANGUAGES"),
        ("FeatureList", layout::FEATURELIST_AND_FEATURE.to_vec(), "td:FEATURELIST_AND_FEATURE"),
        ("SinglePosFormat1", gpos::SINGLEPOSFORMAT1.to_vec(), "td:SINGLEPOSFORMAT1"),
        ("SinglePosFormat2", gpos::SINGLEPOSFORMAT2.to_vec(), "td:SINGLEPOSFORMAT2"),
        ("PairPosFormat1", gpos::PAIRPOSFORMAT1.to_vec(), "td:PAIRPOSFORMAT1"),
        ("PairPosFormat2", gpos::PAIRPOSFORMAT2.to_vec(), "td:PAIRPOSFORMAT2"),
        ("CursivePosFormat1", gpos::CURSIVEPOSFORMAT1.to_vec(), "td:CURSIVEPOSFORMAT1"),
        ("MarkBasePosFormat1", gpos::MARKBASEPOSFORMAT1.to_vec(), "td:MARKBASEPOSFORMAT1"),
        ("MarkLigPosFormat1", gpos::MARKLIGPOSFORMAT1.to_vec(), "td:MARKLIGPOSFORMAT1"),
        ("MarkMarkPosFormat1", gpos::MARKMARKPOSFORMAT1.to_vec(), "td:MARKMARKPOSFORMAT1"),
        ("SequenceContextFormat1", gpos::CONTEXTUALPOSFORMAT1.to_vec(), "td:CONTEXTUALPOSFORMAT1"),
        ("SequenceContextFormat2", gpos::CONTEXTUALPOSFORMAT2.to_vec(), "td:CONTEXTUALPOSFORMAT2"),
        ("SequenceContextFormat3", gpos::CONTEXTUALPOSFORMAT3.to_vec(), "td:CONTEXTUALPOSFORMAT3"),
        ("SinglePosFormat1", gpos::VALUEFORMATTABLE.to_vec(), "td:VALUEFORMATTABLE"),
        ("AnchorFormat1", gpos::ANCHORFORMAT1.to_vec(), "td:ANCHORFORMAT1"),
        ("AnchorFormat2", gpos::ANCHORFORMAT2.to_vec(), "td:ANCHORFORMAT2"),
        ("AnchorFormat3", gpos::ANCHORFORMAT3.to_vec(), "td:ANCHORFORMAT3"),
        ("SingleSubstFormat1", gsub::SINGLESUBSTFORMAT1_TABLE.to_vec(), "td:SINGLESUBSTFORMAT1"),
        ("SingleSubstFormat2", gsub::SINGLESUBSTFORMAT2_TABLE.to_vec(), "td:SINGLESUBSTFORMAT2"),
        ("MultipleSubstFormat1", gsub::MULTIPLESUBSTFORMAT1_TABLE.to_vec(), "td:MULTIPLESUBSTFORMAT1"),
        ("AlternateSubstFormat1", gsub::ALTERNATESUBSTFORMAT1_TABLE.to_vec(), "td:ALTERNATESUBSTFORMAT1"),
        ("LigatureSubstFormat1", gsub::LIGATURESUBSTFORMAT1_TABLE.to_vec(), "td:LIGATURESUBSTFORMAT1"),
        ("SequenceContextFormat1", gsub::CONTEXTUAL_SUBSTITUTION_FORMAT1.to_vec(), "td:CONTEXTUAL_SUBSTITUTION_FORMAT1"),
        ("SequenceContextFormat2", gsub::CONTEXTUAL_SUBSTITUTION_FORMAT2.to_vec(), "td:CONTEXTUAL_SUBSTITUTION_FORMAT2"),
        ("SequenceContextFormat3", gsub::CONTEXTUAL_SUBSTITUTION_FORMAT3.to_vec(), "td:CONTEXTUAL_SUBSTITUTION_FORMAT3"),
        ("ReverseChainSingleSubstFormat1", gsub::REVERSECHAINSINGLESUBSTFORMAT1.to_vec(), "td:REVERSECHAINSINGLESUBSTFORMAT1"),
        ("ClassDef", gdef::GLYPHCLASSDEF_TABLE.to_vec(), "td:GLYPHCLASSDEF_TABLE"),
        ("AttachList", gdef::ATTACHLIST_TABLE.to_vec(), "td:ATTACHLIST_TABLE"),
        ("LigCaretList", gdef::LIGCARETLIST_TABLE.to_vec(), "td:LIGCARETLIST_TABLE"),
        ("CaretValueFormat3", gdef::CARETVALUEFORMAT3_TABLE.to_vec(), "td:CARETVALUEFORMAT3_TABLE"),
        ("ClassDef", gdef::MARKATTACHCLASSDEF_TABLE.to_vec(), "td:MARKATTACHCLASSDEF_TABLE"),
        ("Cmap4", font_test_data::cmap::repetitive_cmap4().as_slice().to_vec(), "td:repetitive_cmap4"),
    ];
    let ift_seeds: Vec<(&'static str, font_test_data::bebuffer::BeBuffer, &'static str)> = vec![
        ("Ift", ift::simple_format1(), "td:ift::simple_format1"),
        ("Ift", ift::u16_entries_format1(), "td:ift::u16_entries_format1"),
        ("Ift", ift::feature_map_format1(), "td:ift::feature_map_format1"),
        ("Ift", ift::codepoints_only_format2(), "td:ift::codepoints_only_format2"),
        ("Ift", ift::features_and_design_space_format2(), "td:ift::features_and_design_space_format2"),
        ("Ift", ift::child_indices_format2(), "td:ift::child_indices_format2"),
        ("Ift", ift::custom_ids_format2(), "td:ift::custom_ids_format2"),
        ("Ift", ift::string_ids_format2(), "td:ift::string_ids_format2"),
        ("Ift", ift::table_keyed_format2(), "td:ift::table_keyed_format2"),
        ("TableKeyedPatch", ift::table_keyed_patch(), "td:ift::table_keyed_patch"),
        ("TableKeyedPatch", ift::noop_table_keyed_patch(), "td:ift::noop_table_keyed_patch"),
        ("GlyphKeyedPatch", ift::glyph_keyed_patch_header(), "td:ift::glyph_keyed_patch_header"),
    ];
    for (n, b, o) in ift_seeds {
        v.push((n, b.as_slice().to_vec(), o));
    }
    v
}

// ---------------------------------------------------------------- glyf / loca (hand-written, no serde)

use read_fonts::tables::glyf::{Anchor, CurvePoint, Transform};
use read_fonts::{FontData, FontRead};
use vf_core::{Digest, Rng};
use write_fonts::tables::glyf::{Bbox, Component, ComponentFlags, CompositeGlyph, Contour, Glyph, SimpleGlyph};
use write_fonts::tables::loca::{Loca, LocaFormat};
use write_fonts::{dump_table, validate::Validate, FontWrite};

const I16_BOUNDS: &[i16] = &[0, 1, -1, 2, 127, 128, -127, -128, -129, 255, 256, -255, -256, -257, 0x3FFF, 0x7FFF, -0x8000, -0x7FFF];

fn glyph_case<T>(ctx: &mut Ctx, name: &'static str, v: &T, origin: &str, mutation: &str)
where
    T: FontWrite + Validate + PartialEq + std::fmt::Debug + for<'a> FontRead<'a>,
{
    ctx.eval();
    ctx.count(&format!("type:{}:variants", name), 1);
    let detail = |extra: Value| {
        let mut dbg = format!("{:?}", v);
        crate::oracle::safe_truncate(&mut dbg, 4000);
        json!({"type": name, "origin": origin, "mutation": mutation, "value_debug": dbg, "more": extra})
    };
    match guard(|| v.validate()) {
        Err(p) => {
            crate::report_panic(ctx, &p, "validate", &format!("validate of {}", name), detail(json!({})), None);
            return;
        }
        Ok(Err(_)) => {
            ctx.count(&format!("type:{}:validate_rejected", name), 1);
            return;
        }
        Ok(Ok(())) => {}
    }
    let bytes = match guard(|| dump_table(v)) {
        Err(p) => {
            crate::report_panic(ctx, &p, "dump", &format!("dump of a validated {}", name), detail(json!({})), None);
            return;
        }
        Ok(Err(_)) => {
            ctx.count("packing_failed", 1);
            return;
        }
        Ok(Ok(b)) => b,
    };
    if bytes.is_empty() {
        // "we don't bother writing empty glyphs" (simple.rs): nothing to read back
        ctx.count("compiled_to_zero_bytes", 1);
        return;
    }
    let mut dg = Digest::new();
    dg.str(name);
    dg.bytes(&bytes);
    ctx.nontrivial(dg.finish());
    ctx.label("types_round_tripped", name);
    let v2 = match guard(|| T::read(FontData::new(&bytes))) {
        Err(p) => {
            crate::report_panic(ctx, &p, "read", &format!("read of a compiled {}", name), detail(json!({})), Some(&bytes));
            return;
        }
        Ok(Err(e)) => {
            ctx.violation(&format!("reread-error:{}:-:{}", name, e), detail(json!({"read_error": e.to_string()})), Some(&bytes));
            return;
        }
        Ok(Ok(v2)) => v2,
    };
    if &v2 != v {
        let mut d2 = format!("{:?}", v2);
        crate::oracle::safe_truncate(&mut d2, 4000);
        // first differing position of the Debug renderings: a stable, specific key
        ctx.violation(&format!("roundtrip-mismatch:{}:-:{}", name, mutation_class(mutation)), detail(json!({"read_debug": d2})), Some(&bytes));
        return;
    }
    ctx.count(&format!("type:{}:roundtrip_equal", name), 1);
    match guard(|| dump_table(&v2)) {
        Ok(Ok(b2)) if b2 == bytes => ctx.count("redump_identical", 1),
        Ok(_) => {
            ctx.violation(&format!("redump-mismatch:{}:-:{}", name, mutation_class(mutation)), detail(json!({})), Some(&bytes));
        }
        Err(p) => crate::report_panic(ctx, &p, "redump", &format!("redump of {}", name), detail(json!({})), Some(&bytes)),
    }
}

fn mutation_class(m: &str) -> &str {
    m.split('=').next().unwrap_or(m)
}

fn mutate_simple(g: &SimpleGlyph, rng: &mut Rng) -> (SimpleGlyph, String) {
    let mut contours: Vec<Vec<CurvePoint>> = g.contours.iter().map(|c| c.iter().copied().collect()).collect();
    let mut bbox = g.bbox;
    let mut instructions = g.instructions.clone();
    let what;
    match rng.below(10) {
        0..=3 if !contours.is_empty() => {
            let ci = rng.usize(contours.len());
            if contours[ci].is_empty() {
                contours[ci].push(CurvePoint::new(0, 0, true));
            }
            let pi = rng.usize(contours[ci].len());
            let b = *rng.pick(I16_BOUNDS);
            match rng.below(3) {
                0 => contours[ci][pi].x = b,
                1 => contours[ci][pi].y = b,
                _ => contours[ci][pi].on_curve = !contours[ci][pi].on_curve,
            }
            what = format!("point={}", b);
        }
        4 if !contours.is_empty() => {
            // long runs of identical points / flags (repeat-flag encoding)
            let ci = rng.usize(contours.len());
            let p = contours[ci].first().copied().unwrap_or(CurvePoint::new(0, 0, true));
            let n = *rng.pick(&[1usize, 2, 3, 255, 256, 257, 300]);
            for _ in 0..n {
                contours[ci].push(p);
            }
            what = format!("repeat={}", n);
        }
        5 => {
            let n = *rng.pick(&[0usize, 1, 2, 255, 256, 1000, 65534, 65535]);
            instructions = rng.bytes(n);
            what = format!("instructions={}", n);
        }
        6 => {
            let b = *rng.pick(I16_BOUNDS);
            match rng.below(4) {
                0 => bbox.x_min = b,
                1 => bbox.y_min = b,
                2 => bbox.x_max = b,
                _ => bbox.y_max = b,
            }
            what = format!("bbox={}", b);
        }
        7 if !contours.is_empty() => {
            let ci = rng.usize(contours.len());
            contours.remove(ci);
            what = "remove-contour".into();
        }
        8 => {
            let n = 1 + rng.usize(4);
            let mut c = vec![];
            for _ in 0..n {
                c.push(CurvePoint::new(*rng.pick(I16_BOUNDS), *rng.pick(I16_BOUNDS), rng.bool()));
            }
            contours.push(c);
            what = "add-contour".into();
        }
        _ => {
            contours.push(vec![]);
            what = "add-empty-contour".into();
        }
    }
    let g2 = SimpleGlyph { bbox, contours: contours.into_iter().map(Contour::from).collect(), instructions };
    (g2, what)
}

fn mutate_composite(g: &CompositeGlyph, rng: &mut Rng) -> Option<(CompositeGlyph, String)> {
    let mut comps: Vec<Component> = g.components().to_vec();
    if comps.is_empty() {
        return None;
    }
    let i = rng.usize(comps.len());
    let what;
    match rng.below(7) {
        0 | 1 => {
            let x = *rng.pick(I16_BOUNDS);
            let y = *rng.pick(I16_BOUNDS);
            comps[i].anchor = Anchor::Offset { x, y };
            what = format!("anchor-offset={},{}", x, y);
        }
        2 => {
            let b = *rng.pick(&[0u16, 1, 127, 128, 255, 256, 0x7FFF, 0xFFFF]);
            let c = *rng.pick(&[0u16, 1, 255, 256, 0xFFFF]);
            comps[i].anchor = Anchor::Point { base: b, component: c };
            what = format!("anchor-point={},{}", b, c);
        }
        3 => {
            let f = |rng: &mut Rng| font_types::F2Dot14::from_bits(*rng.pick(&[0i16, 0x4000, -0x4000, 0x2000, 0x7FFF, -0x8000, 1, -1]));
            let t = match rng.below(4) {
                0 => Transform::default(),
                1 => {
                    let s = f(rng);
                    Transform { xx: s, yx: font_types::F2Dot14::ZERO, xy: font_types::F2Dot14::ZERO, yy: s }
                }
                2 => Transform { xx: f(rng), yx: font_types::F2Dot14::ZERO, xy: font_types::F2Dot14::ZERO, yy: f(rng) },
                _ => Transform { xx: f(rng), yx: f(rng), xy: f(rng), yy: f(rng) },
            };
            comps[i].transform = t;
            what = "transform".into();
        }
        4 => {
            comps[i].flags = ComponentFlags {
                round_xy_to_grid: rng.bool(),
                use_my_metrics: rng.bool(),
                scaled_component_offset: rng.bool(),
                unscaled_component_offset: rng.bool(),
                overlap_compound: rng.bool(),
            };
            what = "flags".into();
        }
        5 => {
            comps[i].glyph = font_types::GlyphId16::new(*rng.pick(&[0u16, 1, 255, 256, 0xFFFE, 0xFFFF]));
            what = "glyph-id".into();
        }
        _ => {
            let c = comps[i].clone();
            let n = *rng.pick(&[1usize, 2, 30]);
            for _ in 0..n {
                comps.push(c.clone());
            }
            what = format!("dup-component={}", n);
        }
    }
    let bbox = g.bbox;
    let g2 = CompositeGlyph::try_from_iter(comps.into_iter().map(|c| (c, bbox))).ok()?;
    Some((g2, what))
}

fn glyph_workload(ctx: &mut Ctx) {
    let per_font = ctx.tier.pick(120usize, 1200);
    let variants = ctx.tier.pick(24usize, 120);
    let mut fonts = vf_core::corpus_fonts();
    fonts.extend(vf_core::klippa_fonts());
    let mut item = 0usize;
    for cf in &fonts {
        let Ok(font) = FontRef::new(&cf.data) else { continue };
        let (Ok(loca), Ok(glyf)) = (font.loca(None), font.glyf()) else { continue };
        let n = loca.len();
        // loca itself
        item += 1;
        if ctx.mine(item) {
            loca_workload(ctx, &loca, &cf.name);
        }
        let step = (n / per_font).max(1);
        for gid in (0..n).step_by(step) {
            item += 1;
            if !ctx.mine(item) {
                continue;
            }
            let g = match guard(|| loca.get_glyf(font_types::GlyphId::new(gid as u32), &glyf)) {
                Ok(Ok(Some(g))) => g,
                _ => continue,
            };
            let owned: Glyph = match guard(|| write_fonts::from_obj::ToOwnedTable::to_owned_table(&g)) {
                Ok(o) => o,
                Err(_) => {
                    ctx.count("seed_glyph_conversion_panics", 1);
                    continue;
                }
            };
            let origin = format!("{}#gid{}", cf.name, gid);
            let mut rng = Rng::derive(ctx.seed, &cf.name, gid as u64);
            glyph_case(ctx, "Glyph", &owned, &origin, "seed");
            match &owned {
                Glyph::Simple(s) => {
                    ctx.count("type:SimpleGlyph:seeds", 1);
                    glyph_case(ctx, "SimpleGlyph", s, &origin, "seed");
                    let mut cur = s.clone();
                    for k in 0..variants {
                        let (m, what) = mutate_simple(&cur, &mut rng);
                        glyph_case(ctx, "SimpleGlyph", &m, &origin, &what);
                        // stack mutations half of the time
                        if k % 2 == 0 && m.validate().is_ok() {
                            cur = m;
                        } else {
                            cur = s.clone();
                        }
                    }
                }
                Glyph::Composite(c) => {
                    ctx.count("type:CompositeGlyph:seeds", 1);
                    glyph_case(ctx, "CompositeGlyph", c, &origin, "seed");
                    let mut cur = c.clone();
                    for k in 0..variants {
                        if let Some((m, what)) = mutate_composite(&cur, &mut rng) {
                            glyph_case(ctx, "CompositeGlyph", &m, &origin, &what);
                            cur = if k % 2 == 0 { m } else { c.clone() };
                        }
                    }
                }
                Glyph::Empty => {}
            }
        }
    }
    let _ = Bbox::default();
}

/// loca: `Loca::new(offsets)` picks the format; read back with that format.
/// Assumption: offsets are non-decreasing (loca's own invariant).
fn loca_workload(ctx: &mut Ctx, loca: &read_fonts::tables::loca::Loca, origin: &str) {
    let base: Vec<u32> = (0..=loca.len()).filter_map(|i| loca.get_raw(i)).collect();
    let mut rng = Rng::derive(ctx.seed, "loca", vf_core::fnv64(origin.as_bytes()));
    let n = ctx.tier.pick(12usize, 60);
    for k in 0..=n {
        let mut offs = base.clone();
        let what = if k == 0 {
            "seed".to_string()
        } else {
            match rng.below(5) {
                0 => {
                    // shift the tail by an odd amount → long format
                    let i = rng.usize(offs.len().max(1));
                    for o in offs.iter_mut().skip(i) {
                        *o = o.saturating_add(1);
                    }
                    "odd-tail".into()
                }
                1 => {
                    let last = *rng.pick(&[0x1FFFEu32, 0x20000, 0x20002, 0xFFFF_FFFE, 0xFFFF_FFFF]);
                    offs.push(last.max(offs.last().copied().unwrap_or(0)));
                    format!("last={:#x}", last)
                }
                2 => {
                    offs.truncate(rng.usize(offs.len() + 1));
                    "truncate".into()
                }
                3 => {
                    offs.clear();
                    "empty".into()
                }
                _ => {
                    let m = *rng.pick(&[2u32, 4, 0x10000]);
                    for o in offs.iter_mut() {
                        *o = o.saturating_mul(m);
                    }
                    format!("scale={}", m)
                }
            }
        };
        ctx.eval();
        ctx.count("type:Loca:variants", 1);
        let v = Loca::new(offs.clone());
        let bytes = match guard(|| dump_table(&v)) {
            Ok(Ok(b)) => b,
            Ok(Err(_)) => continue,
            Err(p) => {
                crate::report_panic(ctx, &p, "dump", "dump of Loca", json!({"type": "Loca", "origin": origin, "mutation": what}), None);
                continue;
            }
        };
        let is_long = v.format() == LocaFormat::Long;
        let r = guard(|| read_fonts::tables::loca::Loca::read(FontData::new(&bytes), is_long).map(|l| (0..=l.len()).filter_map(|i| l.get_raw(i)).collect::<Vec<u32>>()));
        let back = match r {
            Ok(Ok(b)) => b,
            Ok(Err(e)) => {
                if !offs.is_empty() {
                    ctx.violation(&format!("reread-error:Loca:{}:{}", if is_long { "long" } else { "short" }, e), json!({"type": "Loca", "origin": origin, "mutation": what}), Some(&bytes));
                }
                continue;
            }
            Err(p) => {
                crate::report_panic(ctx, &p, "read", "read of Loca", json!({"type": "Loca", "origin": origin, "mutation": what}), Some(&bytes));
                continue;
            }
        };
        if !bytes.is_empty() {
            let mut dg = Digest::new();
            dg.str("Loca");
            dg.bytes(&bytes);
            ctx.nontrivial(dg.finish());
        }
        ctx.label("types_round_tripped", "Loca");
        ctx.label("variants_seen", if is_long { "Loca:long" } else { "Loca:short" });
        if back != offs {
            ctx.violation(
                &format!("roundtrip-mismatch:Loca:{}:offsets", if is_long { "long" } else { "short" }),
                json!({"type": "Loca", "origin": origin, "mutation": what, "written_len": offs.len(), "read_len": back.len()}),
                Some(&bytes),
            );
        } else {
            ctx.count("type:Loca:roundtrip_equal", 1);
        }
    }
}

// ---------------------------------------------------------------- gvar (builder API, semantic read-back)

use font_types::{F2Dot14, GlyphId};
use write_fonts::tables::gvar::{GlyphDelta, GlyphDeltas, GlyphVariations, Gvar, Tent};

struct GvVar {
    tents: Vec<(i16, Option<(i16, i16)>)>,
    deltas: Vec<(i16, i16, bool)>,
}

fn implied(peak: i16) -> (i16, i16) {
    (peak.min(0), peak.max(0))
}

fn gvar_generate(rng: &mut Rng, big: bool) -> (u16, Vec<Vec<GvVar>>) {
    let axes = 1 + rng.usize(3);
    let n_glyphs = if big { 3 } else { 1 + rng.usize(6) };
    const COORDS: &[i16] = &[-0x4000, -0x2000, 0, 0x2000, 0x4000, 0x1000, -0x1000];
    // a small pool of peaks so that tuples get shared between glyphs
    let peaks: Vec<Vec<i16>> = (0..3).map(|_| (0..axes).map(|_| *rng.pick(COORDS)).collect()).collect();
    let mut glyphs = vec![];
    for gi in 0..n_glyphs {
        let n_points = if big { 9000 } else { *rng.pick(&[0usize, 1, 2, 3, 5, 8, 13, 64, 65, 300]) };
        let n_vars = if big { 3 } else if n_points == 0 { rng.usize(2) } else { rng.usize(4) };
        let mut vars = vec![];
        // choose one "sparseness pattern" that several variations may share (shared point numbers)
        let pattern: Vec<bool> = (0..n_points).map(|_| rng.chance(6, 10)).collect();
        for _ in 0..n_vars {
            let peak: Vec<i16> = if rng.chance(7, 10) { rng.pick(&peaks).clone() } else { (0..axes).map(|_| *rng.pick(COORDS)).collect() };
            let with_inter = rng.chance(3, 10);
            let tents = peak
                .iter()
                .map(|p| {
                    if with_inter && rng.bool() {
                        let (lo, hi) = implied(*p);
                        let a = (lo as i32 - rng.below(0x1000) as i32).clamp(-0x4000, 0x4000) as i16;
                        let b = (hi as i32 + rng.below(0x1000) as i32).clamp(-0x4000, 0x4000) as i16;
                        (*p, Some((a, b)))
                    } else {
                        (*p, None)
                    }
                })
                .collect();
            let mode = if big { 0 } else { rng.below(4) };
            let deltas = (0..n_points)
                .map(|i| {
                    let v = |rng: &mut Rng| match if big { 3 } else { rng.below(4) } {
                        0 => 0,
                        1 => rng.range(-63, 63) as i16,
                        2 => *rng.pick(I16_BOUNDS),
                        _ => rng.range(-2000, 2000) as i16,
                    };
                    let req = match mode {
                        0 => true,
                        1 => pattern[i],
                        2 => rng.chance(1, 4),
                        _ => false,
                    };
                    (v(rng), v(rng), req)
                })
                .collect();
            vars.push(GvVar { tents, deltas });
        }
        glyphs.push(vars);
    }
    (axes as u16, glyphs)
}

fn gvar_case(ctx: &mut Ctx, rng: &mut Rng, idx: usize, big: bool) {
    ctx.eval();
    ctx.count("type:Gvar:variants", 1);
    let (axes, glyphs) = gvar_generate(rng, big);
    let f = F2Dot14::from_bits;
    let vars: Vec<GlyphVariations> = glyphs
        .iter()
        .enumerate()
        .map(|(gi, vs)| {
            GlyphVariations::new(
                GlyphId::new(gi as u32),
                vs.iter()
                    .map(|v| {
                        GlyphDeltas::new(
                            v.tents.iter().map(|(p, i)| Tent::new(f(*p), i.map(|(a, b)| (f(a), f(b))))).collect(),
                            v.deltas.iter().map(|(x, y, r)| GlyphDelta::new(*x, *y, *r)).collect(),
                        )
                    })
                    .collect(),
            )
        })
        .collect();
    let describe = || {
        json!({"type": "Gvar", "case_index": idx, "axes": axes,
               "glyphs": glyphs.iter().map(|g| json!({"variations": g.len(), "points": g.first().map(|v| v.deltas.len()).unwrap_or(0)})).collect::<Vec<_>>()})
    };
    let table = match guard(|| Gvar::new(vars, axes)) {
        Ok(Ok(t)) => t,
        Ok(Err(_)) => {
            ctx.count("type:Gvar:validate_rejected", 1);
            return;
        }
        Err(p) => {
            crate::report_panic(ctx, &p, "validate", "Gvar::new", describe(), None);
            return;
        }
    };
    let bytes = match guard(|| dump_table(&table)) {
        Ok(Ok(b)) => b,
        Ok(Err(_)) => {
            ctx.count("packing_failed", 1);
            return;
        }
        Err(p) => {
            crate::report_panic(ctx, &p, "dump", "dump of Gvar", describe(), None);
            return;
        }
    };
    let mut dg = Digest::new();
    dg.str("Gvar");
    dg.bytes(&bytes);
    ctx.nontrivial(dg.finish());
    ctx.label("types_round_tripped", "Gvar");
    let r = guard(|| -> Result<(), String> {
        let gv = read_fonts::tables::gvar::Gvar::read(FontData::new(&bytes)).map_err(|e| format!("read-error:{}", e))?;
        if gv.axis_count() != axes {
            return Err("axis_count".into());
        }
        if gv.glyph_count() as usize != glyphs.len() {
            return Err("glyph_count".into());
        }
        for (gi, vs) in glyphs.iter().enumerate() {
            let data = gv.glyph_variation_data(GlyphId::new(gi as u32)).map_err(|e| format!("glyph-read-error:{}", e))?;
            let tuples: Vec<_> = match &data {
                Some(d) => d.tuples().collect(),
                None => vec![],
            };
            if tuples.len() != vs.len() {
                return Err("tuple-count".into());
            }
            for (t, v) in tuples.iter().zip(vs.iter()) {
                let peak: Vec<i16> = t.peak().values().iter().map(|x| x.get().to_bits()).collect();
                if peak != v.tents.iter().map(|t| t.0).collect::<Vec<_>>() {
                    return Err("peak".into());
                }
                let want: Vec<(i16, i16)> = v.tents.iter().map(|(p, i)| i.unwrap_or(implied(*p))).collect();
                match (t.intermediate_start(), t.intermediate_end()) {
                    (Some(a), Some(b)) => {
                        let got: Vec<(i16, i16)> = a.values().iter().zip(b.values().iter()).map(|(x, y)| (x.get().to_bits(), y.get().to_bits())).collect();
                        if got != want {
                            return Err("intermediate".into());
                        }
                    }
                    (None, None) => {
                        if want.iter().zip(v.tents.iter()).any(|(w, (p, _))| *w != implied(*p)) {
                            return Err("intermediate-missing".into());
                        }
                    }
                    _ => return Err("intermediate-half".into()),
                }
                let got: Vec<(u16, i32, i32)> = t.deltas().map(|d| (d.position, d.x_delta, d.y_delta)).collect();
                let all: Vec<(u16, i32, i32)> = v.deltas.iter().enumerate().map(|(i, d)| (i as u16, d.0 as i32, d.1 as i32)).collect();
                let req: Vec<(u16, i32, i32)> = v.deltas.iter().enumerate().filter(|(_, d)| d.2).map(|(i, d)| (i as u16, d.0 as i32, d.1 as i32)).collect();
                if t.has_deltas_for_all_points() {
                    // no required delta at all: the writer emits an empty point
                    // list (count 0 = "all points") with no deltas, i.e. every
                    // optional delta omitted — allowed by `GlyphDelta::optional`
                    if req.is_empty() && got.is_empty() {
                        continue;
                    }
                    if got != all {
                        return Err(if got.len() != all.len() { "delta-count-all".into() } else { "delta-value-all".into() });
                    }
                } else if got != req {
                    return Err(if got.len() != req.len() { "delta-count-sparse".into() } else { "delta-value-sparse".into() });
                }
            }
        }
        Ok(())
    });
    match r {
        Ok(Ok(())) => {
            ctx.count("type:Gvar:roundtrip_equal", 1);
            ctx.label("variants_seen", if bytes.get(15).map(|b| b & 1 == 1).unwrap_or(false) { "Gvar:long-offsets" } else { "Gvar:short-offsets" });
        }
        Ok(Err(what)) => {
            ctx.violation(&format!("gvar-mismatch:{}", what), describe(), Some(&bytes));
        }
        Err(p) => crate::report_panic(ctx, &p, "read", "read-back of a compiled Gvar", describe(), Some(&bytes)),
    }
}

fn gvar_workload(ctx: &mut Ctx) {
    let n = ctx.tier.pick(4000usize, 40000);
    for i in 0..n {
        if !ctx.mine(i) {
            continue;
        }
        let mut rng = Rng::derive(ctx.seed, "gvar", i as u64);
        // a few large cases force 32-bit glyph data offsets
        gvar_case(ctx, &mut rng, i, i % 500 == 7);
    }
}

pub fn run_special(ctx: &mut Ctx) {
    glyph_workload(ctx);
    gvar_workload(ctx);
}

pub fn replay(_ctx: &mut Ctx, _rec: &Value) -> bool {
    false
}
