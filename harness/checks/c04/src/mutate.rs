//! Generic typed value mutation through serde_json::Value.
//!
//! A write-fonts owned value is serialised to JSON, mutated structurally here
//! and deserialised back into the same Rust type. Deserialisation is the type
//! check: a mutant that is not a value of the type is rejected there.
//!
//! serde's derived `Deserialize` by-passes constructors, so the mutator must not
//! create states that no public constructor can create:
//!  * bitflag types (`{"bits": n}`): only bits inside the type's `all()` mask
//!    (unknown bits are unconstructible: `from_bits` rejects,
//!    `from_bits_truncate` strips them);
//!  * `Uint24` fields: `Uint24::new` saturates at 0xFFFFFF.

use serde_json::{Map, Number, Value};
use std::collections::HashMap;
use vf_core::{Digest, Rng};

/// Donor values keyed by the field name they were seen under (array elements
/// under `name[]`).
#[derive(Default)]
pub struct Pools {
    by_key: HashMap<String, Vec<Value>>,
    seen: HashMap<String, std::collections::HashSet<u64>>,
}

pub const POOL_CAP: usize = 24;
const DONOR_MAX_NODES: usize = 1500;

impl Pools {
    pub fn offer(&mut self, key: &str, v: &Value, nodes: usize) {
        if v.is_null() || nodes > DONOR_MAX_NODES {
            return;
        }
        let e = self.by_key.entry(key.to_string()).or_default();
        if e.len() >= POOL_CAP {
            return;
        }
        let d = digest_value(v);
        if self.seen.entry(key.to_string()).or_default().insert(d) {
            e.push(v.clone());
        }
    }
    pub fn pick(&self, key: &str, rng: &mut Rng) -> Option<Value> {
        let v = self.by_key.get(key)?;
        if v.is_empty() {
            return None;
        }
        Some(v[rng.usize(v.len())].clone())
    }
    pub fn donors(&self, key: &str) -> &[Value] {
        self.by_key.get(key).map(|v| v.as_slice()).unwrap_or(&[])
    }
    pub fn keys(&self) -> usize {
        self.by_key.len()
    }
    pub fn key_names(&self) -> Vec<String> {
        self.by_key.keys().cloned().collect()
    }
}

pub fn digest_value(v: &Value) -> u64 {
    let mut d = Digest::new();
    dig(v, &mut d, false);
    d.finish()
}

/// Digest of the structure only (numbers and strings erased, array lengths
/// bucketed): used to pick structurally diverse seeds.
pub fn shape_digest(v: &Value) -> u64 {
    let mut d = Digest::new();
    dig(v, &mut d, true);
    d.finish()
}

fn dig(v: &Value, d: &mut Digest, shape: bool) {
    match v {
        Value::Null => d.bytes(b"n"),
        Value::Bool(b) => d.bytes(if *b { b"t" } else { b"f" }),
        Value::Number(n) => {
            d.bytes(b"#");
            if !shape {
                d.str(&n.to_string());
            }
        }
        Value::String(s) => {
            d.bytes(b"s");
            if !shape {
                d.str(s);
            }
        }
        Value::Array(a) => {
            d.bytes(b"[");
            if shape {
                // length bucket + shapes of the first few elements
                let b = match a.len() {
                    0 => 0,
                    1 => 1,
                    2..=3 => 2,
                    4..=15 => 3,
                    16..=255 => 4,
                    _ => 5,
                };
                d.u64(b);
                let mut seen = std::collections::BTreeSet::new();
                for x in a.iter().take(64) {
                    seen.insert(shape_digest(x));
                }
                for s in seen {
                    d.u64(s);
                }
            } else {
                d.u64(a.len() as u64);
                for x in a {
                    dig(x, d, shape);
                }
            }
            d.bytes(b"]");
        }
        Value::Object(m) => {
            d.bytes(b"{");
            for (k, x) in m {
                d.str(k);
                dig(x, d, shape);
            }
            d.bytes(b"}");
        }
    }
}

pub fn node_count(v: &Value) -> usize {
    match v {
        Value::Array(a) => 1 + a.iter().map(node_count).sum::<usize>(),
        Value::Object(m) => 1 + m.values().map(node_count).sum::<usize>(),
        _ => 1,
    }
}

/// Is `k` a key that is transparent for naming purposes (enum variant name or
/// the `obj` field of an offset marker)?
pub fn transparent_key(k: &str) -> bool {
    k == "obj" || k.chars().next().map(|c| c.is_ascii_uppercase()).unwrap_or(false)
}

pub const BOUNDARIES: &[i64] = &[
    0,
    1,
    2,
    3,
    4,
    5,
    7,
    8,
    0x7F,
    0x80,
    0xFF,
    0x100,
    0x101,
    0x3FFF,
    0x4000,
    0x7FFF,
    0x8000,
    0xFFFE,
    0xFFFF,
    0x10000,
    0xFFFFFF,
    0x1000000,
    0x7FFFFFFF,
    0x80000000,
    0xFFFFFFFF,
    -1,
    -2,
    -0x80,
    -0x81,
    -0x4000,
    -0x7FFF,
    -0x8000,
    -0x8001,
    -0x80000000,
];

/// Fields of type `Uint24` in write-fonts owned types.
const U24_KEYS: &[&str] = &[
    "var_selector",
    "unicode_value",
    "start_unicode_value",
    "glyph_count",
    "entry_count",
    "child_indices[]",
    "character[]",
];

/// Valid bit masks of bitflag typed fields, by field name (values taken from
/// the flag types' `all()`); `flags` is ambiguous and resolved by root type.
pub fn flag_mask(key: &str, root_type: &str) -> Option<u64> {
    use read_fonts::tables as rt;
    Some(match key {
        "fs_selection" => rt::os2::SelectionFlags::all().bits() as u64,
        "mac_style" => rt::head::MacStyle::all().bits() as u64,
        "range_gasp_behavior" => rt::gasp::GaspRangeBehavior::all().bits() as u64,
        "entry_format" => rt::variations::EntryFormat::all().bits() as u64,
        "field_flags" => rt::ift::PatchMapFieldPresenceFlags::all().bits() as u64,
        "format_flags" => rt::ift::EntryFormatFlags::all().bits() as u64,
        "palette_types_array[]" => rt::cpal::PaletteType::all().bits() as u64,
        "explicit_format" => rt::gpos::ValueFormat::all().bits() as u64,
        "flags" => {
            if root_type.starts_with("AxisValue") || root_type == "Stat" {
                rt::stat::AxisValueTableFlags::all().bits() as u64
            } else if root_type == "Sbix" {
                rt::sbix::HeaderFlags::all().bits() as u64
            } else if root_type == "TableKeyedPatch" || root_type == "TablePatch" {
                rt::ift::TablePatchFlags::all().bits() as u64
            } else if root_type == "GlyphKeyedPatch" {
                rt::ift::GlyphKeyedFlags::all().bits() as u64
            } else {
                return None;
            }
        }
        _ => return None,
    })
}

pub struct Mutator<'a> {
    pub pools: &'a Pools,
    pub root_type: &'a str,
    /// hard cap on the node count a single array extension may create
    pub max_nodes: usize,
}

fn num(n: i64) -> Value {
    Value::Number(Number::from(n))
}

impl Mutator<'_> {
    /// Coherent rewrite of every GPOS ValueRecord in `v`: one ValueFormat per
    /// record role (value_record1 / value_record2 / others), fields and device
    /// offsets filled or cleared to match it. Random single-site mutation almost
    /// never builds a *consistent* record carrying several device tables.
    fn coherent_value_records(&self, v: &mut Value, rng: &mut Rng) -> bool {
        let f1 = rng.below(256);
        let f2 = rng.below(256);
        let explicit = rng.chance(2, 3);
        let mut donors: Vec<Value> = vec![];
        for k in ["x_placement_device", "y_placement_device", "x_advance_device", "y_advance_device"] {
            for d in self.pools.donors(k) {
                let d = if d.get("obj").is_some() { d.clone() } else { serde_json::json!({"obj": d}) };
                if !d["obj"].is_null() && !donors.contains(&d) {
                    donors.push(d);
                }
            }
        }
        fn walk(v: &mut Value, key: &str, f1: u64, f2: u64, explicit: bool, donors: &[Value], rng: &mut Rng, hit: &mut bool) {
            match v {
                Value::Object(m) => {
                    if m.contains_key("explicit_format") && m.contains_key("x_placement") && m.contains_key("x_advance_device") {
                        *hit = true;
                        let f = if key == "value_record2" { f2 } else { f1 };
                        let mut present = 0u64;
                        for (k, b) in [("x_placement", 1u64), ("y_placement", 2), ("x_advance", 4), ("y_advance", 8)] {
                            if f & b != 0 && (explicit && rng.chance(1, 8)) {
                                // explicit format with an absent field: written as 0
                                m.insert(k.into(), Value::Null);
                            } else if f & b != 0 {
                                m.insert(k.into(), num(*rng.pick(BOUNDARIES) as i16 as i64));
                                present |= b;
                            } else {
                                m.insert(k.into(), Value::Null);
                            }
                        }
                        for (k, b) in [("x_placement_device", 0x10u64), ("y_placement_device", 0x20), ("x_advance_device", 0x40), ("y_advance_device", 0x80)] {
                            if f & b != 0 && !donors.is_empty() && !(explicit && rng.chance(1, 8)) {
                                m.insert(k.into(), donors[rng.usize(donors.len())].clone());
                                present |= b;
                            } else {
                                m.insert(k.into(), serde_json::json!({"obj": null}));
                            }
                        }
                        let fmt = if explicit { serde_json::json!({"bits": f}) } else { Value::Null };
                        // without an explicit format the written format is `present`;
                        // keep records of one table identical in format by making
                        // absent-but-selected fields impossible in that case
                        let _ = present;
                        m.insert("explicit_format".into(), fmt);
                        return;
                    }
                    for (k, x) in m.iter_mut() {
                        let ck: String = if transparent_key(k) { key.to_string() } else { k.clone() };
                        walk(x, &ck, f1, f2, explicit, donors, rng, hit);
                    }
                }
                Value::Array(a) => {
                    for x in a {
                        walk(x, key, f1, f2, explicit, donors, rng, hit);
                    }
                }
                _ => {}
            }
        }
        let mut hit = false;
        walk(v, "", f1, f2, explicit, &donors, rng, &mut hit);
        hit
    }

    /// Apply `k` random mutations; returns a short description.
    pub fn mutate(&self, v: &mut Value, rng: &mut Rng) -> String {
        let k = 1 + [0usize, 0, 0, 1, 1, 2, 3][rng.usize(7)];
        let mut desc = String::new();
        if rng.chance(1, 8) && self.coherent_value_records(v, rng) {
            desc.push_str("coherent-value-records");
            if rng.bool() {
                return desc;
            }
        }
        for _ in 0..k {
            let mut path = String::new();
            let what = self.descend(v, "", rng, &mut path, 0);
            if !desc.is_empty() {
                desc.push(';');
            }
            desc.push_str(&path);
            desc.push(':');
            desc.push_str(what);
        }
        desc
    }

    fn descend(&self, node: &mut Value, key: &str, rng: &mut Rng, path: &mut String, depth: usize) -> &'static str {
        match node {
            Value::Object(map) => {
                if map.len() == 1 && map.contains_key("bits") {
                    return self.mutate_bits(map, key, rng);
                }
                if map.len() == 2 && map.contains_key("major") && map.contains_key("minor") && rng.chance(7, 10) {
                    let (a, b) = *rng.pick(&[(0i64, 0i64), (1, 0), (1, 1), (1, 2), (1, 3), (2, 0), (2, 1), (0, 5), (3, 0), (0xFFFF, 0xFFFF)]);
                    map.insert("major".into(), num(a));
                    map.insert("minor".into(), num(b));
                    return "version";
                }
                let r = rng.below(100);
                if depth > 0 && r < 5 {
                    *node = Value::Null;
                    return "to-null";
                }
                if depth > 0 && r < 12 {
                    if let Some(d) = self.pools.pick(key, rng) {
                        *node = d;
                        return "donor";
                    }
                }
                if map.is_empty() {
                    return "empty-object";
                }
                let i = rng.usize(map.len());
                let (k, child) = map.iter_mut().nth(i).unwrap();
                let child_key: String = if transparent_key(k) { key.to_string() } else { k.clone() };
                path.push('.');
                path.push_str(k);
                self.descend(child, &child_key, rng, path, depth + 1)
            }
            Value::Array(a) => {
                if a.is_empty() || rng.chance(35, 100) {
                    self.array_op(a, key, rng)
                } else {
                    let i = rng.usize(a.len());
                    path.push_str("[]");
                    let ck = format!("{}[]", key);
                    self.descend(&mut a[i], &ck, rng, path, depth + 1)
                }
            }
            Value::Number(n) => {
                let cur = n.as_i64().or_else(|| n.as_u64().map(|u| u as i64));
                match cur {
                    Some(c) => {
                        *node = num(self.number_op(c, key, rng));
                        "number"
                    }
                    None => {
                        let f = *rng.pick(&[0.0f64, -0.0, 1.0, -1.0, 0.5, 32767.0, -32768.0, 65535.0, 1e9, 0.000015]);
                        *node = Number::from_f64(f).map(Value::Number).unwrap_or(Value::Null);
                        "float"
                    }
                }
            }
            Value::Null => {
                if let Some(d) = self.pools.pick(key, rng) {
                    *node = d;
                    "null-to-donor"
                } else {
                    *node = num(*rng.pick(&[0i64, 1, 2, 0xFFFF, -1]));
                    "null-to-number"
                }
            }
            Value::Bool(b) => {
                *b = !*b;
                "bool"
            }
            Value::String(s) => {
                let is_tag = s.len() == 4 && s.bytes().all(|b| (0x20..=0x7E).contains(&b));
                if is_tag {
                    if rng.bool() {
                        *s = rng.pick(&["DFLT", "latn", "kern", "    ", "~~~~", "aaaa", "wght", "zzzz", "!!!!", "size", "ss01", "cv01"]).to_string();
                    } else {
                        let mut b = s.clone().into_bytes();
                        let i = rng.usize(4);
                        b[i] = 0x20 + rng.below(0x5F) as u8;
                        *s = String::from_utf8(b).unwrap_or_else(|_| "aaaa".into());
                    }
                    "tag"
                } else {
                    let c = rng.below(7);
                    *s = match c {
                        0 => String::new(),
                        1 => "a".into(),
                        2 => format!("{}x", s),
                        3 => "\u{e9}t\u{e9}".into(),
                        4 => "\u{65e5}\u{672c}\u{1F600}".into(),
                        5 => "x".repeat(*rng.pick(&[255usize, 256, 300])),
                        _ => s.chars().rev().collect(),
                    };
                    "string"
                }
            }
        }
    }

    fn mutate_bits(&self, map: &mut Map<String, Value>, key: &str, rng: &mut Rng) -> &'static str {
        let cur = map.get("bits").and_then(|b| b.as_u64()).unwrap_or(0);
        // only subsets of the valid mask; unknown → only subsets of the current value
        let mask = flag_mask(key, self.root_type).unwrap_or(cur);
        let new = match rng.below(5) {
            0 => 0,
            1 => mask,
            2 => cur & !(1u64 << rng.below(32)),
            3 => (cur | (1u64 << rng.below(32))) & mask,
            _ => rng.u64() & mask,
        };
        map.insert("bits".into(), Value::Number(Number::from(new)));
        "bits"
    }

    pub fn clamp_number(&self, n: i64, key: &str) -> i64 {
        if U24_KEYS.contains(&key) {
            return n.clamp(0, 0xFFFFFF);
        }
        n
    }

    fn number_op(&self, cur: i64, key: &str, rng: &mut Rng) -> i64 {
        let n = if key == "version" && rng.chance(6, 10) {
            *rng.pick(&[0i64, 1, 2, 3, 4, 5, 6, 0x5000, 0x10000, 0x20000, 0x25000, 0x30000, 0x40000])
        } else {
            match rng.below(10) {
                0..=5 => *rng.pick(BOUNDARIES),
                6 => cur.wrapping_add(1),
                7 => cur.wrapping_sub(1),
                8 => cur ^ (1i64 << rng.below(17)),
                _ => rng.below(0x10000) as i64,
            }
        };
        self.clamp_number(n, key)
    }

    fn array_op(&self, a: &mut Vec<Value>, key: &str, rng: &mut Rng) -> &'static str {
        let ek = format!("{}[]", key);
        if a.is_empty() {
            if let Some(d) = self.pools.pick(&ek, rng) {
                let n = *rng.pick(&[1usize, 1, 2, 3]);
                for _ in 0..n {
                    a.push(d.clone());
                }
                return "array-fill-donor";
            }
            a.push(num(*rng.pick(&[0i64, 1, 0xFFFF])));
            return "array-fill-number";
        }
        match rng.below(11) {
            0 => {
                a.clear();
                "array-clear"
            }
            1 => {
                let n = rng.usize(a.len());
                a.truncate(n);
                "array-truncate"
            }
            2 => {
                let i = rng.usize(a.len());
                a.remove(i);
                "array-remove"
            }
            3 => {
                let i = rng.usize(a.len());
                let x = a[i].clone();
                let j = rng.usize(a.len() + 1);
                a.insert(j, x);
                "array-dup"
            }
            4 => {
                let i = rng.usize(a.len());
                let j = rng.usize(a.len());
                a.swap(i, j);
                "array-swap"
            }
            5 => {
                a.reverse();
                "array-reverse"
            }
            6 | 7 => {
                // extend to a boundary length by cycling the existing elements
                let per = a.iter().take(8).map(node_count).max().unwrap_or(1).max(1);
                let cands: Vec<usize> = [2usize, 3, 16, 17, 255, 256, 257, 1023, 4096, 65535, 65536]
                    .iter()
                    .copied()
                    .filter(|l| *l > a.len() && l * per <= self.max_nodes)
                    .collect();
                if cands.is_empty() {
                    let x = a[a.len() - 1].clone();
                    a.push(x);
                    return "array-push";
                }
                let l = *rng.pick(&cands);
                let base = a.len();
                for i in 0..(l - base) {
                    let x = a[i % base].clone();
                    a.push(x);
                }
                "array-extend"
            }
            8 => {
                if let Some(d) = self.pools.pick(&ek, rng) {
                    let j = rng.usize(a.len() + 1);
                    a.insert(j, d);
                    "array-insert-donor"
                } else {
                    let x = a[0].clone();
                    a.push(x);
                    "array-push"
                }
            }
            9 => {
                let k = rng.usize(a.len());
                a.rotate_left(k);
                "array-rotate"
            }
            _ => {
                let n = 1.max(a.len() - 1);
                a.truncate(n);
                "array-pop"
            }
        }
    }
}

// ---------------------------------------------------------------- systematic sweeps

#[derive(Clone, Debug)]
pub enum Step {
    Key(String),
    Idx(usize),
}

pub fn get_mut<'a>(v: &'a mut Value, path: &[Step]) -> Option<&'a mut Value> {
    let mut cur = v;
    for s in path {
        cur = match (s, cur) {
            (Step::Key(k), Value::Object(m)) => m.get_mut(k)?,
            (Step::Idx(i), Value::Array(a)) => a.get_mut(*i)?,
            _ => return None,
        };
    }
    Some(cur)
}

#[derive(Clone, Debug)]
pub struct Site {
    pub path: Vec<Step>,
    /// naming key (nearest non-transparent field name, `[]` for elements)
    pub key: String,
    pub kind: SiteKind,
}

#[derive(Clone, Copy, Debug, PartialEq, Eq)]
pub enum SiteKind {
    Number,
    Null,
    Array,
    Object,
    Bits,
}

/// Enumerate mutation sites; at most the first `arr_cap` elements of each
/// array are entered.
pub fn sites(v: &Value, arr_cap: usize, out: &mut Vec<Site>) {
    fn walk(v: &Value, key: &str, path: &mut Vec<Step>, arr_cap: usize, out: &mut Vec<Site>) {
        match v {
            Value::Number(_) => out.push(Site { path: path.clone(), key: key.to_string(), kind: SiteKind::Number }),
            Value::Null => out.push(Site { path: path.clone(), key: key.to_string(), kind: SiteKind::Null }),
            Value::Array(a) => {
                out.push(Site { path: path.clone(), key: key.to_string(), kind: SiteKind::Array });
                let ck = format!("{}[]", key);
                // first elements and the last one
                let n = a.len();
                for (i, x) in a.iter().enumerate() {
                    if i < arr_cap || i + 1 == n {
                        path.push(Step::Idx(i));
                        walk(x, &ck, path, arr_cap, out);
                        path.pop();
                    }
                }
            }
            Value::Object(m) => {
                if m.len() == 1 && m.contains_key("bits") {
                    out.push(Site { path: path.clone(), key: key.to_string(), kind: SiteKind::Bits });
                    return;
                }
                if !path.is_empty() {
                    out.push(Site { path: path.clone(), key: key.to_string(), kind: SiteKind::Object });
                }
                for (k, x) in m {
                    let ck: String = if transparent_key(k) { key.to_string() } else { k.clone() };
                    path.push(Step::Key(k.clone()));
                    walk(x, &ck, path, arr_cap, out);
                    path.pop();
                }
            }
            _ => {}
        }
    }
    let mut p = vec![];
    walk(v, "", &mut p, arr_cap, out);
}

pub fn path_string(p: &[Step]) -> String {
    let mut s = String::new();
    for st in p {
        match st {
            Step::Key(k) => {
                s.push('.');
                s.push_str(k);
            }
            Step::Idx(_) => s.push_str("[]"),
        }
    }
    s
}
