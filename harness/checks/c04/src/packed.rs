//! Directed round trip of the two hand-written run-length encoders of
//! write-fonts/src/tables/variations.rs: `PackedDeltas` (zero / i8 / i16 / i32
//! runs of at most 64 values) and `PackedPointNumbers` (8- / 16-bit gap runs of
//! at most 128 values, 7- / 15-bit count).
//!
//! The registry round-trips gvar/cvar, whose deltas are i16, so the 32-bit run
//! type and the transitions into / out of it are only reached here. Workload:
//! every sequence of length <= 5 (thorough: 6) over a boundary alphabet, every
//! run kind at the run-length limits followed by every short suffix, and random
//! long sequences made of runs. Oracle: the compiled bytes decode — with
//! read-fonts and with a decoder written from the specification — to exactly
//! the values written, the element count is right, no run is empty or longer
//! than the format allows, and the size does not exceed one run per value.
use read_fonts::FontData;
use serde_json::{json, Value};
use vf_core::{guard, Ctx, Digest, Rng};
use write_fonts::dump_table;
use write_fonts::tables::variations::{PackedDeltas, PackedPointNumbers};

pub const DELTA_ALPHABET: [i32; 14] = [0, 1, -1, 127, -128, 128, -129, 32767, -32768, 32768, -32769, 100000, i32::MIN, i32::MAX];

fn kind_of(v: i32) -> usize {
    if v == 0 {
        0
    } else if (-128..=127).contains(&v) {
        1
    } else if (-32768..=32767).contains(&v) {
        2
    } else {
        3
    }
}
const KIND_NAME: [&str; 4] = ["zero", "i8", "i16", "i32"];
const KIND_SIZE: [usize; 4] = [0, 1, 2, 4];

struct SpecRun {
    kind: usize,
    len: usize,
}

/// Decoder written from the OpenType "packed deltas" description (plus the
/// 32-bit extension: both top bits set).
fn spec_decode_deltas(b: &[u8]) -> Result<(Vec<i32>, Vec<SpecRun>), String> {
    let mut out = vec![];
    let mut runs = vec![];
    let mut i = 0;
    while i < b.len() {
        let c = b[i];
        i += 1;
        let n = (c & 0x3F) as usize + 1;
        let kind = match (c & 0x80 != 0, c & 0x40 != 0) {
            (true, false) => 0,
            (false, false) => 1,
            (false, true) => 2,
            (true, true) => 3,
        };
        let sz = KIND_SIZE[kind];
        if i + n * sz > b.len() {
            return Err(format!("run at {} overruns the data", i - 1));
        }
        for k in 0..n {
            let p = i + k * sz;
            out.push(match kind {
                0 => 0,
                1 => b[p] as i8 as i32,
                2 => i16::from_be_bytes([b[p], b[p + 1]]) as i32,
                _ => i32::from_be_bytes([b[p], b[p + 1], b[p + 2], b[p + 3]]),
            });
        }
        i += n * sz;
        runs.push(SpecRun { kind, len: n });
    }
    Ok((out, runs))
}

fn short(vals: &[i32]) -> Value {
    if vals.len() <= 512 {
        json!(vals)
    } else {
        json!({"len": vals.len(), "first": &vals[..24], "last": &vals[vals.len() - 24..]})
    }
}

fn kinds_sig(vals: &[i32], at: usize) -> String {
    let k = |i: usize| vals.get(i).map(|v| KIND_NAME[kind_of(*v)]).unwrap_or("end");
    let prev = if at == 0 { "start" } else { k(at - 1) };
    format!("{}>{}", prev, k(at))
}

pub fn delta_case(ctx: &mut Ctx, family: &str, vals: &[i32]) {
    ctx.eval();
    ctx.count(&format!("packed-deltas:{}", family), 1);
    let detail = |extra: Value| json!({"type": "PackedDeltas", "family": family, "values": short(vals), "more": extra});
    let table = PackedDeltas::new(vals.to_vec());
    let bytes = match guard(|| dump_table(&table)) {
        Ok(Ok(b)) => b,
        Ok(Err(e)) => {
            ctx.violation("packed-deltas:dump-error", detail(json!({"error": format!("{e}")})), None);
            return;
        }
        Err(p) => {
            crate::report_panic(ctx, &p, "dump", "dump of PackedDeltas", detail(Value::Null), None);
            return;
        }
    };
    let mut dg = Digest::new();
    dg.str("PackedDeltas");
    dg.bytes(&bytes);
    if !bytes.is_empty() {
        ctx.nontrivial(dg.finish());
    }
    // (a) independent decode: what did the writer put into the bytes?
    match spec_decode_deltas(&bytes) {
        Err(e) => {
            ctx.violation("packed-deltas:written-data-malformed", detail(json!({"error": e})), Some(&bytes));
            return;
        }
        Ok((got, runs)) => {
            if got != vals {
                let at = got.iter().zip(vals).position(|(a, b)| a != b).unwrap_or(got.len().min(vals.len()));
                let sig = if got.len() != vals.len() { "packed-deltas:written-count-differs".to_string() } else { format!("packed-deltas:written-value-differs:{}", kinds_sig(vals, at)) };
                ctx.violation(&sig, detail(json!({"at": at, "written": vals.get(at), "decoded": got.get(at), "decoded_all": short(&got)})), Some(&bytes));
                return;
            }
            for r in &runs {
                ctx.label("packed_delta_run_kinds", KIND_NAME[r.kind]);
                if r.len == 64 {
                    ctx.label("packed_delta_full_runs", KIND_NAME[r.kind]);
                }
            }
            for w in runs.windows(2) {
                ctx.label("packed_delta_run_transitions", &format!("{}>{}", KIND_NAME[w[0].kind], KIND_NAME[w[1].kind]));
            }
        }
    }
    // (b) read-fonts
    let r = guard(|| {
        let pd = read_fonts::tables::variations::PackedDeltas::consume_all(FontData::new(&bytes));
        let v: Vec<i32> = pd.iter().collect();
        v
    });
    match r {
        Err(p) => {
            crate::report_panic(ctx, &p, "read", "read-back of compiled PackedDeltas", detail(Value::Null), Some(&bytes));
            return;
        }
        Ok(got) => {
            if got != vals {
                let at = got.iter().zip(vals).position(|(a, b)| a != b).unwrap_or(got.len().min(vals.len()));
                let sig = if got.len() != vals.len() { "packed-deltas:reread-count-differs".to_string() } else { format!("packed-deltas:reread-value-differs:{}", kinds_sig(vals, at)) };
                ctx.violation(&sig, detail(json!({"at": at, "written": vals.get(at), "read": got.get(at), "read_all": short(&got)})), Some(&bytes));
                return;
            }
        }
    }
    // (c) size: never more than one run per value; the tighter "one run per
    // maximal stretch of equal kind" bound is only recorded
    let loose: usize = vals.iter().map(|v| 1 + KIND_SIZE[kind_of(*v)]).sum();
    let mut naive = 0usize;
    let mut i = 0;
    while i < vals.len() {
        let k = kind_of(vals[i]);
        let mut j = i;
        while j < vals.len() && kind_of(vals[j]) == k && j - i < 64 {
            j += 1;
        }
        naive += 1 + (j - i) * KIND_SIZE[k];
        i = j;
    }
    if bytes.len() > loose {
        ctx.violation("packed-deltas:larger-than-one-run-per-value", detail(json!({"len": bytes.len(), "bound": loose})), Some(&bytes));
        return;
    }
    if bytes.len() > naive {
        ctx.count("packed-deltas:longer_than_same-kind-runs_encoding", 1);
    } else if bytes.len() < naive {
        ctx.count("packed-deltas:shorter_than_same-kind-runs_encoding", 1);
    }
    ctx.count("packed-deltas:roundtrip_equal", 1);
    ctx.label("types_round_tripped", "PackedDeltas");
    if vals.iter().any(|v| kind_of(*v) == 3) {
        ctx.count("packed-deltas:with_32bit_values_round_tripped", 1);
    }
}

fn value_of_kind(rng: &mut Rng, k: usize) -> i32 {
    match k {
        0 => 0,
        1 => *rng.pick(&[1, -1, 127, -128, 5, -77]),
        2 => *rng.pick(&[128, -129, 32767, -32768, 300, -4000]),
        _ => *rng.pick(&[32768, -32769, 100000, i32::MIN, i32::MAX, -7_000_000]),
    }
}

fn deltas_workload(ctx: &mut Ctx, item: &mut usize) {
    // ---- 1. exhaustive short sequences
    let max_len = ctx.tier.pick(5usize, 6);
    let a = DELTA_ALPHABET.len();
    let mut total = 0u64;
    for len in 0..=max_len {
        let n = a.pow(len as u32);
        // work item = all sequences sharing the first (len-2) positions
        let chunk = a.pow(len.min(2) as u32);
        for c0 in (0..n).step_by(chunk) {
            *item += 1;
            total += chunk.min(n - c0) as u64;
            if !ctx.mine(*item) {
                continue;
            }
            for code in c0..(c0 + chunk).min(n) {
                let mut v = Vec::with_capacity(len);
                let mut c = code;
                for _ in 0..len {
                    v.push(DELTA_ALPHABET[c % a]);
                    c /= a;
                }
                delta_case(ctx, "exhaustive", &v);
            }
        }
    }
    ctx.extra.insert("packed_deltas_exhaustive".into(), json!({"alphabet": DELTA_ALPHABET, "max_len": max_len, "sequences_all_shards": total}));

    // ---- 2. run-length limits: [prefix] ++ kind × n ++ every suffix of length <= 3 over one value per kind
    let reps: [i32; 4] = [0, 1, 300, 100000];
    let mut suffixes: Vec<Vec<i32>> = vec![vec![]];
    for l in 1..=3usize {
        for code in 0..4usize.pow(l as u32) {
            let mut c = code;
            suffixes.push((0..l).map(|_| { let x = reps[c % 4]; c /= 4; x }).collect());
        }
    }
    for k in 0..4usize {
        for n in [1usize, 2, 62, 63, 64, 65, 66, 126, 127, 128, 129, 130, 191, 192, 193] {
            for prefix in [&[][..], &[7][..], &[-300][..], &[70000][..], &[0][..]] {
                *item += 1;
                if !ctx.mine(*item) {
                    continue;
                }
                for s in &suffixes {
                    let mut v: Vec<i32> = prefix.to_vec();
                    v.extend(std::iter::repeat(reps[k]).take(n));
                    v.extend_from_slice(s);
                    delta_case(ctx, "run-limit", &v);
                }
            }
        }
    }
    // an inlined value exactly at the cap: 63 of kind A, one of kind B, then A again
    for ka in 1..4usize {
        for kb in 0..4usize {
            *item += 1;
            if !ctx.mine(*item) {
                continue;
            }
            for n in [61usize, 62, 63, 64] {
                for tail in [0usize, 1, 2, 64] {
                    let mut v: Vec<i32> = std::iter::repeat(reps[ka]).take(n).collect();
                    v.push(reps[kb]);
                    v.extend(std::iter::repeat(reps[ka]).take(tail));
                    delta_case(ctx, "inline-at-limit", &v);
                }
            }
        }
    }

    // ---- 3. random sequences made of runs
    let n_random = ctx.tier.pick(20_000usize, 200_000);
    for i in 0..n_random {
        *item += 1;
        if !ctx.mine(*item) {
            continue;
        }
        let mut rng = Rng::derive(ctx.seed, "c04-packed-deltas", i as u64);
        let target = *rng.pick(&[3usize, 8, 20, 70, 140, 300]);
        let mut v = vec![];
        while v.len() < target {
            let k = rng.usize(4);
            let n = match rng.below(5) {
                0 => 1,
                1 => 2,
                2 => rng.range(1, 6) as usize,
                3 => rng.range(60, 68) as usize,
                _ => rng.range(1, 30) as usize,
            };
            let constant = rng.bool();
            let c = value_of_kind(&mut rng, k);
            for _ in 0..n {
                v.push(if constant { c } else { value_of_kind(&mut rng, k) });
            }
        }
        delta_case(ctx, "random", &v);
    }
}

// ------------------------------------------------------------------ point numbers

fn spec_decode_points(b: &[u8]) -> Result<(Vec<u16>, usize, Vec<(bool, usize)>), String> {
    let first = *b.first().ok_or("empty")?;
    let (count, mut i) = if first & 0x80 != 0 {
        let second = *b.get(1).ok_or("count truncated")?;
        ((((first & 0x7F) as usize) << 8) | second as usize, 2)
    } else {
        (first as usize, 1)
    };
    let mut out: Vec<u16> = vec![];
    let mut runs = vec![];
    let mut last = 0u32;
    while out.len() < count {
        let c = *b.get(i).ok_or("control byte missing")?;
        i += 1;
        let n = (c & 0x7F) as usize + 1;
        let words = c & 0x80 != 0;
        for _ in 0..n {
            let gap = if words {
                let g = u16::from_be_bytes([*b.get(i).ok_or("truncated")?, *b.get(i + 1).ok_or("truncated")?]) as u32;
                i += 2;
                g
            } else {
                let g = *b.get(i).ok_or("truncated")? as u32;
                i += 1;
                g
            };
            last += gap;
            if last > 0xFFFF {
                return Err("point number exceeds 65535".into());
            }
            out.push(last as u16);
        }
        runs.push((words, n));
    }
    if out.len() != count {
        return Err(format!("runs hold {} points, count says {}", out.len(), count));
    }
    Ok((out, i, runs))
}

fn short16(vals: &[u16]) -> Value {
    if vals.len() <= 512 {
        json!(vals)
    } else {
        json!({"len": vals.len(), "first": &vals[..24], "last": &vals[vals.len() - 24..]})
    }
}

/// `pts` non-empty and non-decreasing (the writer's domain: gaps are unsigned).
pub fn points_case(ctx: &mut Ctx, family: &str, pts: &[u16]) {
    ctx.eval();
    ctx.count(&format!("packed-points:{}", family), 1);
    let detail = |extra: Value| json!({"type": "PackedPointNumbers", "family": family, "points": short16(pts), "more": extra});
    let table = PackedPointNumbers::Some(pts.to_vec());
    let bytes = match guard(|| dump_table(&table)) {
        Ok(Ok(b)) => b,
        Ok(Err(_)) => {
            if pts.len() > 0x7FFF {
                ctx.count("packed-points:validate_rejected_count_over_15_bits", 1);
            } else {
                ctx.violation("packed-points:dump-error", detail(Value::Null), None);
            }
            return;
        }
        Err(p) => {
            crate::report_panic(ctx, &p, "dump", "dump of PackedPointNumbers", detail(Value::Null), None);
            return;
        }
    };
    let mut dg = Digest::new();
    dg.str("PackedPointNumbers");
    dg.bytes(&bytes);
    ctx.nontrivial(dg.finish());
    match spec_decode_points(&bytes) {
        Err(e) => {
            ctx.violation("packed-points:written-data-malformed", detail(json!({"error": e})), Some(&bytes));
            return;
        }
        Ok((got, used, runs)) => {
            if got != pts {
                let at = got.iter().zip(pts).position(|(a, b)| a != b).unwrap_or(got.len().min(pts.len()));
                ctx.violation(
                    if got.len() != pts.len() { "packed-points:written-count-differs" } else { "packed-points:written-value-differs" },
                    detail(json!({"at": at, "written": pts.get(at), "decoded": got.get(at), "decoded_all": short16(&got)})),
                    Some(&bytes),
                );
                return;
            }
            if used != bytes.len() {
                ctx.violation("packed-points:trailing-bytes-written", detail(json!({"used": used, "len": bytes.len()})), Some(&bytes));
                return;
            }
            for (w, n) in &runs {
                ctx.label("packed_point_run_kinds", if *w { "words" } else { "bytes" });
                if *n == 128 {
                    ctx.label("packed_point_full_runs", if *w { "words" } else { "bytes" });
                }
            }
        }
    }
    ctx.label("packed_point_count_width", if pts.len() < 128 { "1-byte" } else { "2-byte" });
    // read-fonts, with trailing data after the point numbers (as inside a tuple variation)
    let mut with_tail = bytes.clone();
    with_tail.extend_from_slice(&[0xA5, 0x5A, 0xFF]);
    let r = guard(|| {
        let (pp, rest) = read_fonts::tables::variations::PackedPointNumbers::split_off_front(FontData::new(&with_tail));
        let v: Vec<u16> = pp.iter().collect();
        (pp.count(), v, rest.len())
    });
    match r {
        Err(p) => {
            crate::report_panic(ctx, &p, "read", "read-back of compiled PackedPointNumbers", detail(Value::Null), Some(&bytes));
            return;
        }
        Ok((count, got, rest)) => {
            if count as usize != pts.len() {
                ctx.violation("packed-points:reread-count-differs", detail(json!({"count": count, "want": pts.len()})), Some(&bytes));
                return;
            }
            if got != pts {
                let at = got.iter().zip(pts).position(|(a, b)| a != b).unwrap_or(got.len().min(pts.len()));
                ctx.violation("packed-points:reread-value-differs", detail(json!({"at": at, "written": pts.get(at), "read": got.get(at), "read_all": short16(&got)})), Some(&bytes));
                return;
            }
            if rest != 3 {
                ctx.violation("packed-points:reread-length-differs", detail(json!({"remaining_after_split": rest, "want": 3, "len": bytes.len()})), Some(&bytes));
                return;
            }
        }
    }
    // size: one run per point at most
    let mut prev = 0u16;
    let mut loose = if pts.len() < 128 { 1 } else { 2 };
    for p in pts {
        loose += if p - prev > 255 { 3 } else { 2 };
        prev = *p;
    }
    if bytes.len() > loose {
        ctx.violation("packed-points:larger-than-one-run-per-point", detail(json!({"len": bytes.len(), "bound": loose})), Some(&bytes));
        return;
    }
    ctx.count("packed-points:roundtrip_equal", 1);
    ctx.label("types_round_tripped", "PackedPointNumbers");
}

fn from_gaps(first: u16, gaps: &[u32]) -> Option<Vec<u16>> {
    let mut v = vec![first];
    let mut cur = first as u32;
    for g in gaps {
        cur += g;
        if cur > 0xFFFF {
            return None;
        }
        v.push(cur as u16);
    }
    Some(v)
}

fn points_workload(ctx: &mut Ctx, item: &mut usize) {
    const GAPS: [u32; 9] = [0, 1, 2, 127, 128, 255, 256, 257, 1000];
    const FIRSTS: [u16; 6] = [0, 1, 255, 256, 257, 40000];
    // ---- 1. exhaustive: first point × up to 4 gaps
    for first in FIRSTS {
        for len in 0..=4usize {
            *item += 1;
            if !ctx.mine(*item) {
                continue;
            }
            for code in 0..GAPS.len().pow(len as u32) {
                let mut c = code;
                let gaps: Vec<u32> = (0..len).map(|_| { let g = GAPS[c % GAPS.len()]; c /= GAPS.len(); g }).collect();
                if let Some(p) = from_gaps(first, &gaps) {
                    points_case(ctx, "exhaustive", &p);
                }
            }
        }
    }
    // ---- 2. counts and run lengths around 127 / 128 / 255 / 256, with one
    // gap of the other width at every position near a limit
    for n in [126usize, 127, 128, 129, 130, 254, 255, 256, 257, 258, 383, 384, 385] {
        for (base, other) in [(1u32, 256u32), (255, 256), (256, 255), (256, 0), (3, 1000)] {
            *item += 1;
            if !ctx.mine(*item) {
                continue;
            }
            // (sequences that would leave the u16 point range are skipped by from_gaps)
            let uniform: Vec<u32> = vec![base; n - 1];
            for first in [0u16, 256] {
                if let Some(p) = from_gaps(first, &uniform) {
                    points_case(ctx, "count-limit", &p);
                }
            }
            for pos in [0usize, 1, 125, 126, 127, 128, 129, 253, 254, 255, 256, 257, n.saturating_sub(3), n.saturating_sub(2)] {
                if pos < uniform.len() {
                    let mut g = uniform.clone();
                    g[pos] = other;
                    if let Some(p) = from_gaps(0, &g) {
                        points_case(ctx, "count-limit-with-odd-gap", &p);
                    }
                    if pos + 1 < g.len() {
                        g[pos + 1] = other;
                        if let Some(p) = from_gaps(5, &g) {
                            points_case(ctx, "count-limit-with-odd-gap", &p);
                        }
                    }
                }
            }
        }
    }
    // ---- 3. random
    let n_random = ctx.tier.pick(3000usize, 60_000);
    for i in 0..n_random {
        *item += 1;
        if !ctx.mine(*item) {
            continue;
        }
        let mut rng = Rng::derive(ctx.seed, "c04-packed-points", i as u64);
        let target = *rng.pick(&[1usize, 2, 5, 30, 127, 128, 129, 200, 400]);
        let mut gaps = vec![];
        while gaps.len() + 1 < target {
            let words = rng.chance(1, 4);
            let n = match rng.below(4) {
                0 => 1,
                1 => rng.range(1, 5) as usize,
                2 => rng.range(125, 131) as usize,
                _ => rng.range(1, 40) as usize,
            };
            for _ in 0..n {
                gaps.push(if words { *rng.pick(&[256u32, 257, 300]) } else { *rng.pick(&[0u32, 1, 2, 17, 254, 255]) });
            }
        }
        gaps.truncate(target - 1);
        // keep within u16: shrink 16-bit gaps from the end until it fits
        let first = *rng.pick(&[0u16, 1, 255, 256, 1000]);
        let mut g = gaps;
        let p = loop {
            if let Some(p) = from_gaps(first, &g) {
                break p;
            }
            match g.iter().rposition(|x| *x > 255) {
                Some(ix) => g[ix] = 2,
                None => {
                    g.pop();
                }
            }
        };
        points_case(ctx, "random", &p);
    }
    // ---- 4. the count limit of the format
    *item += 1;
    if ctx.mine(*item) {
        for n in [0x7FFEusize, 0x7FFF, 0x8000] {
            let p: Vec<u16> = (0..n).map(|i| i as u16).collect();
            points_case(ctx, "count-15-bit-limit", &p);
        }
    }
}

/// Re-run one recorded case. Returns false if the record is not one of ours.
pub fn replay(ctx: &mut Ctx, case: &Value) -> bool {
    let family = case["family"].as_str().unwrap_or("replay").to_string();
    match case["type"].as_str() {
        Some("PackedDeltas") => {
            let Some(a) = case["values"].as_array() else {
                ctx.inconclusive("replay: PackedDeltas record without the full value list");
                return true;
            };
            let v: Vec<i32> = a.iter().filter_map(|x| x.as_i64()).map(|x| x as i32).collect();
            delta_case(ctx, &family, &v);
            true
        }
        Some("PackedPointNumbers") => {
            let v: Vec<u16> = match case["points"].as_array() {
                Some(a) => a.iter().filter_map(|x| x.as_u64()).map(|x| x as u16).collect(),
                // only the consecutive-number sequences of the count-limit family are longer than 512
                None => (0..case["points"]["len"].as_u64().unwrap_or(0)).map(|i| i as u16).collect(),
            };
            if v.is_empty() {
                ctx.inconclusive("replay: PackedPointNumbers record without points");
                return true;
            }
            points_case(ctx, &family, &v);
            true
        }
        _ => false,
    }
}

pub fn run_packed(ctx: &mut Ctx) {
    let mut item = 0usize;
    deltas_workload(ctx, &mut item);
    points_workload(ctx, &mut item);
}
