//! Declared consistency preconditions between user-supplied count / selector
//! fields and the arrays they govern.
//!
//! Many write-fonts owned types carry a count field that is NOT computed by
//! the writer (no `#[compile(array_len(..))]` in the schema): the user supplies
//! both the count and the array, and the generated `Validate` impl never
//! compares them. A value that violates such a precondition but passes
//! `validate()` compiles to a table that re-reads differently; that is a
//! validation gap, reported under its own signature
//! (`validation-gap:<rule>`), so that the strict round-trip oracle stays armed
//! for all *consistent* values.
//!
//! The formulas are written from the OpenType spec, not by calling the
//! library's own count helpers.

use serde_json::{Map, Value};

type Obj = Map<String, Value>;

fn len_of(v: &Value) -> Option<u64> {
    v.as_array().map(|a| a.len() as u64)
}

/// `{"obj": X}` → X (None if the marker is null)
fn through_obj(v: &Value) -> Option<&Value> {
    match v.get("obj") {
        Some(Value::Null) | None => None,
        Some(x) => Some(x),
    }
}

fn count_eq(o: &Obj, count: &str, arr: &str) -> Option<bool> {
    let c = o.get(count)?;
    let a = o.get(arr)?;
    if c.is_null() && a.is_null() {
        return Some(true);
    }
    Some(c.as_u64()? == len_of(a)?)
}

/// count field vs array behind a nullable offset marker; a null marker is
/// consistent with any count.
fn count_eq_nullable(o: &Obj, count: &str, arr: &str) -> Option<bool> {
    let c = o.get(count)?.as_u64()?;
    let a = o.get(arr)?;
    if !a.is_object() {
        return None;
    }
    match through_obj(a) {
        None => Some(true),
        Some(x) => Some(len_of(x)? == c),
    }
}

pub struct Rule {
    pub name: &'static str,
    /// all keys must be present in the object for the rule to apply
    pub keys: &'static [&'static str],
    /// Some(true) consistent, Some(false) inconsistent, None not applicable
    pub check: fn(&Obj) -> Option<bool>,
}

fn bits(v: &Value) -> Option<u64> {
    v.get("bits").and_then(|b| b.as_u64())
}

fn feature_params_match(o: &Obj) -> Option<bool> {
    // FeatureRecord { feature_tag, feature: {obj: {feature_params: {obj: ..}, ..}} }
    let tag = o.get("feature_tag")?.as_str()?;
    let feat = through_obj(o.get("feature")?)?;
    let params = feat.get("feature_params")?;
    let Some(p) = through_obj(params) else { return Some(true) };
    let variant = p.as_object()?.keys().next()?.as_str();
    Some(match variant {
        "Size" => tag == "size",
        "StylisticSet" => tag.starts_with("ss"),
        "CharacterVariant" => tag.starts_with("cv"),
        _ => return None,
    })
}

/// The ValueFormat bits a ValueRecord (JSON) will be written with: the
/// explicit format if set, else one bit per present field.
pub fn value_record_format(o: &Obj) -> Option<u64> {
    if let Some(ef) = o.get("explicit_format") {
        if !ef.is_null() {
            return bits(ef);
        }
    }
    Some(value_record_present_bits(o))
}

/// One bit per field that carries a value.
pub fn value_record_present_bits(o: &Obj) -> u64 {
    let mut f = 0u64;
    for (k, b) in [("x_placement", 1u64), ("y_placement", 2), ("x_advance", 4), ("y_advance", 8)] {
        if o.get(k).map(|v| !v.is_null()).unwrap_or(false) {
            f |= b;
        }
    }
    for (k, b) in [("x_placement_device", 0x10u64), ("y_placement_device", 0x20), ("x_advance_device", 0x40), ("y_advance_device", 0x80)] {
        if o.get(k).and_then(through_obj).is_some() {
            f |= b;
        }
    }
    f
}

fn distinct_mark_classes(mark_array: &Value) -> Option<u64> {
    let recs = through_obj(mark_array)?.get("mark_records")?.as_array()?;
    let mut set = std::collections::BTreeSet::new();
    for r in recs {
        set.insert(r.get("mark_class")?.as_u64()?);
    }
    Some(set.len() as u64)
}

fn all_same_format<'a>(recs: impl Iterator<Item = &'a Value>) -> Option<bool> {
    let mut first = None;
    for r in recs {
        let f = value_record_format(r.as_object()?)?;
        match first {
            None => first = Some(f),
            Some(x) if x != f => return Some(false),
            _ => {}
        }
    }
    Some(true)
}

pub const RULES: &[Rule] = &[
    Rule {
        name: "ValueRecord.explicit_format~present-fields",
        keys: &["explicit_format", "x_placement", "x_advance_device"],
        check: |o| {
            let ef = o.get("explicit_format")?;
            if ef.is_null() {
                return Some(true);
            }
            let f = bits(ef)?;
            Some(value_record_present_bits(o) & !f == 0)
        },
    },
    Rule {
        name: "SinglePosFormat2.value_records-same-format",
        keys: &["coverage", "value_records"],
        check: |o| {
            let recs = o.get("value_records")?.as_array()?;
            // zero-sized records (empty format) cannot be counted back from the data
            if let Some(first) = recs.first() {
                if value_record_format(first.as_object()?)? == 0 {
                    return Some(false);
                }
            }
            all_same_format(recs.iter())
        },
    },
    Rule {
        name: "PairPosFormat2.class2_records-zero-sized",
        keys: &["class_def1", "class_def2", "class1_records"],
        check: |o| {
            let c1 = o.get("class1_records")?.as_array()?;
            let first = c1.first().and_then(|r| r.get("class2_records")).and_then(|a| a.as_array()).and_then(|a| a.first());
            let Some(first) = first else { return Some(true) };
            let f1 = value_record_format(first.get("value_record1")?.as_object()?)?;
            let f2 = value_record_format(first.get("value_record2")?.as_object()?)?;
            Some(f1 != 0 || f2 != 0)
        },
    },
    Rule {
        name: "MarkBasePosFormat1.mark_class_count~base_anchors",
        keys: &["mark_array", "base_array"],
        check: |o| {
            let n = distinct_mark_classes(o.get("mark_array")?)?;
            let Some(ba) = through_obj(o.get("base_array")?) else { return Some(true) };
            // zero-sized records cannot be counted back from the data
            if n == 0 && !ba.get("base_records")?.as_array()?.is_empty() {
                return Some(false);
            }
            for r in ba.get("base_records")?.as_array()? {
                if len_of(r.get("base_anchors")?)? != n {
                    return Some(false);
                }
            }
            Some(true)
        },
    },
    Rule {
        name: "MarkMarkPosFormat1.mark_class_count~mark2_anchors",
        keys: &["mark1_array", "mark2_array"],
        check: |o| {
            let n = distinct_mark_classes(o.get("mark1_array")?)?;
            let Some(ba) = through_obj(o.get("mark2_array")?) else { return Some(true) };
            if n == 0 && !ba.get("mark2_records")?.as_array()?.is_empty() {
                return Some(false);
            }
            for r in ba.get("mark2_records")?.as_array()? {
                if len_of(r.get("mark2_anchors")?)? != n {
                    return Some(false);
                }
            }
            Some(true)
        },
    },
    Rule {
        name: "MarkLigPosFormat1.mark_class_count~ligature_anchors",
        keys: &["mark_array", "ligature_array"],
        check: |o| {
            let n = distinct_mark_classes(o.get("mark_array")?)?;
            let Some(la) = through_obj(o.get("ligature_array")?) else { return Some(true) };
            for att in la.get("ligature_attaches")?.as_array()? {
                let Some(att) = through_obj(att) else { continue };
                if n == 0 && !att.get("component_records")?.as_array()?.is_empty() {
                    return Some(false);
                }
                for r in att.get("component_records")?.as_array()? {
                    if len_of(r.get("ligature_anchors")?)? != n {
                        return Some(false);
                    }
                }
            }
            Some(true)
        },
    },
    Rule { name: "Cmap0.glyph_id_array~256", keys: &["language", "glyph_id_array"], check: |o| if o.len() == 2 { Some(len_of(o.get("glyph_id_array")?)? == 256) } else { None } },
    Rule { name: "Cmap2.sub_header_keys~256", keys: &["sub_header_keys"], check: |o| Some(len_of(o.get("sub_header_keys")?)? == 256) },
    Rule {
        name: "Post.string_data-pascal-strings",
        keys: &["string_data", "italic_angle"],
        check: |o| {
            let sd = o.get("string_data")?;
            if sd.is_null() {
                return Some(true);
            }
            for s in sd.as_array()? {
                let s = s.as_str()?;
                if s.len() > 255 || !s.is_ascii() {
                    return Some(false);
                }
            }
            Some(true)
        },
    },
    Rule { name: "PatchMapFormat1|2.uri_template_length~uri_template", keys: &["uri_template_length", "uri_template"], check: |o| count_eq(o, "uri_template_length", "uri_template") },
    Rule {
        name: "PatchMapFormat1.max_entry_index~applied_entries_bitmap",
        keys: &["max_entry_index", "applied_entries_bitmap"],
        check: |o| Some(len_of(o.get("applied_entries_bitmap")?)? == (o.get("max_entry_index")?.as_u64()? + 1).div_ceil(8)),
    },
    Rule { name: "TableKeyedPatch.patches_count~patches", keys: &["patches_count", "patches"], check: |o| Some(len_of(o.get("patches")?)? == o.get("patches_count")?.as_u64()? + 1) },
    Rule { name: "Gasp.num_ranges~gasp_ranges", keys: &["num_ranges", "gasp_ranges"], check: |o| count_eq(o, "num_ranges", "gasp_ranges") },
    Rule { name: "Cmap6.entry_count~glyph_id_array", keys: &["entry_count", "glyph_id_array", "first_code"], check: |o| count_eq(o, "entry_count", "glyph_id_array") },
    Rule { name: "Cmap8|Cmap13.num_groups~groups", keys: &["num_groups", "groups"], check: |o| count_eq(o, "num_groups", "groups") },
    Rule { name: "Cmap8.is32~8192", keys: &["is32", "num_groups"], check: |o| Some(len_of(o.get("is32")?)? == 8192) },
    Rule { name: "Cmap14.num_var_selector_records~var_selector", keys: &["num_var_selector_records", "var_selector"], check: |o| count_eq(o, "num_var_selector_records", "var_selector") },
    Rule { name: "DefaultUvs.num_unicode_value_ranges~ranges", keys: &["num_unicode_value_ranges", "ranges"], check: |o| count_eq(o, "num_unicode_value_ranges", "ranges") },
    Rule { name: "NonDefaultUvs.num_uvs_mappings~uvs_mapping", keys: &["num_uvs_mappings", "uvs_mapping"], check: |o| count_eq(o, "num_uvs_mappings", "uvs_mapping") },
    Rule { name: "Colr.num_base_glyph_records~base_glyph_records", keys: &["num_base_glyph_records", "base_glyph_records"], check: |o| count_eq_nullable(o, "num_base_glyph_records", "base_glyph_records") },
    Rule { name: "Colr.num_layer_records~layer_records", keys: &["num_layer_records", "layer_records"], check: |o| count_eq_nullable(o, "num_layer_records", "layer_records") },
    Rule { name: "BaseGlyphList.num_base_glyph_paint_records~base_glyph_paint_records", keys: &["num_base_glyph_paint_records", "base_glyph_paint_records"], check: |o| count_eq(o, "num_base_glyph_paint_records", "base_glyph_paint_records") },
    Rule { name: "LayerList.num_layers~paints", keys: &["num_layers", "paints"], check: |o| count_eq(o, "num_layers", "paints") },
    Rule { name: "ClipList.num_clips~clips", keys: &["num_clips", "clips"], check: |o| count_eq(o, "num_clips", "clips") },
    Rule { name: "ColorLine|VarColorLine.num_stops~color_stops", keys: &["num_stops", "color_stops"], check: |o| count_eq(o, "num_stops", "color_stops") },
    Rule { name: "Cpal.num_palettes~color_record_indices", keys: &["num_palettes", "color_record_indices"], check: |o| count_eq(o, "num_palettes", "color_record_indices") },
    Rule { name: "Cpal.num_color_records~color_records_array", keys: &["num_color_records", "color_records_array"], check: |o| count_eq_nullable(o, "num_color_records", "color_records_array") },
    Rule { name: "Cpal.num_palettes~palette_types_array", keys: &["num_palettes", "palette_types_array"], check: |o| count_eq_nullable(o, "num_palettes", "palette_types_array") },
    Rule { name: "Cpal.num_palettes~palette_labels_array", keys: &["num_palettes", "palette_labels_array"], check: |o| count_eq_nullable(o, "num_palettes", "palette_labels_array") },
    Rule { name: "Cpal.num_palette_entries~palette_entry_labels_array", keys: &["num_palette_entries", "palette_entry_labels_array"], check: |o| count_eq_nullable(o, "num_palette_entries", "palette_entry_labels_array") },
    Rule { name: "Mvar.value_record_count~value_records", keys: &["value_record_count", "value_records"], check: |o| count_eq(o, "value_record_count", "value_records") },
    Rule { name: "Post.num_glyphs~glyph_name_index", keys: &["num_glyphs", "glyph_name_index", "italic_angle"], check: |o| count_eq(o, "num_glyphs", "glyph_name_index") },
    Rule { name: "ConditionFormat3|4.condition_count~conditions", keys: &["condition_count", "conditions"], check: |o| count_eq(o, "condition_count", "conditions") },
    Rule {
        name: "Device.delta_format,start_size,end_size~delta_value",
        keys: &["start_size", "end_size", "delta_format", "delta_value"],
        check: |o| {
            let s = o.get("start_size")?.as_u64()?;
            let e = o.get("end_size")?.as_u64()?;
            let bits_per = match o.get("delta_format")?.as_str()? {
                "Local2BitDeltas" => 2,
                "Local4BitDeltas" => 4,
                "Local8BitDeltas" => 8,
                _ => return Some(false),
            };
            if e < s {
                return Some(false);
            }
            let n = e - s + 1;
            let words = (n * bits_per).div_ceil(16);
            Some(len_of(o.get("delta_value")?)? == words)
        },
    },
    Rule {
        name: "DeltaSetIndexMap.entry_format,map_count~map_data",
        keys: &["entry_format", "map_count", "map_data"],
        check: |o| {
            let ef = bits(o.get("entry_format")?)?;
            let entry_size = ((ef & 0x30) >> 4) + 1;
            let n = o.get("map_count")?.as_u64()?;
            Some(len_of(o.get("map_data")?)? == n * entry_size)
        },
    },
    Rule {
        name: "VariationRegionList.axis_count~region_axes",
        keys: &["axis_count", "variation_regions"],
        check: |o| {
            let n = o.get("axis_count")?.as_u64()?;
            // zero-sized region records cannot be counted back from the data
            if n == 0 && !o.get("variation_regions")?.as_array()?.is_empty() {
                return Some(false);
            }
            for r in o.get("variation_regions")?.as_array()? {
                if len_of(r.get("region_axes")?)? != n {
                    return Some(false);
                }
            }
            Some(true)
        },
    },
    Rule {
        name: "ItemVariationData.item_count,word_delta_count,region_indexes~delta_sets",
        keys: &["item_count", "word_delta_count", "region_indexes", "delta_sets"],
        check: |o| {
            let items = o.get("item_count")?.as_u64()?;
            let wdc = o.get("word_delta_count")?.as_u64()?;
            let regions = len_of(o.get("region_indexes")?)?;
            let long = wdc & 0x8000 != 0;
            let words = wdc & 0x7FFF;
            if words > regions {
                return Some(false);
            }
            let (big, small) = if long { (4, 2) } else { (2, 1) };
            let row = words * big + (regions - words) * small;
            Some(len_of(o.get("delta_sets")?)? == items * row)
        },
    },
    Rule {
        name: "Cmap4.segment-arrays-equal-length",
        keys: &["end_code", "start_code", "id_delta", "id_range_offsets"],
        check: |o| {
            let n = len_of(o.get("end_code")?)?;
            Some(len_of(o.get("start_code")?)? == n && len_of(o.get("id_delta")?)? == n && len_of(o.get("id_range_offsets")?)? == n)
        },
    },
    Rule { name: "FeatureRecord.feature_tag~feature_params", keys: &["feature_tag", "feature"], check: feature_params_match },
    // meta: the record's tag selects how the data is READ ('dlng'/'slng' =
    // ScriptLangTags, anything else = bytes); validate() only rejects
    // (dlng|slng, Other)
    Rule {
        name: "DataMapRecord.tag~Metadata-variant",
        keys: &["tag", "data"],
        check: |o| {
            let tag = o.get("tag")?.as_str()?;
            let data = through_obj(o.get("data")?)?.as_object()?;
            let lang = tag == "dlng" || tag == "slng";
            if data.contains_key("ScriptLangTags") {
                Some(lang)
            } else if data.contains_key("Other") {
                Some(!lang)
            } else {
                None
            }
        },
    },
    // meta: ScriptLangTag::new performs no validation ("TK open issue" in
    // write-fonts/src/tables/meta.rs); tags are written comma-separated and
    // the reader splits at commas and trims spaces and commas
    Rule {
        name: "Metadata.ScriptLangTags-wellformed",
        keys: &["ScriptLangTags"],
        check: |o| {
            for t in o.get("ScriptLangTags")?.as_array()? {
                let t = t.as_str()?;
                if t.is_empty() || t.contains(',') || t.starts_with(' ') || t.ends_with(' ') {
                    return Some(false);
                }
            }
            Some(true)
        },
    },
];

/// Collect the names of all violated rules anywhere in `j`.
pub fn inconsistencies(j: &Value, out: &mut Vec<&'static str>) {
    match j {
        Value::Object(o) => {
            for r in RULES {
                if r.keys.iter().all(|k| o.contains_key(*k)) && (r.check)(o) == Some(false) && !out.contains(&r.name) {
                    out.push(r.name);
                }
            }
            for v in o.values() {
                inconsistencies(v, out);
            }
        }
        Value::Array(a) => {
            for v in a {
                inconsistencies(v, out);
            }
        }
        _ => {}
    }
}

// ---------------------------------------------------------------- repair
//
// Rule-driven re-derivation of declared count / selector fields: after a
// mutation the value is made consistent again (counts re-derived from their
// arrays, fixed-size arrays padded, dependent arrays resized to the count
// they share), so that it goes through the STRICT round-trip oracle instead
// of a `validation-gap:` class. A repaired value is just another value of
// the type: nothing in the oracle knows that it was repaired.

fn jnum(n: u64) -> Value {
    Value::Number(serde_json::Number::from(n))
}

fn arr_mut<'a>(o: &'a mut Obj, key: &str) -> Option<&'a mut Vec<Value>> {
    o.get_mut(key)?.as_array_mut()
}

/// array behind an offset marker
fn obj_arr_mut<'a>(o: &'a mut Obj, key: &str) -> Option<&'a mut Vec<Value>> {
    o.get_mut(key)?.get_mut("obj")?.as_array_mut()
}

/// Resize by cycling the existing elements (or `filler` if there is none).
pub fn resize_cycling(a: &mut Vec<Value>, n: usize, filler: &Value) {
    // never build huge arrays: leave the value inconsistent instead
    if n > 70_000 {
        return;
    }
    if a.len() > n {
        a.truncate(n);
        return;
    }
    let base = a.len();
    while a.len() < n {
        let x = if base == 0 { filler.clone() } else { a[a.len() % base].clone() };
        a.push(x);
    }
}

fn set_count(o: &mut Obj, count: &str, arr: &str) -> bool {
    let Some(n) = o.get(arr).and_then(len_of) else { return false };
    o.insert(count.into(), jnum(n));
    true
}

fn set_count_nullable(o: &mut Obj, count: &str, arr: &str) -> bool {
    let Some(n) = o.get(arr).and_then(through_obj).and_then(len_of) else { return false };
    o.insert(count.into(), jnum(n));
    true
}

/// resize the array behind a nullable marker to the value of `count`
fn resize_nullable_to_count(o: &mut Obj, count: &str, arr: &str, filler: Value) -> bool {
    let Some(n) = o.get(count).and_then(|c| c.as_u64()) else { return false };
    if n > 70_000 {
        return false;
    }
    let Some(a) = obj_arr_mut(o, arr) else { return false };
    resize_cycling(a, n as usize, &filler);
    true
}

fn resize_fixed(o: &mut Obj, arr: &str, n: usize) -> bool {
    let Some(a) = arr_mut(o, arr) else { return false };
    resize_cycling(a, n, &jnum(0));
    true
}

fn fix_mark_classes(o: &mut Obj, mark_array: &str, base_array: &str, records: &str, anchors: &str) -> bool {
    let Some(n) = o.get(mark_array).and_then(distinct_mark_classes) else { return false };
    let Some(recs) = o.get_mut(base_array).and_then(|b| b.get_mut("obj")).and_then(|b| b.get_mut(records)).and_then(|r| r.as_array_mut()) else { return false };
    if n == 0 {
        recs.clear();
        return true;
    }
    let null_anchor = serde_json::json!({"obj": null});
    for r in recs.iter_mut() {
        if let Some(a) = r.get_mut(anchors).and_then(|a| a.as_array_mut()) {
            resize_cycling(a, n as usize, &null_anchor);
        }
    }
    true
}

fn fix_by_name(name: &str, o: &mut Obj) -> bool {
    match name {
        "ValueRecord.explicit_format~present-fields" => {
            let present = value_record_present_bits(o);
            let cur = o.get("explicit_format").and_then(bits).unwrap_or(0);
            o.insert("explicit_format".into(), serde_json::json!({"bits": cur | present}));
            true
        }
        "SinglePosFormat2.value_records-same-format" => {
            let Some(recs) = arr_mut(o, "value_records") else { return false };
            let mut union = 0u64;
            for r in recs.iter() {
                if let Some(ro) = r.as_object() {
                    union |= value_record_format(ro).unwrap_or(0) | value_record_present_bits(ro);
                }
            }
            if union == 0 {
                union = 4;
            }
            for r in recs.iter_mut() {
                if let Some(ro) = r.as_object_mut() {
                    ro.insert("explicit_format".into(), serde_json::json!({"bits": union}));
                }
            }
            true
        }
        "MarkBasePosFormat1.mark_class_count~base_anchors" => fix_mark_classes(o, "mark_array", "base_array", "base_records", "base_anchors"),
        "MarkMarkPosFormat1.mark_class_count~mark2_anchors" => fix_mark_classes(o, "mark1_array", "mark2_array", "mark2_records", "mark2_anchors"),
        "MarkLigPosFormat1.mark_class_count~ligature_anchors" => {
            let Some(n) = o.get("mark_array").and_then(distinct_mark_classes) else { return false };
            let Some(atts) = o.get_mut("ligature_array").and_then(|b| b.get_mut("obj")).and_then(|b| b.get_mut("ligature_attaches")).and_then(|r| r.as_array_mut()) else { return false };
            let null_anchor = serde_json::json!({"obj": null});
            for att in atts.iter_mut() {
                let Some(recs) = att.get_mut("obj").and_then(|a| a.get_mut("component_records")).and_then(|r| r.as_array_mut()) else { continue };
                if n == 0 {
                    recs.clear();
                    continue;
                }
                for r in recs.iter_mut() {
                    if let Some(a) = r.get_mut("ligature_anchors").and_then(|a| a.as_array_mut()) {
                        resize_cycling(a, n as usize, &null_anchor);
                    }
                }
            }
            true
        }
        "Cmap0.glyph_id_array~256" => resize_fixed(o, "glyph_id_array", 256),
        "Cmap2.sub_header_keys~256" => resize_fixed(o, "sub_header_keys", 256),
        "Cmap8.is32~8192" => resize_fixed(o, "is32", 8192),
        "Post.string_data-pascal-strings" => {
            let Some(a) = arr_mut(o, "string_data") else { return false };
            for s in a.iter_mut() {
                if let Some(t) = s.as_str() {
                    let fixed: String = t.chars().map(|c| if c.is_ascii() { c } else { '?' }).take(255).collect();
                    *s = Value::String(fixed);
                }
            }
            true
        }
        "PatchMapFormat1|2.uri_template_length~uri_template" => set_count(o, "uri_template_length", "uri_template"),
        "PatchMapFormat1.max_entry_index~applied_entries_bitmap" => {
            let Some(m) = o.get("max_entry_index").and_then(|c| c.as_u64()) else { return false };
            let n = ((m + 1).div_ceil(8)) as usize;
            resize_fixed(o, "applied_entries_bitmap", n)
        }
        "TableKeyedPatch.patches_count~patches" => {
            let Some(n) = o.get("patches").and_then(len_of) else { return false };
            if n == 0 {
                return false;
            }
            o.insert("patches_count".into(), jnum(n - 1));
            true
        }
        "Gasp.num_ranges~gasp_ranges" => set_count(o, "num_ranges", "gasp_ranges"),
        "Cmap6.entry_count~glyph_id_array" => set_count(o, "entry_count", "glyph_id_array"),
        "Cmap8|Cmap13.num_groups~groups" => set_count(o, "num_groups", "groups"),
        "Cmap14.num_var_selector_records~var_selector" => set_count(o, "num_var_selector_records", "var_selector"),
        "DefaultUvs.num_unicode_value_ranges~ranges" => set_count(o, "num_unicode_value_ranges", "ranges"),
        "NonDefaultUvs.num_uvs_mappings~uvs_mapping" => set_count(o, "num_uvs_mappings", "uvs_mapping"),
        "Colr.num_base_glyph_records~base_glyph_records" => set_count_nullable(o, "num_base_glyph_records", "base_glyph_records"),
        "Colr.num_layer_records~layer_records" => set_count_nullable(o, "num_layer_records", "layer_records"),
        "BaseGlyphList.num_base_glyph_paint_records~base_glyph_paint_records" => set_count(o, "num_base_glyph_paint_records", "base_glyph_paint_records"),
        "LayerList.num_layers~paints" => set_count(o, "num_layers", "paints"),
        "ClipList.num_clips~clips" => set_count(o, "num_clips", "clips"),
        "ColorLine|VarColorLine.num_stops~color_stops" => set_count(o, "num_stops", "color_stops"),
        // num_palettes governs three arrays: the (non-nullable) index array is
        // the master, the two v1 arrays are resized to it
        "Cpal.num_palettes~color_record_indices" => set_count(o, "num_palettes", "color_record_indices"),
        "Cpal.num_palettes~palette_types_array" => resize_nullable_to_count(o, "num_palettes", "palette_types_array", serde_json::json!({"bits": 0})),
        "Cpal.num_palettes~palette_labels_array" => resize_nullable_to_count(o, "num_palettes", "palette_labels_array", jnum(0xFFFF)),
        "Cpal.num_color_records~color_records_array" => set_count_nullable(o, "num_color_records", "color_records_array"),
        "Cpal.num_palette_entries~palette_entry_labels_array" => set_count_nullable(o, "num_palette_entries", "palette_entry_labels_array"),
        "Mvar.value_record_count~value_records" => set_count(o, "value_record_count", "value_records"),
        "Post.num_glyphs~glyph_name_index" => set_count(o, "num_glyphs", "glyph_name_index"),
        "ConditionFormat3|4.condition_count~conditions" => set_count(o, "condition_count", "conditions"),
        "Device.delta_format,start_size,end_size~delta_value" => {
            let (Some(mut s), Some(mut e)) = (o.get("start_size").and_then(|v| v.as_u64()), o.get("end_size").and_then(|v| v.as_u64())) else { return false };
            if e < s {
                std::mem::swap(&mut s, &mut e);
                o.insert("start_size".into(), jnum(s));
                o.insert("end_size".into(), jnum(e));
            }
            let bits_per = match o.get("delta_format").and_then(|v| v.as_str()) {
                Some("Local2BitDeltas") => 2,
                Some("Local4BitDeltas") => 4,
                Some("Local8BitDeltas") => 8,
                _ => return false,
            };
            let words = ((e - s + 1) * bits_per).div_ceil(16) as usize;
            resize_fixed(o, "delta_value", words)
        }
        "DeltaSetIndexMap.entry_format,map_count~map_data" => {
            let Some(ef) = o.get("entry_format").and_then(bits) else { return false };
            let entry_size = (((ef & 0x30) >> 4) + 1) as usize;
            let Some(a) = arr_mut(o, "map_data") else { return false };
            let n = a.len() / entry_size;
            a.truncate(n * entry_size);
            o.insert("map_count".into(), jnum(n as u64));
            true
        }
        "VariationRegionList.axis_count~region_axes" => {
            let Some(regs) = arr_mut(o, "variation_regions") else { return false };
            let n = regs.first().and_then(|r| r.get("region_axes")).and_then(len_of).unwrap_or(0) as usize;
            if n == 0 {
                regs.clear();
                return true;
            }
            let filler = regs[0]["region_axes"][0].clone();
            for r in regs.iter_mut() {
                if let Some(a) = r.get_mut("region_axes").and_then(|a| a.as_array_mut()) {
                    resize_cycling(a, n, &filler);
                }
            }
            o.insert("axis_count".into(), jnum(n as u64));
            true
        }
        "ItemVariationData.item_count,word_delta_count,region_indexes~delta_sets" => {
            let Some(regions) = o.get("region_indexes").and_then(len_of) else { return false };
            let Some(mut wdc) = o.get("word_delta_count").and_then(|v| v.as_u64()) else { return false };
            let long = wdc & 0x8000 != 0;
            let mut words = wdc & 0x7FFF;
            if words > regions {
                words = regions;
                wdc = words | if long { 0x8000 } else { 0 };
                o.insert("word_delta_count".into(), jnum(wdc));
            }
            let (big, small) = if long { (4, 2) } else { (2, 1) };
            let row = (words * big + (regions - words) * small) as usize;
            let Some(a) = arr_mut(o, "delta_sets") else { return false };
            if row == 0 {
                a.clear();
                return true;
            }
            let items = a.len() / row;
            a.truncate(items * row);
            o.insert("item_count".into(), jnum(items as u64));
            true
        }
        "Cmap4.segment-arrays-equal-length" => {
            let keys = ["end_code", "start_code", "id_delta", "id_range_offsets"];
            let mut n = usize::MAX;
            for k in keys {
                n = n.min(o.get(k).and_then(len_of).unwrap_or(0) as usize);
            }
            for k in keys {
                if let Some(a) = arr_mut(o, k) {
                    a.truncate(n);
                }
            }
            true
        }
        "DataMapRecord.tag~Metadata-variant" => {
            let lang = o.get("data").and_then(through_obj).and_then(|d| d.as_object()).map(|d| d.contains_key("ScriptLangTags")).unwrap_or(false);
            o.insert("tag".into(), Value::String(if lang { "dlng".into() } else { "appl".into() }));
            true
        }
        "Metadata.ScriptLangTags-wellformed" => {
            let Some(a) = arr_mut(o, "ScriptLangTags") else { return false };
            for t in a.iter_mut() {
                if let Some(s) = t.as_str() {
                    let fixed: String = s.chars().filter(|c| *c != ',' && *c != ' ').collect();
                    *t = Value::String(if fixed.is_empty() { "und".into() } else { fixed });
                }
            }
            true
        }
        "FeatureRecord.feature_tag~feature_params" => {
            let variant = o
                .get("feature")
                .and_then(through_obj)
                .and_then(|f| f.get("feature_params"))
                .and_then(through_obj)
                .and_then(|p| p.as_object())
                .and_then(|p| p.keys().next().cloned());
            let tag = match variant.as_deref() {
                Some("Size") => "size",
                Some("StylisticSet") => "ss01",
                Some("CharacterVariant") => "cv01",
                _ => return false,
            };
            o.insert("feature_tag".into(), Value::String(tag.into()));
            true
        }
        _ => false,
    }
}

/// Make `j` consistent with respect to RULES (children first). Returns the
/// number of fixes applied.
pub fn repair(j: &mut Value) -> u32 {
    let mut n = 0;
    match j {
        Value::Object(o) => {
            for v in o.values_mut() {
                n += repair(v);
            }
            // two passes: a fix may enable a later rule of the same object
            for _ in 0..2 {
                let mut any = false;
                for r in RULES {
                    if r.keys.iter().all(|k| o.contains_key(*k)) && (r.check)(o) == Some(false) && fix_by_name(r.name, o) {
                        n += 1;
                        any = true;
                    }
                }
                if !any {
                    break;
                }
            }
        }
        Value::Array(a) => {
            for v in a {
                n += repair(v);
            }
        }
        _ => {}
    }
    n
}
