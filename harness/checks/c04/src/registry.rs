//! The registry of (owned write-fonts type, reader) pairs.

use crate::oracle::{check_typed, matches_exact, Outcome};
use read_fonts::{FontData, FontRead, FontReadWithArgs, FontRef, TableProvider, TopLevelTable};
use serde::Serialize;
use serde_json::Value;
use vf_core::guard;
use write_fonts::from_obj::ToOwnedTable;
use write_fonts::tables as wt;

pub struct Entry {
    pub name: &'static str,
    pub module: &'static str,
    /// exact structural match: JSON deserialises to the type and serialises
    /// back to the same JSON
    pub matches: fn(&Value) -> bool,
    pub check: fn(&Value) -> Outcome,
    /// typed harvest from a font (top-level tables and tables needing args)
    pub from_font: Option<fn(&FontRef) -> Vec<Result<Value, String>>>,
    /// variant tag (version/format) of a value, if the generic rule is not enough
    pub variant: Option<fn(&Value) -> String>,
    /// expected compiled length for fixed-size tables, from the spec
    pub spec_len: Option<fn(&[u8]) -> Option<usize>>,
    /// `Default::default()` of the type, as a fallback seed
    pub default_json: Option<fn() -> Value>,
    /// read stand-alone bytes as this type (None: needs arguments)
    pub from_bytes: Option<fn(&[u8]) -> Option<Value>>,
}

fn bytes_to<T: for<'a> FontRead<'a> + Serialize>(b: &[u8]) -> Option<Value> {
    match guard(|| T::read(FontData::new(b))) {
        Ok(Ok(t)) => serde_json::to_value(&t).ok(),
        _ => None,
    }
}

fn default_of<T: Default + Serialize>() -> Value {
    serde_json::to_value(T::default()).unwrap_or(Value::Null)
}

fn top_from_font<T>(font: &FontRef) -> Vec<Result<Value, String>>
where
    T: TopLevelTable + for<'a> FontRead<'a> + Serialize,
{
    let Some(data) = font.table_data(T::TAG) else { return vec![] };
    match guard(|| T::read(data)) {
        Err(p) => vec![Err(format!("panic {}:{} {}", p.file, p.line, p.msg))],
        Ok(Err(e)) => vec![Err(format!("read error {}", e))],
        Ok(Ok(t)) => vec![serde_json::to_value(&t).map_err(|e| e.to_string())],
    }
}

macro_rules! plain {
    ($v:ident; $($m:ident :: $t:ident),* $(,)?) => {$(
        $v.push(Entry {
            name: stringify!($t),
            module: stringify!($m),
            matches: |j| matches_exact::<wt::$m::$t>(j),
            check: |j| check_typed::<wt::$m::$t>(j, |b, _| Some(<wt::$m::$t as FontRead>::read(FontData::new(b)))),
            from_font: None,
            variant: None,
            spec_len: None,
            default_json: Some(default_of::<wt::$m::$t>),
            from_bytes: Some(bytes_to::<wt::$m::$t>),
        });
    )*};
}

macro_rules! top {
    ($v:ident; $($m:ident :: $t:ident),* $(,)?) => {$(
        $v.push(Entry {
            name: stringify!($t),
            module: stringify!($m),
            matches: |j| matches_exact::<wt::$m::$t>(j),
            check: |j| check_typed::<wt::$m::$t>(j, |b, _| Some(<wt::$m::$t as FontRead>::read(FontData::new(b)))),
            from_font: Some(|f| top_from_font::<wt::$m::$t>(f)),
            variant: None,
            spec_len: None,
            default_json: Some(default_of::<wt::$m::$t>),
            from_bytes: Some(bytes_to::<wt::$m::$t>),
        });
    )*};
}

fn to_json<T: Serialize>(r: Result<Result<T, String>, vf_core::PanicInfo>) -> Vec<Result<Value, String>> {
    match r {
        Err(p) => vec![Err(format!("panic {}:{} {}", p.file, p.line, p.msg))],
        Ok(Err(e)) => vec![Err(e)],
        Ok(Ok(t)) => vec![serde_json::to_value(&t).map_err(|e| e.to_string())],
    }
}

fn hmtx_from_font(font: &FontRef) -> Vec<Result<Value, String>> {
    if font.table_data(read_fonts::tables::hmtx::Hmtx::TAG).is_none() {
        return vec![];
    }
    to_json(guard(|| font.hmtx().map(|t| -> wt::hmtx::Hmtx { t.to_owned_table() }).map_err(|e| e.to_string())))
}

fn vmtx_from_font(font: &FontRef) -> Vec<Result<Value, String>> {
    if font.table_data(read_fonts::tables::vmtx::Vmtx::TAG).is_none() {
        return vec![];
    }
    to_json(guard(|| font.vmtx().map(|t| -> wt::vmtx::Vmtx { t.to_owned_table() }).map_err(|e| e.to_string())))
}

fn sbix_from_font(font: &FontRef) -> Vec<Result<Value, String>> {
    if font.table_data(read_fonts::tables::sbix::Sbix::TAG).is_none() {
        return vec![];
    }
    to_json(guard(|| font.sbix().map(|t| -> wt::sbix::Sbix { t.to_owned_table() }).map_err(|e| e.to_string())))
}

fn sbix_glyph_data_from_font(font: &FontRef) -> Vec<Result<Value, String>> {
    let mut out = vec![];
    let Ok(sbix) = font.sbix() else { return out };
    let Ok(maxp) = font.maxp() else { return out };
    let n = maxp.num_glyphs() as u32;
    for strike in sbix.strikes().iter().flatten().take(4) {
        for gid in 0..n.min(64) {
            let r = guard(|| match strike.glyph_data(font_types::GlyphId::new(gid)) {
                Ok(Some(g)) => {
                    let o: wt::sbix::GlyphData = g.to_owned_table();
                    Ok(Some(o))
                }
                Ok(None) => Ok(None),
                Err(e) => Err(e.to_string()),
            });
            match r {
                Ok(Ok(Some(g))) => out.push(serde_json::to_value(&g).map_err(|e| e.to_string())),
                Ok(Ok(None)) => {}
                Ok(Err(e)) => out.push(Err(e)),
                Err(p) => out.push(Err(format!("panic {}:{} {}", p.file, p.line, p.msg))),
            }
            if out.len() >= 24 {
                return out;
            }
        }
    }
    out
}

fn ift_from_font(font: &FontRef) -> Vec<Result<Value, String>> {
    let mut out = vec![];
    for tag in [b"IFT ", b"IFTX"] {
        let Some(data) = font.table_data(font_types::Tag::new(tag)) else { continue };
        out.extend(to_json(guard(|| <wt::ift::Ift as FontRead>::read(data).map_err(|e| e.to_string()))));
    }
    out
}

fn u16_len(n: usize) -> Option<u16> {
    u16::try_from(n).ok()
}

fn spec_len_os2(b: &[u8]) -> Option<usize> {
    let v = u16::from_be_bytes([*b.first()?, *b.get(1)?]);
    Some(match v {
        0 => 78,
        1 => 86,
        2..=4 => 96,
        5 => 100,
        _ => return None,
    })
}

fn spec_len_maxp(b: &[u8]) -> Option<usize> {
    let v = u32::from_be_bytes([*b.first()?, *b.get(1)?, *b.get(2)?, *b.get(3)?]);
    match v {
        0x00005000 => Some(6),
        0x00010000 => Some(32),
        _ => None,
    }
}

pub fn registry() -> Vec<Entry> {
    let mut v: Vec<Entry> = vec![];
    // ---- top-level tables readable without external arguments
    top!(v;
        avar::Avar, base::Base, cmap::Cmap, colr::Colr, cpal::Cpal, fvar::Fvar, gasp::Gasp,
        gdef::Gdef, gpos::Gpos, gsub::Gsub, head::Head, hhea::Hhea, hvar::Hvar, maxp::Maxp,
        meta::Meta, mvar::Mvar, name::Name, os2::Os2, post::Post, stat::Stat, vhea::Vhea,
        vvar::Vvar,
    );
    // ---- shared subtables
    plain!(v;
        base::Axis, base::BaseTagList, base::BaseScriptList, base::BaseScript, base::BaseValues,
        base::MinMax, base::BaseCoord, base::BaseCoordFormat1, base::BaseCoordFormat2, base::BaseCoordFormat3,
        cmap::CmapSubtable, cmap::Cmap0, cmap::Cmap2, cmap::Cmap4, cmap::Cmap6, cmap::Cmap8, cmap::Cmap10,
        cmap::Cmap12, cmap::Cmap13, cmap::Cmap14, cmap::DefaultUvs, cmap::NonDefaultUvs,
        colr::BaseGlyphList, colr::LayerList, colr::ClipList, colr::ClipBox, colr::ClipBoxFormat1,
        colr::ClipBoxFormat2, colr::ColorLine, colr::VarColorLine, colr::Paint, colr::PaintColrLayers,
        colr::PaintSolid, colr::PaintVarSolid, colr::PaintLinearGradient, colr::PaintVarLinearGradient,
        colr::PaintRadialGradient, colr::PaintVarRadialGradient, colr::PaintSweepGradient,
        colr::PaintVarSweepGradient, colr::PaintGlyph, colr::PaintColrGlyph, colr::PaintTransform,
        colr::PaintVarTransform, colr::Affine2x3, colr::VarAffine2x3, colr::PaintTranslate,
        colr::PaintVarTranslate, colr::PaintScale, colr::PaintVarScale, colr::PaintScaleAroundCenter,
        colr::PaintVarScaleAroundCenter, colr::PaintScaleUniform, colr::PaintVarScaleUniform,
        colr::PaintScaleUniformAroundCenter, colr::PaintVarScaleUniformAroundCenter, colr::PaintRotate,
        colr::PaintVarRotate, colr::PaintRotateAroundCenter, colr::PaintVarRotateAroundCenter,
        colr::PaintSkew, colr::PaintVarSkew, colr::PaintSkewAroundCenter, colr::PaintVarSkewAroundCenter,
        colr::PaintComposite,
        gdef::AttachList, gdef::AttachPoint, gdef::LigCaretList, gdef::LigGlyph, gdef::CaretValue,
        gdef::CaretValueFormat1, gdef::CaretValueFormat2, gdef::CaretValueFormat3, gdef::MarkGlyphSets,
        gpos::AnchorTable, gpos::AnchorFormat1, gpos::AnchorFormat2, gpos::AnchorFormat3, gpos::MarkArray,
        gpos::SinglePos, gpos::SinglePosFormat1, gpos::SinglePosFormat2, gpos::PairPos, gpos::PairPosFormat1,
        gpos::PairPosFormat2, gpos::CursivePosFormat1, gpos::MarkBasePosFormat1, gpos::MarkLigPosFormat1,
        gpos::MarkMarkPosFormat1, gpos::PositionLookup, gpos::PositionLookupList,
        gsub::SingleSubst, gsub::SingleSubstFormat1, gsub::SingleSubstFormat2, gsub::MultipleSubstFormat1,
        gsub::Sequence, gsub::AlternateSubstFormat1, gsub::AlternateSet, gsub::LigatureSubstFormat1,
        gsub::LigatureSet, gsub::Ligature, gsub::ReverseChainSingleSubstFormat1, gsub::SubstitutionLookup,
        gsub::SubstitutionLookupList,
        ift::Ift, ift::PatchMapFormat1, ift::PatchMapFormat2, ift::MappingEntries, ift::IdStringData,
        ift::TableKeyedPatch, ift::TablePatch, ift::GlyphKeyedPatch,
        layout::ScriptList, layout::Script, layout::LangSys, layout::FeatureList, layout::CoverageFormat1,
        layout::CoverageFormat2, layout::CoverageTable, layout::ClassDefFormat1, layout::ClassDefFormat2,
        layout::ClassDef, layout::SequenceContextFormat1, layout::SequenceRuleSet, layout::SequenceRule,
        layout::SequenceContextFormat2, layout::ClassSequenceRuleSet, layout::ClassSequenceRule,
        layout::SequenceContextFormat3, layout::SequenceContext, layout::ChainedSequenceContextFormat1,
        layout::ChainedSequenceRuleSet, layout::ChainedSequenceRule, layout::ChainedSequenceContextFormat2,
        layout::ChainedClassSequenceRuleSet, layout::ChainedClassSequenceRule,
        layout::ChainedSequenceContextFormat3, layout::ChainedSequenceContext, layout::Device,
        layout::VariationIndex, layout::DeviceOrVariationIndex, layout::FeatureVariations,
        layout::ConditionSet, layout::Condition, layout::ConditionFormat1, layout::ConditionFormat2,
        layout::ConditionFormat3, layout::ConditionFormat4, layout::ConditionFormat5,
        layout::FeatureTableSubstitution, layout::SizeParams, layout::StylisticSetParams,
        layout::CharacterVariantParams,
        stat::AxisValue, stat::AxisValueFormat1, stat::AxisValueFormat2, stat::AxisValueFormat3,
        stat::AxisValueFormat4,
        variations::DeltaSetIndexMapFormat0, variations::DeltaSetIndexMapFormat1, variations::DeltaSetIndexMap,
        variations::VariationRegionList, variations::ItemVariationStore, variations::ItemVariationData,
    );
    // name collision: sbix::GlyphData / ift::GlyphData
    v.push(Entry {
        name: "sbix::GlyphData",
        module: "sbix",
        matches: |j| matches_exact::<wt::sbix::GlyphData>(j),
        check: |j| check_typed::<wt::sbix::GlyphData>(j, |b, _| Some(<wt::sbix::GlyphData as FontRead>::read(FontData::new(b)))),
        from_font: None,
        variant: None,
        spec_len: None,
        default_json: Some(default_of::<wt::sbix::GlyphData>),
        from_bytes: Some(bytes_to::<wt::sbix::GlyphData>),
    });
    v.push(Entry {
        name: "ift::GlyphData",
        module: "ift",
        matches: |j| matches_exact::<wt::ift::GlyphData>(j),
        check: |j| check_typed::<wt::ift::GlyphData>(j, |b, _| Some(<wt::ift::GlyphData as FontRead>::read(FontData::new(b)))),
        from_font: None,
        variant: None,
        spec_len: None,
        default_json: Some(default_of::<wt::ift::GlyphData>),
        from_bytes: Some(bytes_to::<wt::ift::GlyphData>),
    });
    // ---- tables whose reader needs arguments: derived from the written value
    v.push(Entry {
        name: "Hmtx",
        module: "hmtx",
        matches: |j| matches_exact::<wt::hmtx::Hmtx>(j),
        check: |j| {
            check_typed::<wt::hmtx::Hmtx>(j, |b, v| {
                let n = u16_len(v.h_metrics.len())?;
                let g = u16_len(v.h_metrics.len() + v.left_side_bearings.len())?;
                Some(read_fonts::tables::hmtx::Hmtx::read_with_args(FontData::new(b), &(n, g)).map(|t| t.to_owned_table()))
            })
        },
        from_font: Some(hmtx_from_font),
        variant: None,
        spec_len: None,
        default_json: None,
        from_bytes: None,
    });
    v.push(Entry {
        name: "Vmtx",
        module: "vmtx",
        matches: |j| matches_exact::<wt::vmtx::Vmtx>(j),
        check: |j| {
            check_typed::<wt::vmtx::Vmtx>(j, |b, v| {
                let n = u16_len(v.v_metrics.len())?;
                let g = u16_len(v.v_metrics.len() + v.top_side_bearings.len())?;
                Some(read_fonts::tables::vmtx::Vmtx::read_with_args(FontData::new(b), &(n, g)).map(|t| t.to_owned_table()))
            })
        },
        from_font: Some(vmtx_from_font),
        variant: None,
        spec_len: None,
        default_json: None,
        from_bytes: None,
    });
    v.push(Entry {
        name: "Sbix",
        module: "sbix",
        matches: |j| matches_exact::<wt::sbix::Sbix>(j),
        check: |j| {
            check_typed::<wt::sbix::Sbix>(j, |b, v| {
                // all strikes must agree on num_glyphs (= offsets - 1)
                let first = v.strikes.first().map(|s| s.glyph_data_offsets.len()).unwrap_or(1);
                if first == 0 || v.strikes.iter().any(|s| s.glyph_data_offsets.len() != first) {
                    return None;
                }
                let n = u16_len(first - 1)?;
                Some(read_fonts::tables::sbix::Sbix::read_with_args(FontData::new(b), &n).map(|t| t.to_owned_table()))
            })
        },
        from_font: Some(sbix_from_font),
        variant: None,
        spec_len: None,
        default_json: None,
        from_bytes: None,
    });
    v.push(Entry {
        name: "Strike",
        module: "sbix",
        matches: |j| matches_exact::<wt::sbix::Strike>(j),
        check: |j| {
            check_typed::<wt::sbix::Strike>(j, |b, v| {
                let n = u16_len(v.glyph_data_offsets.len().checked_sub(1)?)?;
                Some(read_fonts::tables::sbix::Strike::read_with_args(FontData::new(b), &n).map(|t| t.to_owned_table()))
            })
        },
        from_font: None,
        variant: None,
        spec_len: None,
        default_json: None,
        from_bytes: None,
    });

    for e in v.iter_mut() {
        match e.name {
            "Avar" => {
                e.variant = Some(|j| {
                    let some = |k: &str| !j[k]["obj"].is_null();
                    if some("axis_index_map") || some("var_store") { "v2".into() } else { "v1".into() }
                })
            }
            "Ift" => e.from_font = Some(ift_from_font),
            "sbix::GlyphData" => e.from_font = Some(sbix_glyph_data_from_font),
            "Os2" => e.spec_len = Some(spec_len_os2),
            "Maxp" => e.spec_len = Some(spec_len_maxp),
            "Head" => e.spec_len = Some(|_| Some(54)),
            "Hhea" | "Vhea" => e.spec_len = Some(|_| Some(36)),
            _ => {}
        }
    }
    v
}
