fn main() {
    vf_core::main_with("C04", vf_c04::run, vf_c04::REPLAY);
}
