//! Coherent values for tables / versions / optional arrays that the corpus
//! does not contain.
//!
//! Generic serde mutation of a corpus seed almost never produces a CONSISTENT
//! value of a version or with an optional array the seed does not have: the
//! new array disagrees with its (user-supplied) count field and the case is
//! filed under a `validation-gap:` class, so the strict round-trip oracle
//! never sees e.g. a version-1 CPAL with entry labels. Three remedies:
//!
//!  1. hand-written constructor seeds (`ctor_seeds`): coherent values of the
//!     versions / formats absent from the corpus, with arrays of DIFFERENT
//!     lengths wherever the format has several count fields, so that a reader
//!     using a sibling count field is exposed;
//!  2. `lift`: for a seed of any registered type, switch optional fields
//!     (conditional `Option` fields and nullable offsets; found from the
//!     type's `Default` value) on — one at a time, all together — and off,
//!     filling them with donors (which include the parts of the constructor
//!     seeds), give the arrays of the value different lengths, then re-derive
//!     every declared count with `rules::repair`;
//!  3. `rules::repair` after random mutation (see lib.rs).
//!
//! `OptTrack` records, per registered type, which optional fields exist and
//! which of them were carried by a value that is consistent (no rule
//! violated) and passed the strict oracle, so that a gap is visible in the
//! evidence.

use crate::mutate::{node_count, Pools};
use crate::rules;
use serde_json::{json, Map, Value};
use std::collections::{BTreeMap, BTreeSet};

// ---------------------------------------------------------------- optional fields

fn is_null_marker(v: &Value) -> bool {
    matches!(v, Value::Object(m) if m.len() == 1 && m.get("obj").map(|o| o.is_null()).unwrap_or(false))
}

fn is_marker(v: &Value) -> bool {
    matches!(v, Value::Object(m) if m.len() == 1 && m.contains_key("obj"))
}

/// Is the optional field `v` switched on?
pub fn is_on(v: &Value) -> bool {
    !(v.is_null() || is_null_marker(v))
}

/// Optional top-level fields of a struct value: those that are null / a null
/// offset marker in `default`.
pub fn optional_fields_of_default(default: &Value) -> Vec<String> {
    match default {
        Value::Object(m) => m.iter().filter(|(_, v)| v.is_null() || is_null_marker(v)).map(|(k, _)| k.clone()).collect(),
        _ => vec![],
    }
}

/// The array a field holds, directly or behind an offset marker.
fn array_of(v: &Value) -> Option<&Vec<Value>> {
    match v {
        Value::Array(a) => Some(a),
        Value::Object(m) if m.len() == 1 => m.get("obj").and_then(|o| o.as_array()),
        _ => None,
    }
}

fn array_of_mut(v: &mut Value) -> Option<&mut Vec<Value>> {
    match v {
        Value::Array(a) => Some(a),
        Value::Object(m) if m.len() == 1 => m.get_mut("obj").and_then(|o| o.as_array_mut()),
        _ => None,
    }
}

/// Strip enum variant wrappers (`{"Format1": {...}}`) to reach the struct.
fn through_variants(v: &Value) -> &Value {
    let mut cur = v;
    for _ in 0..3 {
        match cur {
            Value::Object(m) if m.len() == 1 => {
                let (k, inner) = m.iter().next().unwrap();
                if k.chars().next().map(|c| c.is_ascii_uppercase()).unwrap_or(false) && inner.is_object() {
                    cur = inner;
                    continue;
                }
                break;
            }
            _ => break,
        }
    }
    cur
}

#[derive(Default)]
pub struct OptTrack {
    /// (type, field path) -> declared optional
    declared: BTreeSet<(String, String)>,
    /// (type, field path) -> (seen with a sibling array of a different length, seen otherwise)
    exercised: BTreeMap<(String, String), (bool, bool)>,
    /// types for which a consistent value had >= 2 arrays of different lengths
    distinct_lengths: BTreeSet<String>,
    pub values_walked: u64,
}

impl OptTrack {
    pub fn declare(&mut self, ty: &str, default: &Value) {
        for f in optional_fields_of_default(default) {
            self.declared.insert((ty.to_string(), f));
        }
    }

    /// Record the optional fields carried by a consistent value that passed
    /// the oracle. Looks at the struct itself, at inline records (arrays of
    /// objects) and through at most one offset marker.
    pub fn observe(&mut self, ty: &str, written: &Value) {
        self.values_walked += 1;
        let root = through_variants(written);
        let Value::Object(m) = root else { return };
        self.observe_struct(ty, "", m, 1);
    }

    fn observe_struct(&mut self, ty: &str, prefix: &str, m: &Map<String, Value>, markers_left: u32) {
        // lengths of the arrays of this struct
        let lens: Vec<(&String, usize)> = m.iter().filter_map(|(k, v)| array_of(v).map(|a| (k, a.len()))).collect();
        let distinct = lens.iter().any(|(_, l)| *l != lens[0].1);
        if distinct && prefix.is_empty() {
            self.distinct_lengths.insert(ty.to_string());
        }
        for (k, v) in m {
            let path = if prefix.is_empty() { k.clone() } else { format!("{}.{}", prefix, k) };
            let key = (ty.to_string(), path.clone());
            // an optional field discovered dynamically (null in some value)
            if v.is_null() || is_null_marker(v) {
                self.declared.insert(key);
                continue;
            }
            if self.declared.contains(&key) {
                let differs = match array_of(v) {
                    Some(a) => lens.iter().any(|(k2, l)| *k2 != k && *l != a.len()),
                    None => false,
                };
                let e = self.exercised.entry(key).or_insert((false, false));
                if differs {
                    e.0 = true;
                } else {
                    e.1 = true;
                }
            }
            // descend: inline records, and one offset marker
            let (inner, ml) = if is_marker(v) {
                if markers_left == 0 {
                    continue;
                }
                (&v["obj"], markers_left - 1)
            } else {
                (v, markers_left)
            };
            match through_variants(inner) {
                Value::Object(mm) if !(mm.len() == 1 && mm.contains_key("bits")) => self.observe_struct(ty, &path, mm, ml),
                Value::Array(a) => {
                    // first two and the last element
                    let n = a.len();
                    for (i, x) in a.iter().enumerate() {
                        if i >= 2 && i + 1 != n {
                            continue;
                        }
                        let x = if is_marker(x) {
                            if ml == 0 {
                                continue;
                            }
                            &x["obj"]
                        } else {
                            x
                        };
                        if let Value::Object(mm) = through_variants(x) {
                            if !(mm.len() == 1 && mm.contains_key("bits")) {
                                let p = format!("{}[]", path);
                                self.observe_struct(ty, &p, mm, if is_marker(&a[i]) { ml - 1 } else { ml });
                            }
                        }
                    }
                }
                _ => {}
            }
        }
    }

    /// (label key, label value) pairs for the evidence.
    pub fn labels(&self) -> Vec<(String, String)> {
        let mut out = vec![];
        for (ty, f) in &self.declared {
            out.push((format!("optional_fields:{}", ty), format!("{}: declared", f)));
        }
        for ((ty, f), (diff, same)) in &self.exercised {
            if *diff {
                out.push((format!("optional_fields:{}", ty), format!("{}: exercised consistently (array length differs from a sibling array)", f)));
            }
            if *same {
                out.push((format!("optional_fields:{}", ty), format!("{}: exercised consistently", f)));
            }
        }
        for ty in &self.distinct_lengths {
            out.push(("types_with_consistent_value_of_distinct_array_lengths".into(), ty.clone()));
        }
        out
    }

    /// Optional fields never carried by a consistent, round-tripped value in
    /// this process.
    pub fn never_exercised(&self) -> Vec<String> {
        self.declared.iter().filter(|k| !self.exercised.contains_key(*k)).map(|(t, f)| format!("{}.{}", t, f)).collect()
    }
}

// ---------------------------------------------------------------- constructor seeds

fn color(i: u64) -> Value {
    json!({"alpha": 255 - (i % 3), "blue": (i * 37) % 256, "green": (i * 91) % 256, "red": (i * 13) % 256})
}

fn cpal(palettes: u64, entries: u64, types: bool, labels: bool, entry_labels: bool) -> Value {
    // palettes overlap in the colour array: num_color_records = entries + palettes - 1
    let n_colors = entries + palettes - 1;
    let opt = |on: bool, v: Value| if on { json!({ "obj": v }) } else { json!({"obj": null}) };
    json!({
        "num_palette_entries": entries,
        "num_palettes": palettes,
        "num_color_records": n_colors,
        "color_records_array": {"obj": (0..n_colors).map(color).collect::<Vec<_>>()},
        "color_record_indices": (0..palettes).collect::<Vec<_>>(),
        "palette_types_array": opt(types, (0..palettes).map(|i| { let b = [1u32, 2, 3, 0][(i % 4) as usize]; json!({"bits": b}) }).collect()),
        "palette_labels_array": opt(labels, (0..palettes).map(|i| json!(if i % 3 == 2 { 0xFFFF } else { 256 + i })).collect()),
        "palette_entry_labels_array": opt(entry_labels, (0..entries).map(|i| json!(if i % 4 == 3 { 0xFFFF } else { 300 + i })).collect()),
    })
}

fn os2(version: u32) -> Value {
    let mut v = json!({
        "ach_vend_id": "VRIF", "fs_selection": {"bits": 64}, "fs_type": 8, "panose_10": [2, 11, 6, 4, 2, 2, 2, 2, 2, 4],
        "s_cap_height": null, "s_family_class": 2053, "s_typo_ascender": 800, "s_typo_descender": -200, "s_typo_line_gap": 90,
        "sx_height": null, "ul_code_page_range_1": null, "ul_code_page_range_2": null,
        "ul_unicode_range_1": 0x8000_00AFu32, "ul_unicode_range_2": 0x1000_204Au32, "ul_unicode_range_3": 3, "ul_unicode_range_4": 0x4000_0000u32,
        "us_break_char": null, "us_default_char": null, "us_first_char_index": 32, "us_last_char_index": 65533,
        "us_lower_optical_point_size": null, "us_max_context": null, "us_upper_optical_point_size": null,
        "us_weight_class": 700, "us_width_class": 5, "us_win_ascent": 1000, "us_win_descent": 250, "x_avg_char_width": 512,
        "y_strikeout_position": 250, "y_strikeout_size": 50, "y_subscript_x_offset": 1, "y_subscript_x_size": 650, "y_subscript_y_offset": 75,
        "y_subscript_y_size": 600, "y_superscript_x_offset": -1, "y_superscript_x_size": 651, "y_superscript_y_offset": 350, "y_superscript_y_size": 601
    });
    let m = v.as_object_mut().unwrap();
    if version >= 1 {
        m.insert("ul_code_page_range_1".into(), json!(0x2000_0197u32));
        m.insert("ul_code_page_range_2".into(), json!(0xDFD7_0000u32));
    }
    if version >= 2 {
        m.insert("sx_height".into(), json!(510));
        m.insert("s_cap_height".into(), json!(-714));
        m.insert("us_default_char".into(), json!(0));
        m.insert("us_break_char".into(), json!(32));
        m.insert("us_max_context".into(), json!(3));
    }
    if version >= 5 {
        m.insert("us_lower_optical_point_size".into(), json!(180));
        m.insert("us_upper_optical_point_size".into(), json!(0xFFFE));
    }
    v
}

fn post(version: u32, glyphs: Option<(u64, u64)>) -> Value {
    let (ng, gi, sd) = match glyphs {
        // `n` glyphs, `s` custom names: the two arrays have different lengths
        Some((n, s)) => {
            let names: Vec<Value> = (0..s).map(|i| json!(format!("name{}", "x".repeat(i as usize % 5)))).collect();
            let idx: Vec<Value> = (0..n).map(|i| if s > 0 && i % 2 == 1 { json!(258 + (i / 2) % s) } else { json!(i % 258) }).collect();
            (json!(n), json!(idx), json!(names))
        }
        None => (Value::Null, Value::Null, Value::Null),
    };
    json!({"glyph_name_index": gi, "is_fixed_pitch": 1, "italic_angle": -786432, "max_mem_type1": 4, "max_mem_type42": 3, "min_mem_type1": 2,
           "min_mem_type42": 1, "num_glyphs": ng, "string_data": sd, "underline_position": -75, "underline_thickness": 50, "version": version})
}

fn maxp(v1: bool) -> Value {
    let f = |n: u64| if v1 { json!(n) } else { Value::Null };
    json!({"num_glyphs": 1234, "max_points": f(101), "max_contours": f(12), "max_composite_points": f(203), "max_composite_contours": f(14),
           "max_zones": f(2), "max_twilight_points": f(16), "max_storage": f(64), "max_function_defs": f(89), "max_instruction_defs": f(1),
           "max_stack_elements": f(1024), "max_size_of_instructions": f(4096), "max_component_elements": f(5), "max_component_depth": f(3)})
}

fn name_rec(platform: u64, enc: u64, lang: u64, id: u64, s: &str) -> Value {
    json!({"encoding_id": enc, "language_id": lang, "name_id": id, "platform_id": platform, "string": {"obj": s}})
}

fn dsim(entry_format: u64, n: u64) -> Value {
    // entry size = ((format & 0x30) >> 4) + 1 bytes
    let size = ((entry_format & 0x30) >> 4) + 1;
    let data: Vec<Value> = (0..n * size).map(|i| json!(if (i + 1) % size == 0 { (i / size) % 3 } else { 0 })).collect();
    if n > 5 {
        json!({"Format1": {"entry_format": {"bits": entry_format}, "map_count": n, "map_data": data}})
    } else {
        json!({"Format0": {"entry_format": {"bits": entry_format}, "map_count": n, "map_data": data}})
    }
}

fn ivs(axes: u64, regions: u64, items: u64) -> Value {
    let regs: Vec<Value> = (0..regions)
        .map(|r| json!({"region_axes": (0..axes).map(|a| if (a + r) % 2 == 0 { json!({"start_coord": 0, "peak_coord": 16384, "end_coord": 16384}) } else { json!({"start_coord": -16384, "peak_coord": -8192, "end_coord": 0}) }).collect::<Vec<_>>()}))
        .collect();
    // one subtable over all regions with byte deltas, one over the first region with word deltas
    let d1: Vec<Value> = (0..items * regions).map(|i| json!((i * 7) % 200)).collect();
    let d2: Vec<Value> = (0..(items + 1) * 2).map(|i| json!((i * 31) % 256)).collect();
    json!({"item_variation_data": [
               {"obj": {"delta_sets": d1, "item_count": items, "region_indexes": (0..regions).collect::<Vec<_>>(), "word_delta_count": 0}},
               {"obj": {"delta_sets": d2, "item_count": items + 1, "region_indexes": [0], "word_delta_count": 1}}],
           "variation_region_list": {"obj": {"axis_count": axes, "variation_regions": regs}}})
}

fn solid(p: u64) -> Value {
    json!({"obj": {"Solid": {"palette_index": p, "alpha": 16384}}})
}

fn colr_full() -> Value {
    json!({
        "num_base_glyph_records": 3,
        "base_glyph_records": {"obj": [{"glyph_id": 4, "first_layer_index": 0, "num_layers": 2}, {"glyph_id": 5, "first_layer_index": 2, "num_layers": 2}, {"glyph_id": 6, "first_layer_index": 4, "num_layers": 1}]},
        "num_layer_records": 5,
        "layer_records": {"obj": [{"glyph_id": 10, "palette_index": 0}, {"glyph_id": 11, "palette_index": 1}, {"glyph_id": 12, "palette_index": 0xFFFF}, {"glyph_id": 13, "palette_index": 2}, {"glyph_id": 14, "palette_index": 0}]},
        "base_glyph_list": {"obj": {"num_base_glyph_paint_records": 2, "base_glyph_paint_records": [
            {"glyph_id": 7, "paint": {"obj": {"ColrLayers": {"num_layers": 3, "first_layer_index": 0}}}},
            {"glyph_id": 8, "paint": {"obj": {"Glyph": {"glyph_id": 20, "paint": solid(1)}}}}]}},
        "layer_list": {"obj": {"num_layers": 4, "paints": [
            {"obj": {"Glyph": {"glyph_id": 21, "paint": solid(0)}}}, {"obj": {"Glyph": {"glyph_id": 22, "paint": solid(2)}}},
            {"obj": {"Glyph": {"glyph_id": 23, "paint": {"obj": {"VarSolid": {"palette_index": 1, "alpha": 8192, "var_index_base": 2}}}}}},
            {"obj": {"Glyph": {"glyph_id": 24, "paint": solid(1)}}}]}},
        "clip_list": {"obj": {"format": 1, "num_clips": 1, "clips": [{"start_glyph_id": 7, "end_glyph_id": 8, "clip_box": {"obj": {"Format1": {"x_min": 0, "y_min": -10, "x_max": 500, "y_max": 700}}}}]}},
        "var_index_map": {"obj": dsim(0x11, 6)},
        "item_variation_store": {"obj": ivs(2, 2, 3)},
    })
}

fn hvar_like(keys: &[(&str, u64)]) -> Value {
    let mut m = Map::new();
    m.insert("item_variation_store".into(), json!({"obj": ivs(1, 2, 4)}));
    for (i, (k, n)) in keys.iter().enumerate() {
        m.insert((*k).into(), if *n == 0 { json!({"obj": null}) } else { json!({"obj": dsim([0x00u64, 0x11, 0x23, 0x01][i % 4], *n)}) });
    }
    Value::Object(m)
}

fn fvar(axes: u64, instances: u64, psname: bool) -> Value {
    let ax: Vec<Value> = (0..axes)
        .map(|a| { let tag = ["wght", "wdth", "opsz", "slnt"][(a % 4) as usize]; json!({"axis_name_id": 256 + a, "axis_tag": tag, "default_value": 400 << 16, "flags": a % 2, "max_value": 900 << 16, "min_value": 100 << 16}) })
        .collect();
    let inst: Vec<Value> = (0..instances)
        .map(|i| json!({"coordinates": (0..axes).map(|a| json!((100 + 100 * (i + a)) << 16)).collect::<Vec<_>>(), "flags": 0,
                        "post_script_name_id": if psname { json!(280 + i) } else { Value::Null }, "subfamily_name_id": 260 + i}))
        .collect();
    json!({"axis_instance_arrays": {"obj": {"axes": ax, "instances": inst}}})
}

fn seg_map(n: u64) -> Value {
    let pts: Vec<Value> = (0..n).map(|i| { let c = -16384 + (32768 * i / (n - 1).max(1)) as i64; json!({"from_coordinate": c, "to_coordinate": if i == 0 || i + 1 == n || c == 0 { c } else { c / 2 }}) }).collect();
    json!({"axis_value_maps": pts})
}

fn cmap_subtables() -> Vec<(&'static str, Value)> {
    let groups12: Vec<Value> = vec![json!({"start_char_code": 65, "end_char_code": 90, "start_glyph_id": 1}), json!({"start_char_code": 0x1F600, "end_char_code": 0x1F602, "start_glyph_id": 40}), json!({"start_char_code": 0x10FFFF, "end_char_code": 0x10FFFF, "start_glyph_id": 50})];
    let groups13: Vec<Value> = vec![json!({"start_char_code": 0, "end_char_code": 0xFFFF, "glyph_id": 1}), json!({"start_char_code": 0x10000, "end_char_code": 0x10FFFF, "glyph_id": 2})];
    vec![
        ("Cmap0", json!({"language": 0, "glyph_id_array": (0..256u64).map(|i| (i * 7) % 200).collect::<Vec<_>>()})),
        ("Cmap2", json!({"language": 0, "length": 518, "sub_header_keys": vec![0u64; 256]})),
        ("Cmap4", json!({"language": 0, "end_code": [67, 90, 65535], "start_code": [65, 80, 65535], "id_delta": [-62, 0, 1], "id_range_offsets": [0, 4, 0],
                         "glyph_id_array": [9, 8, 7, 6, 5, 4, 3, 2, 1, 10, 11]})),
        ("Cmap6", json!({"language": 0, "length": 16, "first_code": 65, "entry_count": 3, "glyph_id_array": [1, 2, 3]})),
        ("Cmap8", json!({"language": 0, "length": 16 + 8192 + 24, "is32": vec![0u64; 8192], "num_groups": 2, "groups": groups12[..2].to_vec()})),
        ("Cmap10", json!({"language": 0, "length": 20 + 8, "start_char_code": 0x10000, "num_chars": 4, "glyph_id_array": [1, 2, 3, 4]})),
        ("Cmap12", json!({"language": 0, "groups": groups12})),
        ("Cmap13", json!({"language": 0, "length": 16 + 24, "num_groups": 2, "groups": groups13})),
        ("Cmap14", json!({"length": 0, "num_var_selector_records": 2, "var_selector": [
            {"var_selector": 0xFE00, "default_uvs": {"obj": {"num_unicode_value_ranges": 3, "ranges": [{"start_unicode_value": 0x4E00, "additional_count": 2}, {"start_unicode_value": 0x4E10, "additional_count": 0}, {"start_unicode_value": 0x2F800, "additional_count": 255}]}}, "non_default_uvs": {"obj": null}},
            {"var_selector": 0xE0100, "default_uvs": {"obj": null}, "non_default_uvs": {"obj": {"num_uvs_mappings": 2, "uvs_mapping": [{"unicode_value": 0x4E08, "glyph_id": 25}, {"unicode_value": 0x2F9FF, "glyph_id": 26}]}}}]})),
    ]
}

/// (registered type name, origin, value). All values are meant to be
/// accepted by `validate()` and to be consistent; lib.rs reports the ones
/// that are not as `ctor_seed_not_round_tripped` labels.
pub fn ctor_seeds() -> Vec<(&'static str, String, Value)> {
    let mut v: Vec<(&'static str, String, Value)> = vec![];
    let mut add = |t: &'static str, o: &str, j: Value| v.push((t, format!("ctor:{}", o), j));
    // CPAL: v0; v1 with every subset of the three v1 arrays; palettes != entries both ways
    add("Cpal", "cpal-v0-3pal-2entries", cpal(3, 2, false, false, false));
    add("Cpal", "cpal-v1-2pal-5entries-all", cpal(2, 5, true, true, true));
    add("Cpal", "cpal-v1-4pal-2entries-all", cpal(4, 2, true, true, true));
    add("Cpal", "cpal-v1-3pal-1entry-types", cpal(3, 1, true, false, false));
    add("Cpal", "cpal-v1-2pal-3entries-labels", cpal(2, 3, false, true, false));
    add("Cpal", "cpal-v1-1pal-4entries-entry-labels", cpal(1, 4, false, false, true));
    add("Cpal", "cpal-v1-5pal-3entries-labels+entry-labels", cpal(5, 3, false, true, true));
    // OS/2 v0, v1, v2-4 (written as 4), v5
    for ver in [0u32, 1, 4, 5] {
        add("Os2", &format!("os2-v{}", ver), os2(ver));
    }
    add("Post", "post-1.0", post(0x10000, None));
    add("Post", "post-2.0-6glyphs-2names", post(0x20000, Some((6, 2))));
    add("Post", "post-2.0-3glyphs-5names", post(0x20000, Some((3, 5))));
    add("Post", "post-2.0-4glyphs-0names", post(0x20000, Some((4, 0))));
    add("Post", "post-3.0", post(0x30000, None));
    add("Maxp", "maxp-0.5", maxp(false));
    add("Maxp", "maxp-1.0", maxp(true));
    add("Gasp", "gasp-v0-1range", json!({"version": 0, "num_ranges": 1, "gasp_ranges": [{"range_max_ppem": 65535, "range_gasp_behavior": {"bits": 3}}]}));
    add("Gasp", "gasp-v1-3ranges", json!({"version": 1, "num_ranges": 3, "gasp_ranges": [{"range_max_ppem": 8, "range_gasp_behavior": {"bits": 10}}, {"range_max_ppem": 20, "range_gasp_behavior": {"bits": 5}}, {"range_max_ppem": 65535, "range_gasp_behavior": {"bits": 15}}]}));
    add("Name", "name-v0-3records", json!({"lang_tag_record": null, "name_record": [name_rec(3, 1, 0x409, 1, "Family"), name_rec(3, 1, 0x409, 2, "Regular"), name_rec(3, 1, 0x409, 4, "Family Regular")]}));
    add("Name", "name-v1-4records-2langtags", json!({"lang_tag_record": [{"lang_tag": {"obj": "en"}}, {"lang_tag": {"obj": "zh-Hant"}}],
        "name_record": [name_rec(0, 4, 0x8000, 1, "Family"), name_rec(0, 4, 0x8001, 1, "\u{5bb6}"), name_rec(3, 1, 0x409, 1, "Family"), name_rec(3, 1, 0x409, 2, "Regular")]}));
    add("Name", "name-v1-1record-3langtags", json!({"lang_tag_record": [{"lang_tag": {"obj": "en"}}, {"lang_tag": {"obj": "de"}}, {"lang_tag": {"obj": "sr-Cyrl"}}],
        "name_record": [name_rec(0, 4, 0x8002, 256, "\u{0421}")]}));
    add("Meta", "meta-dlng-slng-other", json!({"data_maps": [{"tag": "dlng", "data": {"obj": {"ScriptLangTags": ["en-Latn", "zh-Hans"]}}}, {"tag": "slng", "data": {"obj": {"ScriptLangTags": ["Latn"]}}}, {"tag": "appl", "data": {"obj": {"Other": [1, 2, 3, 255, 0]}}}]}));
    add("Meta", "meta-dlng-3tags-of-different-lengths", json!({"data_maps": [{"tag": "dlng", "data": {"obj": {"ScriptLangTags": ["en", "zh-Hans", "fr-Latn-x-abc", "de"]}}}, {"tag": "slng", "data": {"obj": {"ScriptLangTags": ["Cyrl", "sr-Cyrl-RS", "Latn"]}}}]}));
    add("Mvar", "mvar-3records-no-store", json!({"version": {"major": 1, "minor": 0}, "value_record_size": 8, "value_record_count": 3, "item_variation_store": {"obj": null},
        "value_records": [{"value_tag": "hasc", "delta_set_outer_index": 0, "delta_set_inner_index": 0}, {"value_tag": "hdsc", "delta_set_outer_index": 0, "delta_set_inner_index": 1}, {"value_tag": "xhgt", "delta_set_outer_index": 1, "delta_set_inner_index": 0}]}));
    add("Mvar", "mvar-2records-store", json!({"version": {"major": 1, "minor": 0}, "value_record_size": 8, "value_record_count": 2, "item_variation_store": {"obj": ivs(2, 3, 2)},
        "value_records": [{"value_tag": "cpht", "delta_set_outer_index": 0, "delta_set_inner_index": 1}, {"value_tag": "xhgt", "delta_set_outer_index": 1, "delta_set_inner_index": 2}]}));
    for (t, j) in cmap_subtables() {
        let tag = format!("Format{}", &t[4..]);
        add(t, &format!("{}-coherent", t.to_lowercase()), j.clone());
        add("CmapSubtable", &format!("{}-coherent", t.to_lowercase()), json!({ tag: j }));
    }
    {
        let recs: Vec<Value> = cmap_subtables()
            .into_iter()
            .enumerate()
            .map(|(i, (t, j))| { let enc = [3u64, 1, 4, 10, 5, 6][i % 6]; let tag = format!("Format{}", &t[4..]); json!({"platform_id": if i % 2 == 0 { "Unicode" } else { "Windows" }, "encoding_id": enc, "subtable": {"obj": {tag: j}}}) })
            .collect();
        add("Cmap", "cmap-every-format", json!({ "encoding_records": recs }));
    }
    add("Fvar", "fvar-2axes-3instances-psname", fvar(2, 3, true));
    add("Fvar", "fvar-3axes-2instances-no-psname", fvar(3, 2, false));
    add("Fvar", "fvar-1axis-0instances", fvar(1, 0, false));
    add("Avar", "avar-v1-maps-3-5-0", json!({"axis_segment_maps": [seg_map(3), seg_map(5), {"axis_value_maps": []}], "axis_index_map": {"obj": null}, "var_store": {"obj": null}}));
    add("Avar", "avar-v2-maps-3-5+indexmap4+store", json!({"axis_segment_maps": [seg_map(3), seg_map(5)], "axis_index_map": {"obj": dsim(0x00, 4)}, "var_store": {"obj": ivs(2, 2, 3)}}));
    add("Avar", "avar-v2-store-only", json!({"axis_segment_maps": [seg_map(4)], "axis_index_map": {"obj": null}, "var_store": {"obj": ivs(1, 1, 2)}}));
    add("Hvar", "hvar-maps-4-6-3", hvar_like(&[("advance_width_mapping", 4), ("lsb_mapping", 6), ("rsb_mapping", 3)]));
    add("Hvar", "hvar-no-maps", hvar_like(&[("advance_width_mapping", 0), ("lsb_mapping", 0), ("rsb_mapping", 0)]));
    add("Hvar", "hvar-rsb-only", hvar_like(&[("advance_width_mapping", 0), ("lsb_mapping", 0), ("rsb_mapping", 7)]));
    add("Vvar", "vvar-maps-3-5-2-4", hvar_like(&[("advance_height_mapping", 3), ("tsb_mapping", 5), ("bsb_mapping", 2), ("v_org_mapping", 4)]));
    add("Vvar", "vvar-vorg-only", hvar_like(&[("advance_height_mapping", 0), ("tsb_mapping", 0), ("bsb_mapping", 0), ("v_org_mapping", 9)]));
    add("Colr", "colr-v1-everything-distinct-lengths", colr_full());
    {
        // v0 only: 2 base glyphs, 4 layers
        let mut c = colr_full();
        let m = c.as_object_mut().unwrap();
        for k in ["base_glyph_list", "layer_list", "clip_list", "var_index_map", "item_variation_store"] {
            m.insert(k.into(), json!({"obj": null}));
        }
        add("Colr", "colr-v0-3base-5layers", c);
    }
    {
        // exactly one version-1 field present, with the smallest content the format allows:
        // the version (and with it every since-version offset) hangs on that one field
        let minimal: [(&str, Value); 5] = [
            ("base_glyph_list", json!({"num_base_glyph_paint_records": 0, "base_glyph_paint_records": []})),
            ("layer_list", json!({"num_layers": 0, "paints": []})),
            ("clip_list", json!({"format": 1, "num_clips": 0, "clips": []})),
            ("var_index_map", dsim(0x00, 1)),
            ("item_variation_store", ivs(1, 1, 1)),
        ];
        for with_v0 in [true, false] {
            for (keep, content) in &minimal {
                let mut c = colr_full();
                let m = c.as_object_mut().unwrap();
                for k in ["base_glyph_list", "layer_list", "clip_list", "var_index_map", "item_variation_store"] {
                    m.insert(k.into(), if k == *keep { json!({"obj": content.clone()}) } else { json!({"obj": null}) });
                }
                if !with_v0 {
                    m.insert("num_base_glyph_records".into(), json!(0));
                    m.insert("base_glyph_records".into(), json!({"obj": null}));
                    m.insert("num_layer_records".into(), json!(0));
                    m.insert("layer_records".into(), json!({"obj": null}));
                }
                add("Colr", &format!("colr-only-{}-minimal{}", keep, if with_v0 { "+v0" } else { "" }), c);
            }
        }
    }
    add("Sbix", "sbix-2strikes-3glyphs", json!({"flags": {"bits": 3}, "strikes": [{"obj": {"ppem": 20, "ppi": 72, "glyph_data_offsets": [20, 20, 20, 20]}}, {"obj": {"ppem": 40, "ppi": 144, "glyph_data_offsets": [20, 20, 20, 20]}}]}));
    add("Strike", "strike-0glyphs", json!({"ppem": 9, "ppi": 72, "glyph_data_offsets": [4]}));
    add("Base", "base-1.1-minmax-all-coord-formats", base_full());
    {
        let mut b10 = base_full();
        if let Some(m) = b10.as_object_mut() {
            m.insert("item_var_store".into(), json!({"obj": null}));
            m.insert("vert_axis".into(), json!({"obj": null}));
        }
        add("Base", "base-1.0-horiz-only-minmax", b10);
    }
    add("DeltaSetIndexMap", "dsim-format0-2byte-entries", dsim(0x11, 5));
    add("DeltaSetIndexMap", "dsim-format1-4byte-entries", dsim(0x3F, 7));
    add("ItemVariationStore", "ivs-3axes-2regions", ivs(3, 2, 2));
    v.extend(ift_with_cff_offsets());
    v.extend(gpos_full_value_records());
    v
}

/// BASE 1.1 with everything the corpus lacks: MinMax (default and per language
/// system, with feature records), the three BaseCoord formats, base tag lists
/// and script lists of different lengths on the two axes, an ItemVariationStore.
fn base_full() -> Value {
    use font_types::Tag;
    use write_fonts::tables::base::*;
    use write_fonts::tables::layout::DeviceOrVariationIndex;
    let mm = |a: i16, feats: usize| {
        MinMax::new(
            Some(BaseCoord::format_1(a)),
            Some(BaseCoord::format_2(a + 900, 7, 2)),
            (0..feats)
                .map(|i| FeatMinMaxRecord::new(Tag::new(&[b'f', b'e', b'a', b'0' + i as u8]), Some(MinMax::new(Some(BaseCoord::format_1(a - 1 - i as i16)), None, vec![])), if i % 2 == 0 { None } else { Some(MinMax::new(None, Some(BaseCoord::format_1(a + 1000)), vec![])) }))
                .collect(),
        )
    };
    let script = |k: i16, n_coords: usize, langs: usize, dflt_mm: bool| {
        BaseScript::new(
            if n_coords == 0 { None } else { Some(BaseValues::new(0, (0..n_coords).map(|i| if i == 1 { BaseCoord::format_3(k + 5, Some(DeviceOrVariationIndex::device(9, 12, &[1, -1, 0, 1]))) } else { BaseCoord::format_1(k * 10 + i as i16) }).collect())) },
            if dflt_mm { Some(mm(-200 - k, 2)) } else { None },
            (0..langs).map(|l| BaseLangSysRecord::new(Tag::new(&[b'L', b'N', b'G', b'0' + l as u8]), mm(-300 - l as i16 - k, l))).collect(),
        )
    };
    let horiz = Axis::new(
        Some(BaseTagList::new(vec![Tag::new(b"hang"), Tag::new(b"ideo"), Tag::new(b"romn")])),
        BaseScriptList::new(vec![BaseScriptRecord::new(Tag::new(b"DFLT"), script(1, 3, 0, true)), BaseScriptRecord::new(Tag::new(b"cyrl"), script(2, 3, 2, false)), BaseScriptRecord::new(Tag::new(b"latn"), script(3, 3, 3, true))]),
    );
    let vert = Axis::new(None, BaseScriptList::new(vec![BaseScriptRecord::new(Tag::new(b"kana"), script(4, 0, 1, true))]));
    let base = Base::new(Some(horiz), Some(vert));
    let mut j = serde_json::to_value(&base).unwrap_or(Value::Null);
    if let Some(m) = j.as_object_mut() {
        m.insert("item_var_store".into(), json!({"obj": ivs(2, 2, 2)}));
    }
    j
}

/// GPOS subtables whose value records carry EVERY field (four values, four
/// device / variation-index offsets), which no corpus font does.
fn gpos_full_value_records() -> Vec<(&'static str, String, Value)> {
    use font_types::GlyphId16;
    use write_fonts::tables::gpos::*;
    use write_fonts::tables::layout::{ClassDef, CoverageTable, DeviceOrVariationIndex};
    let dev = |k: i8| DeviceOrVariationIndex::device(10, 13, &[k, -k, 0, 1]);
    let full = |k: i16| {
        ValueRecord::new()
            .with_x_placement(k)
            .with_y_placement(-k)
            .with_x_advance(k * 3)
            .with_y_advance(k + 7)
            .with_x_placement_device(dev(1))
            .with_y_placement_device(dev(2))
            .with_x_advance_device(dev(3))
            .with_y_advance_device(dev((k % 5) as i8))
    };
    let g = |i: u16| GlyphId16::new(i);
    let cov = |n: u16| -> CoverageTable { (1..=n).map(g).collect() };
    let mut v: Vec<(&'static str, String, Value)> = vec![];
    let mut add = |t: &'static str, o: &str, j: Result<Value, serde_json::Error>| {
        if let Ok(j) = j {
            v.push((t, format!("ctor:{}", o), j));
        }
    };
    add("SinglePosFormat1", "singlepos1-all-value-fields", serde_json::to_value(SinglePosFormat1::new(cov(3), full(5))));
    add("SinglePosFormat2", "singlepos2-all-value-fields", serde_json::to_value(SinglePosFormat2::new(cov(3), vec![full(1), full(2), full(3)])));
    let sets = (0..2i16).map(|i| PairSet::new((0..3u16).map(|j| PairValueRecord::new(g(20 + j), full(i * 10 + j as i16), full(-(j as i16)))).collect())).collect();
    add("PairPosFormat1", "pairpos1-all-value-fields-both-records", serde_json::to_value(PairPosFormat1::new(cov(2), sets)));
    let cd1: ClassDef = [(g(1), 1u16), (g(2), 2)].into_iter().collect();
    let cd2: ClassDef = [(g(30), 1u16), (g(31), 1), (g(32), 2), (g(33), 3)].into_iter().collect();
    // 3 class-1 classes x 4 class-2 classes: the two record arrays have different lengths
    let c1 = (0..3i16).map(|i| Class1Record::new((0..4i16).map(|j| Class2Record::new(full(i * 4 + j), full(100 + i + j))).collect())).collect();
    add("PairPosFormat2", "pairpos2-3x4-classes-all-value-fields-both-records", serde_json::to_value(PairPosFormat2::new(cov(2), cd1, cd2, c1)));
    v
}

fn ift_with_cff_offsets() -> Vec<(&'static str, String, Value)> {
    let f1 = |flags: u64, cff: Value, cff2: Value| json!({"applied_entries_bitmap": [2], "cff2_charstrings_offset": cff2, "cff_charstrings_offset": cff, "compatibility_id": [0, 0, 0, 1, 0, 0, 0, 2, 0, 0, 0, 3, 0, 0, 0, 4],
        "feature_map": {"obj": null}, "field_flags": {"bits": flags}, "glyph_count": 7, "glyph_map": {"obj": {"first_mapped_glyph": 1}}, "max_entry_index": 2, "max_glyph_map_entry_index": 2, "patch_format": 3,
        "uri_template": [65, 66, 67, 68, 69, 70, 201, 164], "uri_template_length": 8});
    let f2 = |flags: u64, cff: Value, cff2: Value, ids: bool| json!({"cff2_charstrings_offset": cff2, "cff_charstrings_offset": cff, "compatibility_id": [0, 0, 0, 1, 0, 0, 0, 2, 0, 0, 0, 3, 0, 0, 0, 4], "default_patch_format": 3,
        "entries": {"obj": {"entry_data": [0, 4, 0, 3, 4, 0, 4, 0, 4, 0, 3, 4, 0, 0, 97, 98, 99, 100, 101, 102, 103, 104, 105, 106]}}, "entry_count": 6,
        "entry_id_string_data": if ids { json!({"obj": {"id_data": [97, 98, 99, 100, 101, 102, 103, 104, 105, 106]}}) } else { json!({"obj": null}) },
        "field_flags": {"bits": flags}, "uri_template": [65, 66, 67, 68, 69, 70, 201, 164], "uri_template_length": 8});
    let mut v = vec![];
    for (flags, cff, cff2, what) in [(1u64, json!(0x1234), Value::Null, "cff"), (2, Value::Null, json!(0x0BCDEF01u32), "cff2"), (3, json!(7), json!(0xFFFFFFFFu32), "cff+cff2")] {
        v.push(("PatchMapFormat1", format!("ctor:ift-format1-{}-offset", what), f1(flags, cff.clone(), cff2.clone())));
        v.push(("PatchMapFormat2", format!("ctor:ift-format2-{}-offset", what), f2(flags, cff.clone(), cff2.clone(), flags == 2)));
        v.push(("Ift", format!("ctor:ift-format1-{}-offset", what), json!({"Format1": f1(flags, cff.clone(), cff2.clone())})));
        v.push(("Ift", format!("ctor:ift-format2-{}-offset", what), json!({"Format2": f2(flags, cff, cff2, flags != 2)})));
    }
    v
}

// ---------------------------------------------------------------- lift

/// Explicit version values worth trying, by (type, key of the version field).
fn version_candidates(type_name: &str) -> &'static [i64] {
    match type_name {
        "Post" => &[0x10000, 0x20000, 0x25000, 0x30000],
        "Gasp" => &[0, 1],
        _ => &[],
    }
}

/// A non-null donor for optional field `key`.
fn donor_for(pools: &Pools, key: &str, nth: usize) -> Option<Value> {
    let ds: Vec<&Value> = pools.donors(key).iter().filter(|d| is_on(d)).collect();
    if ds.is_empty() {
        return None;
    }
    Some(ds[nth % ds.len()].clone())
}

const LENGTHS: &[usize] = &[2, 5, 3, 7, 4, 6, 1, 8];

/// Give the (small, non-empty) arrays of the struct different lengths.
fn diversify(m: &mut Map<String, Value>, salt: usize) -> bool {
    let mut i = salt;
    let mut any = false;
    for (_, v) in m.iter_mut() {
        if let Some(a) = array_of_mut(v) {
            if a.is_empty() || a.len() > 64 || node_count(&a[0]) > 200 {
                continue;
            }
            let n = LENGTHS[i % LENGTHS.len()];
            i += 1;
            if n != a.len() {
                rules::resize_cycling(a, n, &Value::Null);
                any = true;
            }
        }
    }
    any
}

/// Coherent variants of `seed` (a value of registered struct type
/// `type_name` whose default value is `default`): (value, description).
pub fn lift(type_name: &str, default: &Value, seed: &Value, pools: &Pools, salt: usize) -> Vec<(Value, String)> {
    let mut out: Vec<(Value, String)> = vec![];
    let Value::Object(sm) = seed else { return out };
    // enum-typed roots are lifted through their struct types
    if sm.len() == 1 && sm.keys().next().map(|k| k.chars().next().map(|c| c.is_ascii_uppercase()).unwrap_or(false)).unwrap_or(false) {
        return out;
    }
    let mut opt: Vec<String> = optional_fields_of_default(default);
    for (k, v) in sm {
        if (v.is_null() || is_null_marker(v)) && !opt.contains(k) {
            opt.push(k.clone());
        }
    }
    let set = |m: &mut Map<String, Value>, k: &str, on: bool, nth: usize| -> bool {
        let Some(cur) = m.get(k) else { return false };
        let marker = is_marker(cur) || default.get(k).map(is_marker).unwrap_or(false);
        if on {
            if is_on(cur) {
                return true;
            }
            match donor_for(pools, k, nth) {
                Some(d) => {
                    // donors of marker fields are stored with their marker
                    let d = if marker && !is_marker(&d) { json!({ "obj": d }) } else { d };
                    m.insert(k.to_string(), d);
                    true
                }
                None => false,
            }
        } else {
            m.insert(k.to_string(), if marker { json!({"obj": null}) } else { Value::Null });
            true
        }
    };
    let versions: Vec<Option<i64>> = if sm.contains_key("version") && !version_candidates(type_name).is_empty() {
        version_candidates(type_name).iter().map(|v| Some(*v)).collect()
    } else {
        vec![None]
    };
    for ver in versions {
        let vtag = ver.map(|v| format!("version={:#x} ", v)).unwrap_or_default();
        let base = {
            let mut m = sm.clone();
            if let Some(v) = ver {
                m.insert("version".into(), json!(v));
            }
            m
        };
        let mut push = |mut m: Map<String, Value>, what: String, out: &mut Vec<(Value, String)>| {
            for div in [false, true] {
                let mut mm = m.clone();
                if div && !diversify(&mut mm, salt) {
                    continue;
                }
                let mut j = Value::Object(mm);
                let fixes = rules::repair(&mut j);
                out.push((j, format!("lift {}{}{}{}", vtag, what, if div { " distinct-lengths" } else { "" }, if fixes > 0 { " +repair" } else { "" })));
            }
            let _ = &mut m;
        };
        if ver.is_some() || opt.is_empty() {
            push(base.clone(), "as-is".into(), &mut out);
        }
        if opt.is_empty() {
            continue;
        }
        // all on
        let mut m = base.clone();
        let mut n_on = 0;
        for (i, k) in opt.iter().enumerate() {
            if set(&mut m, k, true, salt + i) {
                n_on += 1;
            }
        }
        push(m, format!("all-optional-on({}/{})", n_on, opt.len()), &mut out);
        // all off
        let mut m = base.clone();
        for k in &opt {
            set(&mut m, k, false, 0);
        }
        push(m, "all-optional-off".into(), &mut out);
        // exactly one on / exactly one off (relative to all-on)
        if opt.len() > 1 && opt.len() <= 16 {
            for (i, k) in opt.iter().enumerate() {
                let mut m = base.clone();
                for k2 in &opt {
                    set(&mut m, k2, false, 0);
                }
                if set(&mut m, k, true, salt + i) {
                    push(m, format!("only:{}", k), &mut out);
                }
                let mut m = base.clone();
                for (i2, k2) in opt.iter().enumerate() {
                    set(&mut m, k2, true, salt + i2);
                }
                set(&mut m, k, false, 0);
                push(m, format!("all-but:{}", k), &mut out);
            }
        }
    }
    out
}
