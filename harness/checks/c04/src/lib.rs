//! C04 — a compiled table reads back as the table that was written.
//!
//! Workload: every registered owned write-fonts type (top-level tables and
//! shared subtables) × seed values harvested from the corpus fonts × generic
//! serde-level mutation (systematic boundary sweeps on small values + random
//! structural mutation). Oracle: for every value that validates,
//! `to_owned(read(dump(v))) == v` (modulo an allow-list of *explained*
//! normalisations) and `dump(to_owned(read(dump(v)))) == dump(v)`.

pub mod coherent;
pub mod mutate;
pub mod oracle;
pub mod packed;
pub mod registry;
pub mod rules;
pub mod special;

use mutate::{digest_value, node_count, shape_digest, transparent_key, Mutator, Pools, Site, SiteKind, Step};
use oracle::{Diff, DiffKind, Outcome};
use read_fonts::{FileRef, FontRef};
use registry::Entry;
use serde_json::{json, Value};
use std::collections::{BTreeMap, HashMap, HashSet};
use vf_core::{fnv64, Args, Ctx, Digest, PanicPolicy, Rng};

pub const REPLAY: Option<fn(&mut Ctx, &Args, &Value, Option<&[u8]>)> = Some(replay);

// ---------------------------------------------------------------- panics

/// Report a library panic (policy: any panic while validating, compiling or
/// reading back a value violates C04). The signature is keyed on file, stage,
/// class and message rather than on the line number, so that unrelated edits
/// to the (largely generated) source files do not rename known findings.
pub fn report_panic(ctx: &mut Ctx, p: &vf_core::PanicInfo, stage: &str, what: &str, detail: Value, bytes: Option<&[u8]>) {
    if !p.in_repo() {
        ctx.inconclusive(format!("harness panic {}:{} {}", p.file, p.line, p.msg));
        return;
    }
    ctx.count(&format!("panic_class:{}", p.class.as_str()), 1);
    let stage = match stage {
        "dump" | "redump" => "write",
        other => other,
    };
    let mut key = String::new();
    for c in p.msg.chars() {
        if c.is_ascii_alphanumeric() {
            key.push(c);
        } else if !key.ends_with('-') {
            key.push('-');
        }
        if key.len() >= 56 {
            break;
        }
    }
    let key = key.trim_matches('-');
    let sig = format!("panic:{}:{}:{}:{}", p.file, stage, p.class.as_str(), key);
    let d = json!({"what": what, "panic": {"file": p.file, "line": p.line, "msg": p.msg, "class": p.class.as_str()}, "case": detail});
    ctx.violation(&sig, d, bytes);
}

// ---------------------------------------------------------------- seeds

pub struct Seed {
    pub json: Value,
    pub nodes: usize,
    pub origin: String,
    pub typed: bool,
}

#[derive(Default)]
struct TypeSeeds {
    seen: HashSet<u64>,
    shapes: HashSet<u64>,
    /// seeds that introduced a new shape
    primary: Vec<Seed>,
    /// further distinct values of already seen shapes
    secondary: Vec<Seed>,
}

const SECONDARY_CAP: usize = 400;
const PRIMARY_CAP: usize = 400;

impl TypeSeeds {
    fn full(&self) -> bool {
        self.primary.len() >= PRIMARY_CAP && self.secondary.len() >= SECONDARY_CAP
    }
    fn add(&mut self, json: &Value, nodes: usize, origin: &str, typed: bool) {
        let d = digest_value(json);
        if !self.seen.insert(d) {
            return;
        }
        let s = shape_digest(json);
        let seed = || Seed { json: json.clone(), nodes, origin: origin.to_string(), typed };
        if typed || (self.shapes.insert(s) && self.primary.len() < PRIMARY_CAP) {
            self.shapes.insert(s);
            self.primary.push(seed());
        } else if self.secondary.len() < SECONDARY_CAP {
            self.secondary.push(seed());
        }
    }
}

#[derive(Default)]
struct KeysetCache {
    tries: u32,
    hits: Vec<usize>,
}

struct Harvest<'a> {
    entries: &'a [Entry],
    seeds: Vec<TypeSeeds>,
    pools: Pools,
    cache: HashMap<String, KeysetCache>,
    nodes_walked: u64,
}

const HARVEST_ARRAY_CAP: usize = 48;
const HARVEST_MAX_NODES: usize = 60_000;

impl Harvest<'_> {
    fn keysig(m: &serde_json::Map<String, Value>) -> String {
        let mut s = String::new();
        for (k, v) in m {
            s.push_str(k);
            s.push(',');
            // enum variant: include the payload's key set
            if m.len() == 1 && transparent_key(k) {
                if let Value::Object(inner) = v {
                    s.push('{');
                    for k2 in inner.keys() {
                        s.push_str(k2);
                        s.push(',');
                    }
                }
            }
        }
        s
    }

    /// returns the node count of `v`
    fn walk(&mut self, v: &Value, key: &str, origin: &str, is_root: bool) -> usize {
        self.nodes_walked += 1;
        match v {
            Value::Array(a) => {
                let ck = format!("{}[]", key);
                let mut n = 1;
                let len = a.len();
                for (i, x) in a.iter().enumerate() {
                    if i < HARVEST_ARRAY_CAP || i + 1 == len {
                        n += self.walk(x, &ck, origin, false);
                    } else {
                        n += node_count(x);
                    }
                }
                if !is_root {
                    self.pools.offer(key, v, n);
                }
                n
            }
            Value::Object(m) => {
                let mut n = 1;
                for (k, x) in m {
                    let ck: String = if transparent_key(k) { key.to_string() } else { k.clone() };
                    n += self.walk(x, &ck, origin, false);
                }
                if !is_root {
                    self.pools.offer(key, v, n);
                    let single_transparent = m.len() == 1 && m.keys().next().map(|k| k == "obj").unwrap_or(false);
                    if !single_transparent && !m.is_empty() && n <= HARVEST_MAX_NODES {
                        self.try_match(v, m, n, origin);
                    }
                }
                n
            }
            Value::Null => 1,
            _ => {
                self.pools.offer(key, v, 1);
                1
            }
        }
    }

    fn try_match(&mut self, v: &Value, m: &serde_json::Map<String, Value>, nodes: usize, origin: &str) {
        let sig = Self::keysig(m);
        let c = self.cache.entry(sig.clone()).or_default();
        let cand: Vec<usize> = if c.tries < 6 { (0..self.entries.len()).collect() } else { c.hits.clone() };
        c.tries += 1;
        let mut newhits = vec![];
        for i in cand {
            if self.seeds[i].full() {
                continue;
            }
            if (self.entries[i].matches)(v) {
                self.seeds[i].add(v, nodes, origin, false);
                newhits.push(i);
            }
        }
        let c = self.cache.get_mut(&sig).unwrap();
        for i in newhits {
            if !c.hits.contains(&i) {
                c.hits.push(i);
            }
        }
    }
}

fn fonts_of<'a>(data: &'a [u8]) -> Vec<FontRef<'a>> {
    match FileRef::new(data) {
        Ok(FileRef::Font(f)) => vec![f],
        Ok(FileRef::Collection(c)) => c.iter().flatten().collect(),
        Err(_) => vec![],
    }
}

// ---------------------------------------------------------------- per-type statistics

#[derive(Default, Clone)]
struct Stat {
    seeds: u64,
    variants: u64,
    deser_rej: u64,
    validate_rej: u64,
    packing_failed: u64,
    not_applicable: u64,
    ok_equal: u64,
    ok_normalised: u64,
    bytes_total: u64,
}

struct Run<'a> {
    entries: &'a [Entry],
    stats: Vec<Stat>,
    opt: coherent::OptTrack,
}

// ---------------------------------------------------------------- explained normalisations

/// End-of-data arrays (`#[count(..)]` in the schema) that can be followed by
/// other data when their table is embedded in a parent.
const END_OF_DATA_ARRAYS: &[&str] = &["glyph_id_array", "string_data", "data", "entry_map_data", "entry_data", "codepoint_data", "id_data", "brotli_stream"];

/// Returns the explanation if this difference between the written and the
/// re-read value is a legitimate normalisation (established by reading the
/// writer / reader code), None if it is unexplained.
pub fn explain(type_name: &str, d: &Diff, done: &oracle::Done) -> Option<&'static str> {
    // A conditional (version- or flag-gated) Option field that the value
    // carries but whose condition does not hold is not written
    // (`version.compatible(..).then(|| ..)` in every generated writer), so it
    // reads back as None. Accepted only with the proof computed by the oracle:
    // the same value without these fields validates and compiles to identical
    // bytes. NullableOffsetMarker (`.obj`) is not a conditional field: a
    // written Some must stay Some.
    if d.kind == DiffKind::SomeToNull && !d.path.ends_with(".obj") && done.gated_fields_proven_unneeded == Some(true) {
        return Some("conditional-field-not-required-is-not-written");
    }
    // Property text: "arrays whose length is implied by the end of the data
    // are compared on the written prefix". Applies when such a table is
    // embedded in a parent (other subtables follow it in the data), never to
    // the stand-alone table.
    if d.kind == DiffKind::ArrayLonger {
        let last = d.path.rsplit('.').next().unwrap_or("");
        // the array's table must sit below the root: count the field names on
        // the path, ignoring enum variant names and offset-marker `obj`
        let embedded = d.path.split('.').filter(|c| !c.is_empty() && !transparent_key(c.trim_end_matches("[]"))).count() > 1;
        let below = format!("{}[]", d.path);
        let prefix_equal = !done.diffs.iter().any(|x| x.path.starts_with(&below));
        if embedded && prefix_equal && END_OF_DATA_ARRAYS.contains(&last) && (last != "glyph_id_array" || d.path.contains(".Format4.") || d.path.contains(".Format10.")) {
            return Some("end-of-data-array-compared-on-written-prefix");
        }
    }
    special::explain(type_name, d, done)
}

/// Generic variant tag of a value: enum variant names, version field.
pub fn variant_tag(e: &Entry, j: &Value) -> String {
    if let Some(f) = e.variant {
        return f(j);
    }
    let mut tag = String::new();
    let mut cur = j;
    // nested enum variants
    for _ in 0..3 {
        match cur {
            Value::Object(m) if m.len() == 1 => {
                let (k, v) = m.iter().next().unwrap();
                if k.chars().next().map(|c| c.is_ascii_uppercase()).unwrap_or(false) {
                    if !tag.is_empty() {
                        tag.push('/');
                    }
                    tag.push_str(k);
                    cur = v;
                    continue;
                }
                break;
            }
            _ => break,
        }
    }
    if let Value::Object(m) = cur {
        if let Some(v) = m.get("version") {
            if !tag.is_empty() {
                tag.push('/');
            }
            match v {
                Value::Object(mm) => tag.push_str(&format!("v{}.{}", mm.get("major").unwrap_or(&Value::Null), mm.get("minor").unwrap_or(&Value::Null))),
                other => tag.push_str(&format!("v{}", other)),
            }
        }
    }
    if tag.is_empty() {
        tag.push('-');
    }
    tag
}

fn trunc_json(v: &Value, max: usize) -> Value {
    let s = v.to_string();
    if s.len() <= max {
        v.clone()
    } else {
        let mut e = max;
        while !s.is_char_boundary(e) {
            e -= 1;
        }
        Value::String(format!("{}… ({} bytes of JSON)", &s[..e], s.len()))
    }
}

impl Run<'_> {
    /// Execute one case and judge it.
    fn case(&mut self, ctx: &mut Ctx, ti: usize, j: &Value, origin: &str, mutation: &str) {
        let e = &self.entries[ti];
        ctx.eval();
        self.stats[ti].variants += 1;
        let label = || format!("{} {} {}", e.name, origin, mutation);
        // the cpu-time bound of the progress monitor scales with the input
        // size; the input here is the value (≈ 16 bytes of JSON per node)
        static ZEROS: [u8; 1 << 23] = [0u8; 1 << 23];
        let size = (node_count(j) * 16).min(ZEROS.len());
        // Trace mode (driver re-run after a lost shard) records a file per
        // run_case call; with millions of tiny cases that is prohibitive, so in
        // trace mode the work item is the recorded unit (see `run`) and the
        // case runs under the panic guard only.
        let r = if ctx.trace { vf_core::guard(|| (e.check)(j)) } else { ctx.run_case(&label, Some(&ZEROS[..size]), &|| (e.check)(j)) };
        let out = match r {
            Ok(o) => o,
            Err(p) => {
                // a panic that escaped the per-stage guards is harness code or
                // serde; never blamed on the library
                ctx.inconclusive(format!("unguarded panic in case {}: {}:{} {}", label(), p.file, p.line, p.msg));
                return;
            }
        };
        let detail = |extra: Value| {
            json!({"type": e.name, "module": e.module, "origin": origin, "mutation": mutation, "value": trunc_json(j, 6000), "more": extra})
        };
        // a hand-written constructor seed must reach the oracle: anything else
        // is a slip in the constructor (or a finding reported below)
        if origin.starts_with("ctor:") && mutation.starts_with("seed(") {
            let st = match &out {
                Outcome::Done(_) => None,
                Outcome::DeserRejected => Some("deser-rejected".to_string()),
                Outcome::ValidateRejected(w) => Some(format!("validate-rejected {}", w)),
                Outcome::PackingFailed => Some("packing-failed".into()),
                Outcome::NotApplicable => Some("not-applicable".into()),
                Outcome::Panic { stage, .. } => Some(format!("panic in {}", stage)),
                Outcome::ReadError { err, .. } => Some(format!("read error {}", err)),
            };
            match st {
                None => ctx.count("ctor_seeds_round_tripped", 1),
                Some(w) => {
                    ctx.count("ctor_seeds_not_round_tripped", 1);
                    ctx.label("ctor_seeds_not_round_tripped", &format!("{} {}: {}", e.name, origin, w));
                }
            }
        }
        match out {
            Outcome::DeserRejected => self.stats[ti].deser_rej += 1,
            Outcome::ValidateRejected(why) => {
                self.stats[ti].validate_rej += 1;
                ctx.sample_by_kind("validate-rejected", json!({"type": e.name, "mutation": mutation, "report": why}));
            }
            Outcome::PackingFailed => {
                self.stats[ti].packing_failed += 1;
                ctx.count("packing_failed", 1);
            }
            Outcome::NotApplicable => self.stats[ti].not_applicable += 1,
            Outcome::Panic { stage, info, bytes } => {
                ctx.count(&format!("panic_stage:{}", stage), 1);
                let mut d = detail(json!({"stage": stage}));
                d["replay_json"] = j.clone();
                report_panic(ctx, &info, stage, &format!("{} of a validated {}", stage, e.name), d, bytes.as_deref());
            }
            Outcome::ReadError { bytes, err, written } => {
                let tag = variant_tag(e, &written);
                ctx.count("reread_errors", 1);
                let mut d = detail(json!({"read_error": err, "bytes_len": bytes.len()}));
                d["replay_json"] = j.clone();
                let mut inc = vec![];
                // the canonical value (what the type really holds), not the raw
                // JSON: serde ignores keys the type does not have
                rules::inconsistencies(&written, &mut inc);
                if inc.is_empty() {
                    ctx.violation(&format!("reread-error:{}:{}:{}", e.name, tag, err), d, Some(&bytes));
                } else {
                    self.gap(ctx, &inc, d, &bytes);
                }
            }
            Outcome::Done(done) => {
                let tag = variant_tag(e, &done.written);
                ctx.label("variants_seen", &format!("{}:{}", e.name, tag));
                ctx.label("types_round_tripped", e.name);
                self.stats[ti].bytes_total += done.bytes.len() as u64;
                if !done.bytes.is_empty() {
                    let mut dg = Digest::new();
                    dg.str(e.name);
                    dg.bytes(&done.bytes);
                    ctx.nontrivial(dg.finish());
                } else {
                    ctx.count("compiled_to_zero_bytes", 1);
                }
                if let Some(f) = e.spec_len {
                    if let Some(n) = f(&done.bytes) {
                        ctx.count("spec_len_checked", 1);
                        if n != done.bytes.len() {
                            let mut d = detail(json!({"expected_len": n, "len": done.bytes.len()}));
                            d["replay_json"] = j.clone();
                            ctx.violation(&format!("spec-len:{}:{}", e.name, tag), d, Some(&done.bytes));
                        }
                    }
                }
                let mut unexplained: Option<&Diff> = None;
                let mut carve_out = false;
                if done.equal {
                    self.stats[ti].ok_equal += 1;
                } else {
                    self.stats[ti].ok_normalised += 1;
                    for d in &done.diffs {
                        match explain(e.name, d, &done) {
                            Some(why) => {
                                if why.starts_with("end-of-data") {
                                    carve_out = true;
                                }
                                if let Ok(pat) = std::env::var("VF_C04_TRACE_NORMALISED") {
                                    let l = format!("{}:{}:{}", e.name, d.path, why);
                                    if l.contains(&pat) {
                                        eprintln!("TRACE {} origin={} mutation={} written={} read={} value={}", l, origin, mutation, d.written, d.read, trunc_json(j, 3000));
                                    }
                                }
                                ctx.count(&format!("normalised:{}", why), 1);
                                ctx.label("normalisations", &format!("{}:{}:{}:{}", e.name, d.path, d.kind.as_str(), why));
                            }
                            None => {
                                if unexplained.is_none() {
                                    unexplained = Some(d);
                                }
                            }
                        }
                    }
                }
                let diffs_json: Vec<Value> = done
                    .diffs
                    .iter()
                    .map(|d| json!({"path": d.path, "kind": d.kind.as_str(), "written": d.written, "read": d.read}))
                    .collect();
                // what failed, if anything
                let mut failure: Option<String> = None;
                if let Some(d) = unexplained {
                    let (owner, otag, rel) = self.owner_of(ti, &done.written, d);
                    let refine = special::refine_signature(&owner, &rel, &done.written, d);
                    failure = Some(format!("roundtrip-mismatch:{}:{}:{}{}", owner, otag, rel.trim_start_matches('.'), refine));
                } else if carve_out {
                    // the re-read value legitimately carries trailing data of
                    // its siblings: byte idempotence is not defined for it
                    ctx.count("redump_skipped_end_of_data_array", 1);
                } else {
                    match &done.redump {
                        Ok(true) => ctx.count("redump_identical", 1),
                        Ok(false) => {
                            let p = done.diffs.first().map(|d| d.path.trim_start_matches('.').to_string()).unwrap_or_else(|| "-".into());
                            failure = Some(format!("redump-mismatch:{}:{}:{}", e.name, tag, p));
                        }
                        Err(_) => failure = Some(format!("redump-error:{}:{}", e.name, tag)),
                    }
                    if failure.is_none() && done.second_gen_unstable {
                        failure = Some(format!("second-generation-unstable:{}:{}", e.name, tag));
                    }
                }
                if let Some(sig) = failure {
                    let mut det = detail(json!({"diffs": diffs_json, "redump_same_bytes": format!("{:?}", done.redump), "reread_invalid": done.reread_invalid, "gated_fields_proven_unneeded": done.gated_fields_proven_unneeded}));
                    det["replay_json"] = j.clone();
                    let mut inc = vec![];
                    rules::inconsistencies(&done.written, &mut inc);
                    if inc.is_empty() {
                        ctx.violation(&sig, det, Some(&done.bytes));
                    } else {
                        det["strict_signature"] = json!(sig);
                        self.gap(ctx, &inc, det, &done.bytes);
                    }
                    return;
                }
                // which optional / version-gated fields did this consistent,
                // strictly round-tripped value carry?
                // (large values: one in eight, the walk costs as much as the case)
                if node_count(&done.written) <= 4000 || self.stats[ti].variants % 8 == 0 || mutation.starts_with("lift") || mutation.starts_with("seed(") {
                    let mut inc = vec![];
                    rules::inconsistencies(&done.written, &mut inc);
                    if inc.is_empty() {
                        self.opt.observe(e.name, &done.written);
                        if mutation.starts_with("lift") {
                            ctx.count("lift_values_consistent_and_round_tripped", 1);
                        }
                    }
                }
                if self.stats[ti].ok_equal + self.stats[ti].ok_normalised == 1 {
                    ctx.sample_by_kind(
                        &format!("roundtrip:{}", e.module),
                        json!({"type": e.name, "origin": origin, "mutation": mutation, "bytes": done.bytes.len(), "equal": done.equal}),
                    );
                }
            }
        }
    }

    /// The innermost registered type that contains the differing location:
    /// makes signatures independent of the root type the value was embedded
    /// in. Returns (type name, variant tag, path relative to that node).
    fn owner_of(&self, root_ti: usize, written: &Value, d: &Diff) -> (String, String, String) {
        let root = &self.entries[root_ti];
        let mut best = (root.name.to_string(), variant_tag(root, written), d.path.clone());
        let mut cur = written;
        let mut erased = String::new();
        // never consider the differing node itself
        let upto = d.cpath.len().saturating_sub(1);
        for (i, st) in d.cpath.iter().enumerate() {
            let next = match st {
                Step::Key(k) => {
                    erased.push('.');
                    erased.push_str(k);
                    cur.get(k.as_str())
                }
                Step::Idx(ix) => {
                    erased.push_str("[]");
                    cur.get(*ix)
                }
            };
            let Some(n) = next else { break };
            cur = n;
            if i >= upto {
                break;
            }
            if let Value::Object(m) = cur {
                let only_obj = m.len() == 1 && m.contains_key("obj");
                if !only_obj && !m.is_empty() && node_count(cur) <= 60_000 {
                    if let Some(e) = self.entries.iter().find(|e| (e.matches)(cur)) {
                        let rel = d.path.strip_prefix(erased.as_str()).unwrap_or(&d.path).to_string();
                        best = (e.name.to_string(), variant_tag(e, cur), rel);
                    }
                }
            }
        }
        best
    }

    /// A value that violates a declared count/selector precondition passed
    /// validate() and then failed to round-trip: a validation gap.
    fn gap(&mut self, ctx: &mut Ctx, rules_violated: &[&'static str], mut detail: Value, bytes: &[u8]) {
        detail["rules_violated"] = json!(rules_violated);
        for r in rules_violated {
            ctx.count(&format!("validation_gap:{}", r), 1);
        }
        // attribute to the first violated rule (deterministic order of RULES)
        ctx.violation(&format!("validation-gap:{}", rules_violated[0]), detail, Some(bytes));
    }

    /// Systematic sweeps over a small seed.
    fn sweep(&mut self, ctx: &mut Ctx, ti: usize, seed: &Seed, pools: &Pools, site_cap: usize) {
        let name = self.entries[ti].name;
        let m = Mutator { pools, root_type: name, max_nodes: 70_000 };
        let mut ss: Vec<Site> = vec![];
        mutate::sites(&seed.json, 3, &mut ss);
        let mut budget = site_cap;
        for s in &ss {
            if budget == 0 {
                break;
            }
            budget -= 1;
            let ps = mutate::path_string(&s.path);
            let put = |this: &mut Self, ctx: &mut Ctx, nv: Value, what: &str| {
                let mut j = seed.json.clone();
                if s.path.is_empty() {
                    j = nv;
                } else if let Some(slot) = mutate::get_mut(&mut j, &s.path) {
                    *slot = nv;
                } else {
                    return;
                }
                this.case(ctx, ti, &j, &seed.origin, &format!("sweep {}:{}", ps, what));
            };
            match s.kind {
                SiteKind::Number => {
                    for b in mutate::BOUNDARIES {
                        let n = m.clamp_number(*b, &s.key);
                        put(self, ctx, json!(n), &format!("={}", n));
                    }
                    put(self, ctx, Value::Null, "=null");
                }
                SiteKind::Null => {
                    for d in pools.donors(&s.key).iter().take(4) {
                        put(self, ctx, d.clone(), "null=donor");
                    }
                    for n in [0i64, 1, 0xFFFF] {
                        put(self, ctx, json!(n), "null=number");
                    }
                }
                SiteKind::Object => {
                    put(self, ctx, Value::Null, "=null");
                    for d in pools.donors(&s.key).iter().take(4) {
                        put(self, ctx, d.clone(), "=donor");
                    }
                }
                SiteKind::Bits => {
                    let cur = {
                        let mut j = seed.json.clone();
                        mutate::get_mut(&mut j, &s.path).and_then(|x| x["bits"].as_u64()).unwrap_or(0)
                    };
                    let mask = mutate::flag_mask(&s.key, name).unwrap_or(cur);
                    put(self, ctx, json!({"bits": 0}), "bits=0");
                    put(self, ctx, json!({"bits": mask}), "bits=all");
                    for b in 0..32 {
                        if mask & (1 << b) != 0 {
                            put(self, ctx, json!({"bits": cur ^ (1u64 << b)}), "bits^bit");
                        }
                    }
                }
                SiteKind::Array => {
                    let arr: Vec<Value> = {
                        let mut j = seed.json.clone();
                        match mutate::get_mut(&mut j, &s.path) {
                            Some(Value::Array(a)) => a.clone(),
                            _ => continue,
                        }
                    };
                    put(self, ctx, json!([]), "len=0");
                    put(self, ctx, Value::Null, "=null");
                    if !arr.is_empty() {
                        put(self, ctx, Value::Array(arr[..1].to_vec()), "len=1");
                        put(self, ctx, Value::Array(arr[..arr.len() - 1].to_vec()), "len-1");
                        let mut x = arr.clone();
                        x.push(arr[arr.len() - 1].clone());
                        put(self, ctx, Value::Array(x), "len+1");
                        let mut x = arr.clone();
                        x.reverse();
                        put(self, ctx, Value::Array(x), "reversed");
                        let per = node_count(&arr[0]).max(1);
                        for l in [255usize, 256, 257, 65535, 65536] {
                            if l > arr.len() && l * per <= 140_000 {
                                let x: Vec<Value> = (0..l).map(|i| arr[i % arr.len()].clone()).collect();
                                put(self, ctx, Value::Array(x), &format!("len={}", l));
                            }
                        }
                    } else {
                        for d in pools.donors(&format!("{}[]", s.key)).iter().take(3) {
                            put(self, ctx, json!([d.clone()]), "len=1 donor");
                            put(self, ctx, json!([d.clone(), d.clone()]), "len=2 donor");
                        }
                    }
                }
            }
        }
    }
}

// ---------------------------------------------------------------- run

/// Types checked on seeds only. The IFT patch-map containers are experimental
/// (cargo feature `ift`), their owned forms are incomplete (GlyphMap carries no
/// entries, EntryMapRecord is empty) and nearly every field is a
/// hand-maintained count; mutating them only rediscovers that.
const NO_MUTATION: &[&str] = &["Ift", "PatchMapFormat1", "PatchMapFormat2"];

fn harvest<'a>(ctx: &mut Ctx, entries: &'a [Entry]) -> Harvest<'a> {
    let mut h = Harvest {
        entries,
        seeds: entries.iter().map(|_| TypeSeeds::default()).collect(),
        pools: Pools::default(),
        cache: HashMap::new(),
        nodes_walked: 0,
    };
    // hand-written coherent values of versions / formats the corpus lacks come
    // first: they are always chosen as seeds and their parts fill the donor
    // pools before the (capped) pools are full
    for (name, origin, j) in coherent::ctor_seeds() {
        let Some(ti) = entries.iter().position(|e| e.name == name) else {
            ctx.label("ctor_seeds_not_round_tripped", &format!("{} {}: unknown type", name, origin));
            continue;
        };
        // every shard harvests the same seeds: count them once
        if ctx.shard.0 == 0 {
            ctx.count("ctor_seeds", 1);
        }
        let n = node_count(&j);
        h.seeds[ti].add(&j, n, &origin, true);
        h.walk(&j, "", &origin, true);
    }
    let mut fonts = vf_core::corpus_fonts();
    fonts.extend(vf_core::klippa_fonts());
    let mut n_fonts = 0u64;
    for cf in &fonts {
        for (fi, font) in fonts_of(&cf.data).iter().enumerate() {
            n_fonts += 1;
            let origin = if fi == 0 { cf.name.clone() } else { format!("{}#{}", cf.name, fi) };
            special::direct_read_checks(ctx, font, &origin);
            for (ti, e) in entries.iter().enumerate() {
                let Some(f) = e.from_font else { continue };
                for r in f(font) {
                    match r {
                        Ok(j) => {
                            ctx.count("seed_tables_converted", 1);
                            let n = node_count(&j);
                            h.seeds[ti].add(&j, n, &origin, true);
                            h.walk(&j, "", &origin, true);
                        }
                        Err(why) => {
                            ctx.count("seed_tables_unreadable", 1);
                            ctx.label("seed_tables_unreadable", &format!("{}:{}:{}", origin, e.name, why));
                        }
                    }
                }
            }
        }
    }
    ctx.count("corpus_fonts", n_fonts);
    // stand-alone subtables from font-test-data
    for (name, bytes, origin) in special::extra_byte_seeds() {
        let Some(ti) = entries.iter().position(|e| e.name == name) else { continue };
        let Some(f) = entries[ti].from_bytes else { continue };
        match f(&bytes) {
            Some(j) => {
                ctx.count("seed_test_data_tables", 1);
                let n = node_count(&j);
                h.seeds[ti].add(&j, n, origin, true);
                h.walk(&j, "", origin, true);
            }
            None => ctx.label("seed_tables_unreadable", &format!("{}:{}", origin, name)),
        }
    }
    // Default::default() of every type, as a last-resort seed
    for (ti, e) in entries.iter().enumerate() {
        if let Some(f) = e.default_json {
            let j = f();
            let n = node_count(&j);
            h.seeds[ti].add(&j, n, "Default::default()", true);
        }
    }
    h
}

pub fn run(ctx: &mut Ctx, args: &Args) {
    // debugging aids: run only one half of the workload
    let only_special = args.extra.iter().any(|a| a == "--only-special");
    let only_main = args.extra.iter().any(|a| a == "--only-main");
    ctx.policy = PanicPolicy::Any;
    ctx.rule = "a value that passes validate() and whose compiled bytes are non-empty; digest = fnv(type name ++ compiled bytes)".into();
    ctx.assumptions = vec![
        "values are built by deserialising mutated JSON of corpus-derived owned values; states no public constructor can build (unknown flag bits, Uint24 > 0xFFFFFF) are not generated".into(),
        "tables whose reader needs external arguments (hmtx/vmtx/sbix) are read back with arguments derived from the written value; values for which no consistent arguments exist are skipped (counted as not_applicable)".into(),
        "a difference between written and re-read value counts as a legitimate normalisation only if listed in explain() with a reason established from the writer/reader code; everything else is a violation".into(),
    ];
    let entries = registry::registry();
    if only_special {
        special::run_special(ctx);
        packed::run_packed(ctx);
        return;
    }
    let t0 = ctx.elapsed_s();
    let mut h = harvest(ctx, &entries);
    // debugging aid: print the default value of every type and the donor pool keys
    if args.extra.iter().any(|a| a == "--dump-defaults") {
        for e in entries.iter() {
            if let Some(f) = e.default_json {
                println!("DEFAULT {} {}", e.name, f());
            }
        }
        let mut keys: Vec<String> = h.pools.key_names();
        keys.sort();
        println!("POOLKEYS {}", keys.join(" "));
        for (ti, e) in entries.iter().enumerate() {
            for sd in h.seeds[ti].primary.iter().filter(|s| s.nodes < 400).take(2) {
                println!("SEEDJSON {} {} {}", e.name, sd.origin, sd.json);
            }
            println!("SEEDS {} typed={} primary={} secondary={}", e.name, h.seeds[ti].primary.iter().filter(|s| s.typed).count(), h.seeds[ti].primary.len(), h.seeds[ti].secondary.len());
        }
        return;
    }
    ctx.extra.insert("harvest_s".into(), json!(ctx.elapsed_s() - t0));
    ctx.extra.insert("registered_types".into(), json!(entries.len()));
    ctx.extra.insert("donor_pool_keys".into(), json!(h.pools.keys()));

    let seed_cap = ctx.tier.pick(48usize, 150);
    let budget_nodes = ctx.tier.pick(1_000_000usize, 12_000_000);
    let max_random = ctx.tier.pick(700usize, 7000);
    let min_random = ctx.tier.pick(4usize, 16);
    let sweep_seeds = ctx.tier.pick(3usize, 10);
    let sweep_sites = ctx.tier.pick(100usize, 300);
    let lift_seeds = ctx.tier.pick(6usize, 24);

    let pools = std::mem::take(&mut h.pools);
    let mut run = Run { entries: &entries, stats: vec![Stat::default(); entries.len()], opt: coherent::OptTrack::default() };
    let defaults: Vec<Option<Value>> = entries.iter().map(|e| e.default_json.map(|f| f())).collect();
    for (ti, e) in entries.iter().enumerate() {
        if let Some(d) = &defaults[ti] {
            run.opt.declare(e.name, d);
        }
    }

    // work items: (type, seed), numbered deterministically
    let mut item = 0usize;
    let mut type_time: Vec<(f64, &str)> = vec![];
    for (ti, e) in entries.iter().enumerate() {
        let t_type = ctx.elapsed_s();
        if ti > 0 {
            if let Some(l) = type_time.last_mut() {
                l.0 = t_type - l.0;
            }
        }
        type_time.push((t_type, e.name));
        let ts = &h.seeds[ti];
        let mut chosen: Vec<&Seed> = vec![];
        // typed seeds first (they are in primary), then shape-distinct, then the rest
        for s in ts.primary.iter().filter(|s| s.typed) {
            chosen.push(s);
        }
        for s in ts.primary.iter().filter(|s| !s.typed) {
            chosen.push(s);
        }
        for s in ts.secondary.iter() {
            chosen.push(s);
        }
        // keep all typed seeds below a generous cap; cap the rest
        let typed_n = chosen.iter().filter(|s| s.typed).count();
        chosen.truncate(seed_cap.max(typed_n.min(seed_cap * 3)));
        if chosen.is_empty() {
            ctx.label("types_without_seed", e.name);
        }
        let mut small_seen = 0usize;
        for (si, seed) in chosen.iter().enumerate() {
            let is_small = seed.nodes <= 400;
            let is_ctor = seed.origin.starts_with("ctor:");
            // constructor seeds are always swept, on top of the first corpus seeds
            let sweep_this = is_small && (is_ctor || small_seen < sweep_seeds);
            if is_small && !is_ctor {
                small_seen += 1;
            }
            let mine = ctx.mine(item);
            item += 1;
            if !mine {
                continue;
            }
            run.stats[ti].seeds += 1;
            if ctx.trace {
                // record the work item as the unit a hang / abort is attributed to
                let _ = ctx.run_case(&|| format!("work item {} type {} seed {} ({})", item - 1, e.name, si, seed.origin), None, &|| ());
            }
            // (a) the seed itself
            run.case(ctx, ti, &seed.json, &seed.origin, if seed.typed { "seed(typed)" } else { "seed(structural)" });
            if NO_MUTATION.contains(&e.name) {
                continue;
            }
            // (a2) coherent lifts: optional fields on / off, arrays of different
            // lengths, counts re-derived
            if (si < lift_seeds || is_ctor) && seed.nodes <= 20_000 {
                let dflt = defaults[ti].clone().unwrap_or(Value::Null);
                for (j, what) in coherent::lift(e.name, &dflt, &seed.json, &pools, si) {
                    ctx.count("lift_cases", 1);
                    run.case(ctx, ti, &j, &seed.origin, &what);
                }
            }
            // (b) systematic sweeps
            if sweep_this {
                run.sweep(ctx, ti, seed, &pools, sweep_sites);
            }
            // (c) random structural mutation
            let n = (budget_nodes / seed.nodes.max(1)).clamp(min_random, max_random);
            let mut rng = Rng::derive(ctx.seed, e.name, si as u64 ^ (digest_value(&seed.json) << 8));
            let m = Mutator { pools: &pools, root_type: e.name, max_nodes: 70_000 };
            for _ in 0..n {
                let mut j = seed.json.clone();
                let mut desc = m.mutate(&mut j, &mut rng);
                // three times out of four the declared counts / selectors are
                // re-derived, so that the mutant is consistent and is judged by
                // the strict oracle; the rest keeps the validation-gap classes observed
                if rng.chance(3, 4) && rules::repair(&mut j) > 0 {
                    desc.push_str(" +repair");
                    ctx.count("mutants_repaired", 1);
                }
                run.case(ctx, ti, &j, &seed.origin, &desc);
            }
        }
    }
    ctx.extra.insert("work_items".into(), json!(item));
    if let Some(l) = type_time.last_mut() {
        l.0 = ctx.elapsed_s() - l.0;
    }
    type_time.sort_by(|a, b| b.0.partial_cmp(&a.0).unwrap_or(std::cmp::Ordering::Equal));
    ctx.extra.insert("slowest_types_s".into(), json!(type_time.iter().take(12).map(|(t, n)| json!([n, (t * 10.0).round() / 10.0])).collect::<Vec<_>>()));

    if !only_main {
        special::run_special(ctx);
        packed::run_packed(ctx);
    }

    // optional / version-gated fields: declared vs carried by a consistent,
    // strictly round-tripped value (a field with only a "declared" line is a gap)
    for (k, v) in run.opt.labels() {
        ctx.label(&k, &v);
    }
    ctx.count("optional_field_observations", run.opt.values_walked);
    if args.extra.iter().any(|a| a == "--print-gaps") {
        for g in run.opt.never_exercised() {
            println!("GAP {}", g);
        }
    }
    // per-type evidence
    let mut per_type: BTreeMap<String, Value> = BTreeMap::new();
    for (ti, e) in entries.iter().enumerate() {
        let s = &run.stats[ti];
        if s.variants == 0 {
            continue;
        }
        let k = |m: &str| format!("type:{}:{}", e.name, m);
        ctx.count(&k("seeds"), s.seeds);
        ctx.count(&k("variants"), s.variants);
        ctx.count(&k("deser_rejected"), s.deser_rej);
        ctx.count(&k("validate_rejected"), s.validate_rej);
        ctx.count(&k("roundtrip_equal"), s.ok_equal);
        ctx.count(&k("roundtrip_normalised"), s.ok_normalised);
        if s.packing_failed > 0 {
            ctx.count(&k("packing_failed"), s.packing_failed);
        }
        if s.not_applicable > 0 {
            ctx.count(&k("not_applicable"), s.not_applicable);
        }
        ctx.count("total:variants", s.variants);
        ctx.count("total:deser_rejected", s.deser_rej);
        ctx.count("total:validate_rejected", s.validate_rej);
        ctx.count("total:roundtrip_equal", s.ok_equal);
        ctx.count("total:roundtrip_normalised", s.ok_normalised);
        ctx.count("total:compiled_bytes", s.bytes_total);
        per_type.insert(e.name.to_string(), json!(s.seeds));
    }
    let _ = per_type;
    let _ = fnv64;
}

fn replay(ctx: &mut Ctx, _args: &Args, rec: &Value, _bytes: Option<&[u8]>) {
    ctx.policy = PanicPolicy::Any;
    ctx.rule = "replay of one recorded case".into();
    let entries = registry::registry();
    let d = &rec["detail"];
    // panics are wrapped by judge_panic: the case is under "case"
    let c = if d["case"].is_object() { &d["case"] } else { d };
    let name = c["type"].as_str().unwrap_or("");
    if special::replay(ctx, rec) {
        return;
    }
    if packed::replay(ctx, c) {
        ctx.nontrivial(1);
        ctx.nontrivial(2);
        return;
    }
    let Some(ti) = entries.iter().position(|e| e.name == name) else {
        ctx.inconclusive(format!("replay: unknown type {:?}", name));
        return;
    };
    let j = c["replay_json"].clone();
    let mut run = Run { entries: &entries, stats: vec![Stat::default(); entries.len()], opt: coherent::OptTrack::default() };
    run.case(ctx, ti, &j, c["origin"].as_str().unwrap_or("replay"), c["mutation"].as_str().unwrap_or("replay"));
    // count as non-trivial twice so that a silent replay is reported as held
    ctx.nontrivial(1);
    ctx.nontrivial(2);
}

#[allow(dead_code)]
fn _unused(_: Step) {}
