//! Generators: base fonts per offset flavour, IFT mapping tables, glyph-keyed
//! and table-keyed patches, and a "stored" brotli encoder so the real C brotli
//! decoder can be driven without an encoder dependency.

use font_test_data::ift::{CFF2_FONT, CFF2_FONT_CHARSTRINGS_OFFSET, CFF_FONT, CFF_FONT_CHARSTRINGS_OFFSET};
use read_fonts::FontRef;
use write_fonts::FontBuilder;

pub type Tag4 = [u8; 4];

pub const GLYF: Tag4 = *b"glyf";
pub const LOCA: Tag4 = *b"loca";
pub const GVAR: Tag4 = *b"gvar";
pub const CFF: Tag4 = *b"CFF ";
pub const CFF2: Tag4 = *b"CFF2";
pub const IFT: Tag4 = *b"IFT ";
pub const IFTX: Tag4 = *b"IFTX";
pub const HEAD: Tag4 = *b"head";

pub fn tag_str(t: &Tag4) -> String {
    t.iter().map(|b| if b.is_ascii_graphic() { *b as char } else { '_' }).collect()
}

#[derive(Default, Clone)]
pub struct W(pub Vec<u8>);

impl W {
    pub fn u8(&mut self, v: u8) -> &mut Self {
        self.0.push(v);
        self
    }
    pub fn u16(&mut self, v: u16) -> &mut Self {
        self.0.extend_from_slice(&v.to_be_bytes());
        self
    }
    pub fn u24(&mut self, v: u32) -> &mut Self {
        self.0.extend_from_slice(&v.to_be_bytes()[1..]);
        self
    }
    pub fn u32(&mut self, v: u32) -> &mut Self {
        self.0.extend_from_slice(&v.to_be_bytes());
        self
    }
    pub fn bytes(&mut self, v: &[u8]) -> &mut Self {
        self.0.extend_from_slice(v);
        self
    }
    pub fn len(&self) -> usize {
        self.0.len()
    }
    pub fn put32(&mut self, at: usize, v: u32) {
        self.0[at..at + 4].copy_from_slice(&v.to_be_bytes());
    }
}

// ---------------------------------------------------------------- mapping tables

#[derive(Clone, Copy, Debug, PartialEq, Eq, Hash)]
pub enum Kind {
    TkFull,
    TkPartial,
    Gk,
}

impl Kind {
    pub fn number(self) -> u8 {
        match self {
            Kind::TkFull => 1,
            Kind::TkPartial => 2,
            Kind::Gk => 3,
        }
    }
    pub fn is_tk(self) -> bool {
        self != Kind::Gk
    }
}

#[derive(Clone, Debug)]
pub struct EntrySpec {
    pub kind: Kind,
    pub id: u32,
    pub pre_applied: bool,
}

#[derive(Clone, Debug)]
pub struct MapSpec {
    pub format: u8,
    pub compat: [u8; 16],
    pub template: String,
    pub entries: Vec<EntrySpec>,
    pub cff_off: Option<u32>,
    pub cff2_off: Option<u32>,
}

#[derive(Clone, Debug)]
pub struct EntryInfo {
    pub kind: Kind,
    pub id: u32,
    pub uri: String,
    /// bit index (byte*8 + bit) inside the mapping table's bytes
    pub bit_index: usize,
    pub pre_applied: bool,
    pub in_iftx: bool,
}

/// base32hex without padding of the big-endian id without leading zero bytes
pub fn id_string(id: u32) -> String {
    let be = id.to_be_bytes();
    let lead = be.iter().take_while(|b| **b == 0).count().min(3);
    let bytes = &be[lead..];
    const SYM: &[u8; 32] = b"0123456789ABCDEFGHIJKLMNOPQRSTUV";
    let mut out = String::new();
    let mut acc: u32 = 0;
    let mut bits = 0;
    for b in bytes {
        acc = (acc << 8) | *b as u32;
        bits += 8;
        while bits >= 5 {
            out.push(SYM[((acc >> (bits - 5)) & 31) as usize] as char);
            bits -= 5;
        }
    }
    if bits > 0 {
        out.push(SYM[((acc << (5 - bits)) & 31) as usize] as char);
    }
    out
}

/// `template` must end in "{id}".
pub fn expand(template: &str, id: u32) -> String {
    template.replace("{id}", &id_string(id))
}

/// Build a mapping table. Format 1 needs `num_glyphs > entries.len()` and
/// entry ids 1..=E in order with one common kind (caller guarantees).
pub fn build_map(spec: &MapSpec, num_glyphs: usize, in_iftx: bool) -> (Vec<u8>, Vec<EntryInfo>) {
    let mut w = W::default();
    let mut flags = 0u8;
    if spec.cff_off.is_some() {
        flags |= 1;
    }
    if spec.cff2_off.is_some() {
        flags |= 2;
    }
    let mut infos = vec![];
    if spec.format == 1 {
        let e = spec.entries.len();
        w.u8(1).u8(0).u8(0).u8(0).u8(flags).bytes(&spec.compat);
        w.u16(e as u16); // max entry index
        w.u16(e as u16); // max glyph map entry index
        w.u24(num_glyphs as u32);
        let glyph_map_off_pos = w.len();
        w.u32(0);
        w.u32(0); // feature map offset
        let bitmap_start = w.len();
        let bitmap_len = (e + 1).div_ceil(8);
        let mut bitmap = vec![0u8; bitmap_len];
        for (i, en) in spec.entries.iter().enumerate() {
            let idx = i + 1;
            if en.pre_applied {
                bitmap[idx / 8] |= 1 << (idx % 8);
            }
            infos.push(EntryInfo {
                kind: en.kind,
                id: idx as u32,
                uri: expand(&spec.template, idx as u32),
                bit_index: bitmap_start * 8 + idx,
                pre_applied: en.pre_applied,
                in_iftx,
            });
        }
        w.bytes(&bitmap);
        w.u16(spec.template.len() as u16).bytes(spec.template.as_bytes());
        w.u8(spec.entries.first().map(|e| e.kind.number()).unwrap_or(3));
        if let Some(o) = spec.cff_off {
            w.u32(o);
        }
        if let Some(o) = spec.cff2_off {
            w.u32(o);
        }
        let gm = w.len() as u32;
        w.put32(glyph_map_off_pos, gm);
        w.u16(0); // first mapped glyph
        for g in 0..num_glyphs {
            // every entry 1..=e is hit because num_glyphs > e
            let idx = g % (e + 1);
            if e < 256 {
                w.u8(idx as u8);
            } else {
                w.u16(idx as u16);
            }
        }
    } else {
        // default format = the kind of the first entry
        let default_kind = spec.entries.first().map(|e| e.kind).unwrap_or(Kind::Gk);
        w.u8(2).u8(0).u8(0).u8(0).u8(flags).bytes(&spec.compat);
        w.u8(default_kind.number());
        w.u24(spec.entries.len() as u32);
        let entries_off_pos = w.len();
        w.u32(0);
        w.u32(0); // id string data offset
        w.u16(spec.template.len() as u16).bytes(spec.template.as_bytes());
        if let Some(o) = spec.cff_off {
            w.u32(o);
        }
        if let Some(o) = spec.cff2_off {
            w.u32(o);
        }
        let eo = w.len() as u32;
        w.put32(entries_off_pos, eo);
        let mut last_id: i64 = 0;
        for en in &spec.entries {
            let start = w.len();
            let delta = en.id as i64 - last_id - 1;
            let mut fmt = 0u8;
            if delta != 0 {
                fmt |= 0x04;
            }
            if en.kind != default_kind {
                fmt |= 0x08;
            }
            if en.pre_applied {
                fmt |= 0x40;
            }
            w.u8(fmt);
            if delta != 0 {
                w.u24((delta as i32 as u32) & 0x00ff_ffff);
            }
            if en.kind != default_kind {
                w.u8(en.kind.number());
            }
            last_id = en.id as i64;
            infos.push(EntryInfo {
                kind: en.kind,
                id: en.id,
                uri: expand(&spec.template, en.id),
                bit_index: start * 8 + 6,
                pre_applied: en.pre_applied,
                in_iftx,
            });
        }
    }
    (w.0, infos)
}

// ---------------------------------------------------------------- base fonts

#[derive(Clone, Debug)]
pub struct GvarSpec {
    pub short: bool,
    pub axis_count: u16,
    pub shared_tuple_count: u16,
    /// tuples after the glyph data (non-canonical layout)
    pub out_of_order: bool,
    pub data: Vec<Vec<u8>>,
}

#[derive(Clone, Debug, Default)]
pub struct FontSpec {
    pub n: usize,
    /// (short loca, per-glyph data)
    pub glyf: Option<(bool, Vec<Vec<u8>>)>,
    pub gvar: Option<GvarSpec>,
    /// (offSize, per-glyph data)
    pub cff: Option<(u8, Vec<Vec<u8>>)>,
    pub cff2: Option<(u8, Vec<Vec<u8>>)>,
    pub extra: Vec<(Tag4, Vec<u8>)>,
    pub with_cmap: bool,
}

pub fn build_glyf_loca(short: bool, data: &[Vec<u8>]) -> (Vec<u8>, Vec<u8>) {
    let mut glyf = vec![];
    let mut loca = W::default();
    for d in data {
        if short {
            loca.u16((glyf.len() / 2) as u16);
        } else {
            loca.u32(glyf.len() as u32);
        }
        glyf.extend_from_slice(d);
    }
    if short {
        loca.u16((glyf.len() / 2) as u16);
    } else {
        loca.u32(glyf.len() as u32);
    }
    (glyf, loca.0)
}

pub fn build_gvar(spec: &GvarSpec) -> Vec<u8> {
    let n = spec.data.len();
    let mut w = W::default();
    w.u16(1).u16(0).u16(spec.axis_count).u16(spec.shared_tuple_count);
    let st_pos = w.len();
    w.u32(0);
    w.u16(n as u16).u16(if spec.short { 0 } else { 1 });
    let gd_pos = w.len();
    w.u32(0);
    let mut off = 0usize;
    for d in &spec.data {
        if spec.short {
            w.u16((off / 2) as u16);
        } else {
            w.u32(off as u32);
        }
        off += d.len();
    }
    if spec.short {
        w.u16((off / 2) as u16);
    } else {
        w.u32(off as u32);
    }
    let tuples: Vec<u8> = (0..spec.shared_tuple_count as usize * spec.axis_count as usize * 2)
        .map(|i| (i as u8).wrapping_mul(37).wrapping_add(11))
        .collect();
    let write_tuples = |w: &mut W| {
        let p = w.len() as u32;
        w.put32(st_pos, p);
        w.bytes(&tuples);
    };
    let write_data = |w: &mut W| {
        let p = w.len() as u32;
        w.put32(gd_pos, p);
        for d in &spec.data {
            w.bytes(d);
        }
    };
    if spec.out_of_order {
        write_data(&mut w);
        write_tuples(&mut w);
    } else {
        write_tuples(&mut w);
        write_data(&mut w);
    }
    w.0
}

fn cff_table(font: &[u8], tag: &[u8; 4]) -> Vec<u8> {
    let f = FontRef::new(font).expect("test font parses");
    f.table_data(font_types::Tag::new(tag)).expect("table present").as_bytes().to_vec()
}

fn build_index(w: &mut W, count_width: usize, off_size: u8, data: &[Vec<u8>]) {
    if count_width == 2 {
        w.u16(data.len() as u16);
    } else {
        w.u32(data.len() as u32);
    }
    w.u8(off_size);
    let mut off = 1usize;
    let put = |w: &mut W, v: usize| {
        let be = (v as u32).to_be_bytes();
        w.bytes(&be[4 - off_size as usize..]);
    };
    for d in data {
        put(w, off);
        off += d.len();
    }
    put(w, off);
    for d in data {
        w.bytes(d);
    }
}

pub fn cff_prefix_len() -> usize {
    CFF_FONT_CHARSTRINGS_OFFSET as usize
}
pub fn cff2_prefix_len() -> usize {
    CFF2_FONT_CHARSTRINGS_OFFSET as usize
}

/// CFF table = everything of the test font's CFF before its charstrings +
/// our own charstrings INDEX (the IFT spec requires charstrings last).
pub fn build_cff(off_size: u8, data: &[Vec<u8>]) -> Vec<u8> {
    let base = cff_table(CFF_FONT, b"CFF ");
    let mut w = W(base[..cff_prefix_len()].to_vec());
    build_index(&mut w, 2, off_size, data);
    w.0
}

pub fn build_cff2(off_size: u8, data: &[Vec<u8>]) -> Vec<u8> {
    let base = cff_table(CFF2_FONT, b"CFF2");
    let mut w = W(base[..cff2_prefix_len()].to_vec());
    build_index(&mut w, 4, off_size, data);
    w.0
}

fn head_table(short_loca: bool) -> Vec<u8> {
    let mut w = W::default();
    w.u16(1).u16(0); // version
    w.u32(0x0001_0000); // revision
    w.u32(0); // checksum adjustment
    w.u32(0x5F0F_3CF5); // magic
    w.u16(0).u16(1000); // flags, upem
    w.bytes(&[0; 16]); // created, modified
    w.u16(0).u16(0).u16(100).u16(100); // bbox
    w.u16(0).u16(8).u16(2); // macstyle, lowestRecPPEM, direction hint
    w.u16(if short_loca { 0 } else { 1 });
    w.u16(0);
    w.0
}

fn maxp_table(n: usize, cff: bool) -> Vec<u8> {
    let mut w = W::default();
    if cff {
        w.u32(0x0000_5000).u16(n as u16);
    } else {
        w.u32(0x0001_0000).u16(n as u16);
        w.bytes(&[0; 26]);
    }
    w.0
}

fn cmap_table(n: usize) -> Vec<u8> {
    let mut w = W::default();
    w.u16(0).u16(1).u16(3).u16(10).u32(12);
    w.u16(12).u16(0).u32(16 + 12).u32(0).u32(1);
    w.u32(0x100).u32(0x100 + n as u32 - 1).u32(0);
    w.0
}

pub fn t(tag: &Tag4) -> font_types::Tag {
    font_types::Tag::new(tag)
}

pub fn build_font(spec: &FontSpec, ift: Option<&[u8]>, iftx: Option<&[u8]>) -> Vec<u8> {
    let mut fb = FontBuilder::new();
    let short_loca = spec.glyf.as_ref().map(|g| g.0).unwrap_or(true);
    fb.add_raw(t(&HEAD), head_table(short_loca));
    fb.add_raw(t(b"maxp"), maxp_table(spec.n, spec.glyf.is_none()));
    if spec.with_cmap {
        fb.add_raw(t(b"cmap"), cmap_table(spec.n));
    }
    if let Some((short, data)) = &spec.glyf {
        let (glyf, loca) = build_glyf_loca(*short, data);
        fb.add_raw(t(&GLYF), glyf);
        fb.add_raw(t(&LOCA), loca);
    }
    if let Some(g) = &spec.gvar {
        fb.add_raw(t(&GVAR), build_gvar(g));
    }
    if let Some((os, data)) = &spec.cff {
        fb.add_raw(t(&CFF), build_cff(*os, data));
    }
    if let Some((os, data)) = &spec.cff2 {
        fb.add_raw(t(&CFF2), build_cff2(*os, data));
    }
    for (tag, data) in &spec.extra {
        fb.add_raw(t(tag), data.clone());
    }
    if let Some(d) = ift {
        fb.add_raw(t(&IFT), d.to_vec());
    }
    if let Some(d) = iftx {
        fb.add_raw(t(&IFTX), d.to_vec());
    }
    fb.build()
}

// ---------------------------------------------------------------- patches

/// Abstract glyph-keyed patch payload.
#[derive(Clone, Debug)]
pub struct GkSpec {
    pub wide: bool,
    pub gids: Vec<u32>,
    pub tables: Vec<Tag4>,
    /// data[table][glyph]
    pub data: Vec<Vec<Vec<u8>>>,
}

pub fn gk_payload(p: &GkSpec) -> Vec<u8> {
    let mut w = W::default();
    w.u32(p.gids.len() as u32).u8(p.tables.len() as u8);
    for g in &p.gids {
        if p.wide {
            w.u24(*g);
        } else {
            w.u16(*g as u16);
        }
    }
    for tg in &p.tables {
        w.bytes(tg);
    }
    let n_off = p.gids.len() * p.tables.len() + 1;
    let mut off = w.len() + n_off * 4;
    for tbl in &p.data {
        for d in tbl {
            w.u32(off as u32);
            off += d.len();
        }
    }
    w.u32(off as u32);
    for tbl in &p.data {
        for d in tbl {
            w.bytes(d);
        }
    }
    w.0
}

pub const GK_HEADER_LEN: usize = 4 + 4 + 1 + 16 + 4;

pub fn gk_patch(format: &Tag4, wide: bool, compat: &[u8; 16], max_len: u32, stream: &[u8]) -> Vec<u8> {
    let mut w = W::default();
    w.bytes(format).u32(0).u8(if wide { 1 } else { 0 }).bytes(compat).u32(max_len).bytes(stream);
    w.0
}

#[derive(Clone, Debug)]
pub struct TkEntry {
    pub tag: Tag4,
    /// bit0 replace, bit1 drop
    pub flags: u8,
    pub max_len: u32,
    pub stream: Vec<u8>,
}

pub fn tk_patch(format: &Tag4, compat: &[u8; 16], entries: &[TkEntry]) -> Vec<u8> {
    let mut w = W::default();
    w.bytes(format).u32(0).bytes(compat).u16(entries.len() as u16);
    let mut off = w.len() + (entries.len() + 1) * 4;
    for e in entries {
        w.u32(off as u32);
        off += 9 + e.stream.len();
    }
    w.u32(off as u32);
    for e in entries {
        w.bytes(&e.tag).u8(e.flags).u32(e.max_len).bytes(&e.stream);
    }
    w.0
}

/// Byte position of `patch_offsets[i]` in a table-keyed patch.
pub fn tk_offset_pos(i: usize) -> usize {
    4 + 4 + 16 + 2 + 4 * i
}

// ---------------------------------------------------------------- stored brotli

struct BitW {
    out: Vec<u8>,
    acc: u64,
    n: u32,
}

impl BitW {
    fn bits(&mut self, v: u64, n: u32) {
        self.acc |= v << self.n;
        self.n += n;
        while self.n >= 8 {
            self.out.push(self.acc as u8);
            self.acc >>= 8;
            self.n -= 8;
        }
    }
    fn align(&mut self) {
        if self.n > 0 {
            self.out.push(self.acc as u8);
            self.acc = 0;
            self.n = 0;
        }
    }
}

/// A valid brotli stream consisting of uncompressed meta-blocks (RFC 7932 §9.2).
pub fn brotli_stored(data: &[u8]) -> Vec<u8> {
    let mut w = BitW { out: vec![], acc: 0, n: 0 };
    w.bits(0, 1); // WBITS = 16
    for chunk in data.chunks(1 << 16) {
        w.bits(0, 1); // ISLAST = 0
        w.bits(0, 2); // MNIBBLES = 4
        w.bits((chunk.len() - 1) as u64, 16);
        w.bits(1, 1); // ISUNCOMPRESSED
        w.align();
        w.out.extend_from_slice(chunk);
    }
    w.bits(1, 1); // ISLAST
    w.bits(1, 1); // ISLASTEMPTY
    w.align();
    w.out
}

/// The stream the "real decoder" scenarios carry for `data`: stored meta-blocks
/// in the normal profiles; in the ASan slice (`enc::compress_mode()`) a stream
/// compressed by the C encoder (quality and window chosen from a hash of the
/// data, so generation stays deterministic), optionally against the raw shared
/// dictionary `dict`; every eighth stays stored.
pub fn brotli_stream(data: &[u8], dict: Option<&[u8]>) -> Vec<u8> {
    if crate::enc::compress_mode() {
        let h = vf_core::fnv64(data) ^ dict.map(|d| vf_core::fnv64(d).rotate_left(9)).unwrap_or(0);
        if h % 8 != 7 || dict.is_some() {
            let q = [0u32, 1, 2, 4, 5, 9, 10, 11][(h >> 8) as usize % 8];
            let lgwin = [10u32, 11, 14, 16, 18, 22, 24][(h >> 16) as usize % 7];
            if let Some(v) = crate::enc::brotli_compress(data, dict, q, lgwin) {
                return v;
            }
        }
    }
    brotli_stored(data)
}

/// Known-good shared-dictionary stream from the repo's own tests:
/// dictionary "abcdef\n" -> "hijkabcdeflmnohijkabcdeflmno\n".
pub const DICT_BASE: &[u8] = b"abcdef\n";
pub const DICT_TARGET: &[u8] = b"hijkabcdeflmnohijkabcdeflmno\n";
pub const DICT_STREAM: [u8; 23] = [
    0xa1, 0xe0, 0x00, 0xc0, 0x2f, 0x3a, 0x38, 0xf4, 0x01, 0xd1, 0xaf, 0x54, 0x84, 0x14, 0x71, 0x2a, 0x80, 0x04,
    0xa2, 0x1c, 0xd3, 0xdd, 0x07,
];
