//! C18 — IFT patches change exactly what they say, atomically and
//! order-independently. See /verif/DESIGN.md §3.
//!
//! Oracles (reference patcher in `model`):
//!  * table-keyed: patched table == decoded bytes, dropped tables absent, all
//!    other tables byte-identical;
//!  * glyph-keyed: per-glyph bytes (read back through loca / gvar offsets /
//!    charstrings INDEX by an independent parser) == patch data for listed
//!    glyphs, == base data otherwise; offsets ascending and exact; widening
//!    only when needed; exactly the applied bits set in IFT/IFTX; all other
//!    tables byte-identical;
//!  * compat-id mismatch, malformed patches and every injected decoder failure
//!    give Err with the caller's `HashMap<String, UriStatus>` untouched;
//!  * agreeing glyph-keyed patches give identical tables for every permutation
//!    and every partition into groups.

pub mod build;
pub mod decoder;
pub mod enc;
pub mod model;

use build::*;
use decoder::*;
use model::*;

use incremental_font_transfer::font_patch::{IncrementalFontPatchBase, PatchingError};
use incremental_font_transfer::patch_group::{PatchGroup, PatchInfo, UriStatus};
use incremental_font_transfer::patchmap::{intersecting_patches, SubsetDefinition};
use read_fonts::FontRef;
use serde_json::json;
use std::cell::RefCell;
use std::collections::{BTreeMap, HashMap};
use vf_core::{Args, Ctx, Digest, Rng};

pub const REPLAY: Option<fn(&mut Ctx, &Args, &serde_json::Value, Option<&[u8]>)> = None;

// ---------------------------------------------------------------- scenario model

#[derive(Clone, Debug)]
pub struct MapBuilt {
    pub spec: MapSpec,
    pub bytes: Vec<u8>,
    pub infos: Vec<EntryInfo>,
}

#[derive(Clone, Debug)]
pub enum PatchModel {
    Gk {
        spec: GkSpec,
        bytes: Vec<u8>,
    },
    Tk {
        entries: Vec<TkEntry>,
        /// what each entry's stream decodes to with a fault-free decoder
        plains: Vec<Option<Vec<u8>>>,
        bytes: Vec<u8>,
        new_ift: Option<MapBuilt>,
    },
}

pub struct Scenario {
    pub index: usize,
    pub flavour: String,
    pub fspec: FontSpec,
    pub font: Vec<u8>,
    pub ift: Option<MapBuilt>,
    pub iftx: Option<MapBuilt>,
    pub patches: BTreeMap<String, PatchModel>,
    pub real: bool,
    /// duplicates across glyph-keyed patches carry identical data
    pub agree: bool,
    pub digest: u64,
}

fn clone_map(m: &HashMap<String, UriStatus>) -> HashMap<String, UriStatus> {
    m.iter()
        .map(|(k, v)| {
            (
                k.clone(),
                match v {
                    UriStatus::Applied => UriStatus::Applied,
                    UriStatus::Pending(d) => UriStatus::Pending(d.clone()),
                },
            )
        })
        .collect()
}

fn map_diff(a: &HashMap<String, UriStatus>, b: &HashMap<String, UriStatus>) -> Option<String> {
    if a.len() != b.len() {
        return Some(format!("{} entries -> {} entries", a.len(), b.len()));
    }
    let mut keys: Vec<&String> = a.keys().collect();
    keys.sort();
    for k in keys {
        match (a.get(k), b.get(k)) {
            (Some(x), Some(y)) if x == y => {}
            (Some(x), Some(y)) => {
                let d = |s: &UriStatus| match s {
                    UriStatus::Applied => "Applied".to_string(),
                    UriStatus::Pending(v) => format!("Pending({} bytes)", v.len()),
                };
                return Some(format!("{k}: {} -> {}", d(x), d(y)));
            }
            _ => return Some(format!("{k}: missing")),
        }
    }
    None
}

// ---------------------------------------------------------------- generators

fn rand_compat(rng: &mut Rng) -> [u8; 16] {
    let mut c = [0u8; 16];
    c.copy_from_slice(&rng.bytes(16));
    c
}

fn rand_len(rng: &mut Rng) -> usize {
    match rng.below(10) {
        0 | 1 => 0,
        2 => 1,
        3 => 2,
        4 => 3,
        5 | 6 => 1 + rng.usize(12),
        7 => 13 + rng.usize(50),
        8 => 2 * rng.usize(40) + 1,
        _ => 64 + rng.usize(700),
    }
}

/// ASan slice only: table sizes from empty to several hundred KiB (multi meta-block streams, ring-buffer wraps).
fn asan_len(rng: &mut Rng) -> usize {
    match rng.below(12) {
        0 => 0,
        1 => 1,
        2..=5 => 1 + rng.usize(60),
        6..=8 => 64 + rng.usize(2000),
        9 | 10 => 2000 + rng.usize(30_000),
        _ => 70_000 + rng.usize(400_000),
    }
}

/// ASan slice only: a max_uncompressed_length far above the real length (<= 16 MiB).
fn asan_big_max(rng: &mut Rng, len: usize) -> u32 {
    (*rng.pick(&[len + 1, len + 4096, 1 << 16, 1 << 20, 16 << 20])).max(len).min(16 << 20) as u32
}

/// Opaque payload bytes: random, or compressible in the ASan slice.
fn payload_bytes(rng: &mut Rng, len: usize) -> Vec<u8> {
    if enc::compress_mode() {
        enc::structured_bytes(rng, len, None)
    } else {
        rng.bytes(len)
    }
}

/// Per-glyph data; `even` for divided offsets; if `target` is given glyph
/// `filler` is resized so the total hits it exactly (when possible).
fn gen_glyph_data(rng: &mut Rng, n: usize, even: bool, target: Option<usize>, small: bool) -> Vec<Vec<u8>> {
    let mut v: Vec<Vec<u8>> = (0..n)
        .map(|_| {
            let mut l = rand_len(rng);
            if small {
                l %= 7;
            }
            if even {
                l += l % 2;
            }
            rng.bytes(l)
        })
        .collect();
    if let Some(t) = target {
        let filler = rng.usize(n);
        let others: usize = v.iter().enumerate().filter(|(i, _)| *i != filler).map(|(_, d)| d.len()).sum();
        if others <= t {
            let mut l = t - others;
            if even {
                l -= l % 2;
            }
            let mut d = vec![0u8; l];
            // cheap non-constant fill
            for (i, b) in d.iter_mut().enumerate() {
                *b = (i as u8).wrapping_mul(31) ^ (i >> 8) as u8;
            }
            v[filler] = d;
        }
    }
    v
}

const FLAVOURS: &[&str] = &[
    "glyf-short",
    "glyf-long",
    "glyf-short-threshold",
    "glyf-short+gvar-short",
    "glyf-long+gvar-long",
    "gvar-short-threshold",
    "gvar-short-oddlayout",
    "cff-os1",
    "cff-os1-threshold",
    "cff-os2-threshold",
    "cff-os3",
    "cff-os4",
    "cff2-os1-threshold",
    "cff2-os2-threshold",
    "cff2-os3",
    "cff2-os4",
    "cff-os3-threshold",
    "cff2-os3-threshold",
];

fn gen_font_spec(rng: &mut Rng, flavour: &str) -> FontSpec {
    let n = match rng.below(8) {
        0 => 1,
        1 => 2,
        2 => 3 + rng.usize(5),
        3 => 255 + rng.usize(4),
        4 if rng.chance(1, 4) => 300 + rng.usize(3000),
        _ => 4 + rng.usize(36),
    };
    let mut s = FontSpec { n, ..Default::default() };
    // slack below the widening threshold: 0..=9 bytes
    let slack = rng.usize(10);
    let gv = |rng: &mut Rng, short: bool, target: Option<usize>, odd_layout: bool| GvarSpec {
        short,
        axis_count: 1 + rng.usize(2) as u16,
        shared_tuple_count: if odd_layout && rng.bool() { 0 } else { rng.usize(4) as u16 },
        out_of_order: odd_layout && rng.bool(),
        data: gen_glyph_data(rng, n, short, target, false),
    };
    match flavour {
        "glyf-short" => s.glyf = Some((true, gen_glyph_data(rng, n, true, None, false))),
        "glyf-long" => s.glyf = Some((false, gen_glyph_data(rng, n, false, None, false))),
        "glyf-short-threshold" => {
            s.glyf = Some((true, gen_glyph_data(rng, n, true, Some(131070 - slack), true)));
        }
        "glyf-short+gvar-short" => {
            s.glyf = Some((true, gen_glyph_data(rng, n, true, None, false)));
            s.gvar = Some(gv(rng, true, None, false));
        }
        "glyf-long+gvar-long" => {
            s.glyf = Some((false, gen_glyph_data(rng, n, false, None, false)));
            s.gvar = Some(gv(rng, false, None, false));
        }
        "gvar-short-threshold" => {
            s.glyf = Some((true, gen_glyph_data(rng, n, true, None, true)));
            let odd = rng.bool();
            let mut g = gv(rng, true, None, odd);
            g.data = gen_glyph_data(rng, n, true, Some(131070 - slack), true);
            s.gvar = Some(g);
        }
        "gvar-short-oddlayout" => {
            let (sl, sg) = (rng.bool(), rng.bool());
            s.glyf = Some((sl, gen_glyph_data(rng, n, true, None, true)));
            s.gvar = Some(gv(rng, sg, None, true));
        }
        "cff-os1" => {
            let tt = rng.usize(200);
            s.cff = Some((1, gen_glyph_data(rng, n, false, Some(tt), true)))
        }
        "cff-os1-threshold" => s.cff = Some((1, gen_glyph_data(rng, n, false, Some(254 - slack), true))),
        "cff-os2-threshold" => s.cff = Some((2, gen_glyph_data(rng, n, false, Some(65534 - slack), true))),
        "cff-os3" => s.cff = Some((3, gen_glyph_data(rng, n, false, None, false))),
        "cff-os4" => s.cff = Some((4, gen_glyph_data(rng, n, false, None, false))),
        "cff-os3-threshold" => s.cff = Some((3, gen_glyph_data(rng, n, false, Some(16777214 - slack), true))),
        "cff2-os1-threshold" => s.cff2 = Some((1, gen_glyph_data(rng, n, false, Some(254 - slack), true))),
        "cff2-os2-threshold" => s.cff2 = Some((2, gen_glyph_data(rng, n, false, Some(65534 - slack), true))),
        "cff2-os3" => s.cff2 = Some((3, gen_glyph_data(rng, n, false, None, false))),
        "cff2-os4" => s.cff2 = Some((4, gen_glyph_data(rng, n, false, None, false))),
        "cff2-os3-threshold" => s.cff2 = Some((3, gen_glyph_data(rng, n, false, Some(16777214 - slack), true))),
        _ => s.glyf = Some((true, gen_glyph_data(rng, n, true, None, false))),
    }
    // the base font must itself be representable in its offset width
    fn fit(data: &mut [Vec<u8>], max: usize) {
        let mut total: usize = data.iter().map(|d| d.len()).sum();
        for d in data.iter_mut().rev() {
            if total <= max {
                break;
            }
            total -= d.len();
            d.clear();
        }
    }
    if let Some((true, d)) = &mut s.glyf {
        fit(d, 131070);
    }
    if let Some(g) = &mut s.gvar {
        if g.short {
            fit(&mut g.data, 131070);
        }
    }
    if let Some((os, d)) = &mut s.cff {
        fit(d, max_total(&CFF, *os as usize));
    }
    if let Some((os, d)) = &mut s.cff2 {
        fit(d, max_total(&CFF2, *os as usize));
    }
    // a few opaque tables
    let n_extra = 1 + rng.usize(4);
    for i in 0..n_extra {
        let tag = [b't', b'a', b'b', b'1' + i as u8];
        let l = rng.usize(60);
        s.extra.push((tag, rng.bytes(l)));
    }
    s
}

fn glyph_tables_of(s: &FontSpec) -> Vec<Tag4> {
    let mut v = vec![];
    if s.cff.is_some() {
        v.push(CFF);
    }
    if s.cff2.is_some() {
        v.push(CFF2);
    }
    if s.glyf.is_some() {
        v.push(GLYF);
    }
    if s.gvar.is_some() {
        v.push(GVAR);
    }
    v
}

/// A random well-formed glyph-keyed payload. Glyphs shared with `earlier`
/// patches (same table) copy their data (agree) or differ in content only.
fn gen_gk_spec(rng: &mut Rng, s: &FontSpec, earlier: &[GkSpec], agree: bool, small: bool) -> GkSpec {
    let n = s.n;
    let avail = glyph_tables_of(s);
    let mut tables: Vec<Tag4> = avail.iter().filter(|_| rng.chance(3, 4)).copied().collect();
    if tables.is_empty() {
        tables.push(*rng.pick(&avail));
    }
    if rng.chance(1, 8) {
        tables.push(*b"zzzz"); // unknown tables are ignored by the patcher
    }
    if rng.chance(1, 16) {
        tables.push(*b"DSIG");
    }
    tables.sort();
    tables.dedup();
    let count = match rng.below(8) {
        0 => 0,
        1 => 1,
        2 => n.min(2),
        3 => n, // all glyphs
        _ => 1 + rng.usize(n.min(9)),
    };
    let mut gids: Vec<u32> = vec![];
    // bias: first / last glyph, runs of consecutive ids, ids shared with earlier patches
    let mut pool: Vec<u32> = (0..n as u32).collect();
    rng.shuffle(&mut pool);
    if rng.bool() {
        gids.push(0);
    }
    if rng.bool() {
        gids.push(n as u32 - 1);
    }
    if !earlier.is_empty() && rng.chance(2, 3) {
        let e = rng.pick(earlier);
        if !e.gids.is_empty() {
            gids.push(*rng.pick(&e.gids));
        }
    }
    if rng.bool() && n > 3 {
        let st = rng.usize(n - 2) as u32;
        gids.extend([st, st + 1, st + 2]);
    }
    gids.extend(pool);
    let mut seen = std::collections::BTreeSet::new();
    gids.retain(|g| seen.insert(*g));
    gids.truncate(count);
    gids.sort();
    let mut data = vec![];
    for tag in &tables {
        let mut per = vec![];
        for g in &gids {
            // earlier data for this (table, gid)?
            let prev = earlier.iter().find_map(|e| {
                let ti = e.tables.iter().position(|x| x == tag)?;
                let gi = e.gids.iter().position(|x| x == g)?;
                Some(e.data[ti][gi].clone())
            });
            let d = match prev {
                Some(p) if agree => p,
                Some(p) => {
                    let mut q = rng.bytes(p.len());
                    if q == p && !q.is_empty() {
                        q[0] ^= 1;
                    }
                    q
                }
                None => {
                    let mut l = rand_len(rng);
                    if small {
                        l %= 9;
                    }
                    payload_bytes(rng, l)
                }
            };
            per.push(d);
        }
        data.push(per);
    }
    GkSpec { wide: rng.chance(1, 4), gids, tables, data }
}

fn encode_gk(spec: &GkSpec, compat: &[u8; 16], real: bool, rng: &mut Rng) -> Vec<u8> {
    let payload = gk_payload(spec);
    let mut max_len = payload.len() as u32 + if rng.bool() { 0 } else { rng.below(100) as u32 };
    if enc::compress_mode() && rng.chance(1, 12) {
        max_len = asan_big_max(rng, payload.len());
    }
    if real {
        gk_patch(b"ifgk", spec.wide, compat, max_len, &brotli_stream(&payload, None))
    } else {
        gk_patch(b"ifgk", spec.wide, compat, max_len, &payload)
    }
}

fn gen_map_spec(rng: &mut Rng, kinds: &[Kind], template: &str, n_glyphs: usize, fs: &FontSpec, is_ift: bool) -> MapSpec {
    let uniform = kinds.windows(2).all(|w| w[0] == w[1]);
    let format = if uniform && n_glyphs > kinds.len() && fs.with_cmap && rng.chance(1, 3) { 1 } else { 2 };
    let mut ids: Vec<u32> = if format == 1 {
        (1..=kinds.len() as u32).collect()
    } else {
        // distinct ids in random order: URI order differs from entry order
        let mut set = std::collections::BTreeSet::new();
        while set.len() < kinds.len() {
            set.insert(match rng.below(3) {
                0 => 1 + rng.below(40) as u32,
                1 => 1 + rng.below(70000) as u32,
                _ => 1 + rng.below(300) as u32,
            });
        }
        let mut v: Vec<u32> = set.into_iter().collect();
        if rng.bool() {
            rng.shuffle(&mut v);
        }
        v
    };
    let entries = kinds
        .iter()
        .map(|k| EntrySpec { kind: *k, id: ids.remove(0), pre_applied: false })
        .collect();
    MapSpec {
        format,
        compat: rand_compat(rng),
        template: template.to_string(),
        entries,
        cff_off: if is_ift && fs.cff.is_some() { Some(cff_prefix_len() as u32) } else { None },
        cff2_off: if is_ift && fs.cff2.is_some() { Some(cff2_prefix_len() as u32) } else { None },
    }
}

fn gen_tk(
    rng: &mut Rng,
    fs: &FontSpec,
    compat: &[u8; 16],
    real: bool,
    new_ift: Option<&MapBuilt>,
) -> (Vec<TkEntry>, Vec<Option<Vec<u8>>>, Vec<u8>) {
    let mut entries: Vec<TkEntry> = vec![];
    let mut plains: Vec<Option<Vec<u8>>> = vec![];
    fn push(
        rng: &mut Rng,
        real: bool,
        entries: &mut Vec<TkEntry>,
        plains: &mut Vec<Option<Vec<u8>>>,
        tag: Tag4,
        flags: u8,
        plain: Option<Vec<u8>>,
        stream: Option<Vec<u8>>,
    ) {
        let (stream, max_len) = match &plain {
            None => (vec![], 0u32),
            Some(p) => {
                let st = stream.unwrap_or_else(|| if real { brotli_stream(p, None) } else { p.clone() });
                let mut ml = p.len() as u32 + if rng.bool() { 0 } else { rng.below(50) as u32 };
                if enc::compress_mode() && rng.chance(1, 12) {
                    ml = asan_big_max(rng, p.len());
                }
                (st, ml)
            }
        };
        entries.push(TkEntry { tag, flags, max_len, stream });
        plains.push(plain);
    }
    let mut tags: Vec<Tag4> = fs.extra.iter().map(|e| e.0).collect();
    rng.shuffle(&mut tags);
    for tag in tags {
        match rng.below(5) {
            0 => {}
            1 => push(rng, real, &mut entries, &mut plains, tag, 2, None, None), // drop
            2 if enc::compress_mode() => {
                let l = asan_len(rng);
                let b = payload_bytes(rng, l);
                push(rng, real, &mut entries, &mut plains, tag, 1, Some(b), None) // replace, compressed stream
            }
            2 => {
                let l = rand_len(rng);
                let b = rng.bytes(l);
                push(rng, real, &mut entries, &mut plains, tag, 1, Some(b), None) // replace
            }
            _ if enc::compress_mode() && !(tag == *b"dict" && rng.bool()) => {
                // diff against base: the target shares content with the base table and the stream is
                // compressed against it (raw shared dictionary), so decoding really reads the dictionary
                let base = fs.extra.iter().find(|e| e.0 == tag).map(|e| e.1.clone()).unwrap_or_default();
                let l = asan_len(rng);
                let b = enc::structured_bytes(rng, l, Some(&base));
                let st = brotli_stream(&b, Some(&base));
                push(rng, real, &mut entries, &mut plains, tag, 0, Some(b), Some(st));
            }
            _ => {
                // diff against base
                if real && fs.extra.iter().any(|e| e.0 == tag && e.1 == DICT_BASE) {
                    push(rng, real, &mut entries, &mut plains, tag, 0, Some(DICT_TARGET.to_vec()), Some(DICT_STREAM.to_vec()));
                } else {
                    let l = rand_len(rng);
                    let b = rng.bytes(l);
                    push(rng, real, &mut entries, &mut plains, tag, 0, Some(b), None);
                }
            }
        }
    }
    if rng.chance(1, 3) {
        let l = rand_len(rng);
        let b = rng.bytes(l);
        push(rng, real, &mut entries, &mut plains, *b"newT", 1, Some(b), None); // a brand-new table
    }
    if rng.chance(1, 4) {
        push(rng, real, &mut entries, &mut plains, *b"nope", 2, None, None); // dropping an absent table
    }
    if let Some(m) = new_ift {
        let fl = if rng.bool() { 1 } else { 0 };
        push(rng, real, &mut entries, &mut plains, IFT, fl, Some(m.bytes.clone()), None);
    }
    if entries.is_empty() {
        let b = rng.bytes(5);
        push(rng, real, &mut entries, &mut plains, *b"newU", 1, Some(b), None);
    }
    let bytes = tk_patch(b"iftk", compat, &entries);
    (entries, plains, bytes)
}

fn built(spec: MapSpec, n: usize, iftx: bool) -> MapBuilt {
    let (bytes, infos) = build_map(&spec, n, iftx);
    MapBuilt { spec, bytes, infos }
}

pub fn gen_scenario(seed: u64, index: usize, tier_thorough: bool) -> Scenario {
    let mut rng = Rng::derive(seed, "c18-scenario", index as u64);
    let rng = &mut rng;
    // the 16 MB flavours are expensive: rare
    let nf = FLAVOURS.len();
    let mut fi = (index + index / 16) % (nf - 2);
    let _ = tier_thorough;
    if index % 397 == 5 {
        fi = nf - 2 + (index / 397) % 2;
    }
    let flavour = FLAVOURS[fi];
    let mut fs = gen_font_spec(rng, flavour);
    let real = rng.chance(1, 4);
    // the ASan slice sends every stream through the real C decoder
    let real = real || enc::compress_mode();
    let agree = rng.chance(3, 4);
    fs.with_cmap = rng.bool();
    if enc::compress_mode() {
        // base tables worth using as shared dictionaries
        for e in fs.extra.iter_mut() {
            if rng.chance(2, 3) {
                let l = asan_len(rng);
                e.1 = enc::structured_bytes(rng, l, None);
            }
        }
    }
    if real {
        fs.extra.push((*b"dict", DICT_BASE.to_vec()));
    }
    let big = flavour.ends_with("threshold");

    // which kinds of entries the two mapping tables carry
    let mode = rng.below(6);
    let n_gk_ift = match mode {
        0 => 0,
        _ => 1 + rng.usize(4),
    };
    let n_gk_iftx = if rng.bool() { rng.usize(3) } else { 0 };
    let mut ift_kinds = vec![Kind::Gk; n_gk_ift];
    let mut iftx_kinds = vec![Kind::Gk; n_gk_iftx];
    match mode {
        0 => ift_kinds.push(if rng.bool() { Kind::TkFull } else { Kind::TkPartial }),
        1 => ift_kinds.insert(rng.usize(n_gk_ift + 1), Kind::TkPartial),
        2 => {
            if rng.bool() {
                iftx_kinds.insert(rng.usize(n_gk_iftx + 1), Kind::TkPartial)
            } else {
                iftx_kinds.push(Kind::TkFull)
            }
        }
        _ => {}
    }
    let ift_spec = gen_map_spec(rng, &ift_kinds, "a/{id}", fs.n, &fs, true);
    let mut ift_spec = ift_spec;
    // some already-applied (ignored) entries whose bits must survive
    if ift_spec.entries.len() > 1 && rng.chance(1, 3) {
        let k = rng.usize(ift_spec.entries.len());
        if ift_spec.entries[k].kind == Kind::Gk {
            ift_spec.entries[k].pre_applied = true;
        }
    }
    let ift = built(ift_spec, fs.n, false);
    let iftx = if iftx_kinds.is_empty() {
        None
    } else {
        Some(built(gen_map_spec(rng, &iftx_kinds, "b/{id}", fs.n, &fs, false), fs.n, true))
    };

    // patches
    let mut patches = BTreeMap::new();
    let mut earlier: Vec<GkSpec> = vec![];
    let all_infos: Vec<(EntryInfo, [u8; 16])> = ift
        .infos
        .iter()
        .map(|i| (i.clone(), ift.spec.compat))
        .chain(iftx.iter().flat_map(|m| m.infos.iter().map(|i| (i.clone(), m.spec.compat))))
        .collect();
    for (info, compat) in &all_infos {
        match info.kind {
            Kind::Gk => {
                let spec = gen_gk_spec(rng, &fs, &earlier, agree, big);
                let bytes = encode_gk(&spec, compat, real, rng);
                earlier.push(spec.clone());
                patches.insert(info.uri.clone(), PatchModel::Gk { spec, bytes });
            }
            _ => {
                // optionally replace IFT by a stage-2 mapping with fresh glyph-keyed entries
                let stage2 = if !info.in_iftx && rng.chance(1, 2) {
                    let k2 = vec![Kind::Gk; 1 + rng.usize(2)];
                    let mut sp = gen_map_spec(rng, &k2, "c/{id}", fs.n, &fs, true);
                    sp.format = 2;
                    let sp_ids: Vec<u32> = (0..k2.len() as u32).map(|i| 3 + i * 2).collect();
                    for (e, id) in sp.entries.iter_mut().zip(sp_ids) {
                        e.id = id;
                    }
                    Some(built(sp, fs.n, false))
                } else {
                    None
                };
                let (entries, plains, bytes) = gen_tk(rng, &fs, compat, real, stage2.as_ref());
                if let Some(m) = &stage2 {
                    for i2 in &m.infos {
                        let spec = gen_gk_spec(rng, &fs, &[], true, big);
                        let b2 = encode_gk(&spec, &m.spec.compat, real, rng);
                        patches.insert(i2.uri.clone(), PatchModel::Gk { spec, bytes: b2 });
                    }
                }
                patches.insert(info.uri.clone(), PatchModel::Tk { entries, plains, bytes, new_ift: stage2 });
            }
        }
    }
    let font = build_font(&fs, Some(&ift.bytes), iftx.as_ref().map(|m| m.bytes.as_slice()));
    let mut d = Digest::new();
    d.bytes(&font);
    for (u, p) in &patches {
        d.str(u);
        match p {
            PatchModel::Gk { bytes, .. } | PatchModel::Tk { bytes, .. } => d.bytes(bytes),
        }
    }
    Scenario {
        index,
        flavour: flavour.to_string(),
        fspec: fs,
        font,
        ift: Some(ift),
        iftx,
        patches,
        real,
        agree,
        digest: d.finish(),
    }
}

/// Hand-built scenario: all patches are glyph-keyed entries 1..k of a format-2 IFT table.
fn scenario_from(index: usize, flavour: &str, fs: FontSpec, specs: Vec<GkSpec>) -> Scenario {
    let compat = [7u8; 16];
    let spec = MapSpec {
        format: 2,
        compat,
        template: "d/{id}".into(),
        entries: (0..specs.len()).map(|i| EntrySpec { kind: Kind::Gk, id: i as u32 + 1, pre_applied: false }).collect(),
        cff_off: fs.cff.as_ref().map(|_| cff_prefix_len() as u32),
        cff2_off: fs.cff2.as_ref().map(|_| cff2_prefix_len() as u32),
    };
    let ift = built(spec, fs.n, false);
    let mut patches = BTreeMap::new();
    for (info, s) in ift.infos.iter().zip(specs) {
        let payload = gk_payload(&s);
        let bytes = gk_patch(b"ifgk", s.wide, &compat, payload.len() as u32, &payload);
        patches.insert(info.uri.clone(), PatchModel::Gk { spec: s, bytes });
    }
    let font = build_font(&fs, Some(&ift.bytes), None);
    let mut d = Digest::new();
    d.bytes(&font);
    d.str(flavour);
    Scenario { index, flavour: flavour.into(), fspec: fs, font, ift: Some(ift), iftx: None, patches, real: false, agree: true, digest: d.finish() }
}

/// Deterministic corner cases (independent of the seed).
pub fn directed_scenarios() -> Vec<Scenario> {
    let mut v = vec![];
    let one = |gid: u32, tables: Vec<Tag4>, data: Vec<Vec<u8>>| GkSpec {
        wide: false,
        gids: vec![gid],
        tables,
        data: data.into_iter().map(|d| vec![d]).collect(),
    };
    let gvar_spec = |short: bool, data: Vec<Vec<u8>>| GvarSpec { short, axis_count: 1, shared_tuple_count: 2, out_of_order: false, data };
    // 1. an initial font whose gvar holds no data yet; the patch brings an outline without variations
    {
        let fs = FontSpec {
            n: 3,
            glyf: Some((true, vec![vec![1, 2], vec![], vec![]])),
            gvar: Some(gvar_spec(true, vec![vec![], vec![], vec![]])),
            ..Default::default()
        };
        v.push(scenario_from(1_000_001, "directed:gvar-all-empty", fs, vec![one(1, vec![GLYF, GVAR], vec![vec![9, 8, 7, 6], vec![]])]));
    }
    // 2. odd-length gvar data padded under short offsets, then kept when a later patch widens to long
    {
        let fs = FontSpec {
            n: 3,
            glyf: Some((true, vec![vec![1, 2], vec![], vec![]])),
            gvar: Some(gvar_spec(true, vec![vec![0x55; 131066], vec![], vec![]])),
            ..Default::default()
        };
        v.push(scenario_from(
            1_000_002,
            "directed:gvar-pad-then-widen",
            fs,
            vec![one(1, vec![GVAR], vec![vec![0xAA]]), one(2, vec![GVAR], vec![vec![1, 2, 3, 4, 5, 6, 7, 8]])],
        ));
    }
    // 3. CFF offSize widened by an intermediate state and never narrowed
    for cff2 in [false, true] {
        let data = vec![vec![0x0e; 250], vec![], vec![]];
        let fs = FontSpec {
            n: 3,
            cff: if cff2 { None } else { Some((1, data.clone())) },
            cff2: if cff2 { Some((1, data)) } else { None },
            ..Default::default()
        };
        let tg = if cff2 { CFF2 } else { CFF };
        v.push(scenario_from(
            1_000_003 + cff2 as usize,
            "directed:cff-offsize-sticky",
            fs,
            vec![one(1, vec![tg], vec![vec![0x0e; 10]]), one(0, vec![tg], vec![vec![0x0e; 5]])],
        ));
    }
    // 4. exact widening boundaries: total == max stays, max+1 (max+2 for divided offsets) widens
    for (k, extra) in [0usize, 1, 2, 3].into_iter().enumerate() {
        let fs = FontSpec {
            n: 2,
            glyf: Some((true, vec![vec![1, 2], vec![]])),
            gvar: Some(gvar_spec(true, vec![vec![0x11; 131060], vec![]])),
            ..Default::default()
        };
        // 131060 + 8 + extra (padded to even)
        v.push(scenario_from(1_000_010 + k, "directed:gvar-boundary", fs, vec![one(1, vec![GVAR], vec![vec![3; 8 + extra]])]));
        for (os, max) in [(1u8, 254usize), (2, 65534)] {
            let fs = FontSpec { n: 2, cff: Some((os, vec![vec![0x0e; max - 8], vec![]])), ..Default::default() };
            v.push(scenario_from(1_000_020 + k + 10 * os as usize, "directed:cff-boundary", fs, vec![one(1, vec![CFF], vec![vec![3; 7 + extra]])]));
        }
        let fs = FontSpec { n: 2, glyf: Some((true, vec![vec![0x11; 131060], vec![]])), ..Default::default() };
        v.push(scenario_from(1_000_050 + k, "directed:glyf-boundary", fs, vec![one(1, vec![GLYF], vec![vec![3; 8 + extra]])]));
    }
    v
}

// ---------------------------------------------------------------- decoded-size thresholds

/// Decoded sizes at which a decoder with staged / growing output buffers changes path.
pub const SIZE_THRESHOLDS: [usize; 4] = [1 << 16, 1 << 20, 2 << 20, 4 << 20];
/// 12 table-keyed (4 thresholds x {-1, 0, +1}) + 4 glyph-keyed scenarios.
pub const N_THRESHOLD_SCENARIOS: usize = 16;

/// Position-dependent content: every 1 KiB block starts with a hash of its index, so a chunk
/// written at the wrong output offset can never reproduce the expected bytes.
fn stamp_positions(v: &mut [u8]) {
    for (k, c) in v.chunks_mut(1024).enumerate() {
        if c.len() >= 4 {
            c[..4].copy_from_slice(&(k as u32 ^ 0x5bd1_e995).wrapping_mul(2_654_435_761).to_be_bytes());
        }
    }
}

fn compress_or_stored(data: &[u8], dict: Option<&[u8]>, q: u32, lgwin: u32) -> Vec<u8> {
    enc::brotli_compress(data, dict, q, lgwin).unwrap_or_else(|| brotli_stored(data))
}

/// Scenario `j` of the decoded-size family: ONE patch whose brotli streams (really compressed by the
/// C encoder, decoded by the built-in C decoder) decode to `threshold - 1 | threshold | threshold + 1`
/// bytes. j < 12: a table-keyed patch replacing `tabA` (no dictionary) and diffing `tabB` (raw shared
/// dictionary = the base table); j >= 12: a glyph-keyed patch whose payload has that size.
pub fn threshold_scenario(seed: u64, j: usize) -> Scenario {
    let mut rng = Rng::derive(seed, "c18-threshold", j as u64);
    let rng = &mut rng;
    let compat = rand_compat(rng);
    let q = [1u32, 2, 5, 0, 4, 6][j % 6];
    let lgwin = [22u32, 24, 18, 16][j % 4];
    let index = 2_000_000 + j;
    let mut patches = BTreeMap::new();
    let (fs, ift, flavour) = if j < 12 {
        let size = SIZE_THRESHOLDS[j / 3] + (j % 3) - 1;
        let len_a = 2000 + rng.usize(6000);
        let base_a = enc::structured_bytes(rng, len_a, None);
        let len_b = if j % 2 == 0 { size - rng.usize(1000) } else { 20_000 + rng.usize(20_000) };
        let mut base_b = enc::structured_bytes(rng, len_b, None);
        stamp_positions(&mut base_b);
        let mut plain_a = enc::structured_bytes(rng, size, None);
        stamp_positions(&mut plain_a);
        // incompressible stretch: literal-heavy meta-blocks as well as copies
        let r = rng.bytes(size / 4);
        plain_a[size / 2..size / 2 + r.len()].copy_from_slice(&r);
        let mut plain_b = enc::structured_bytes(rng, size, Some(&base_b));
        stamp_positions(&mut plain_b);
        let slack = |rng: &mut Rng| if j % 2 == 0 { 0 } else { 1 + rng.below(5000) as u32 };
        let entries = vec![
            TkEntry { tag: *b"tabA", flags: 1, max_len: size as u32 + slack(rng), stream: compress_or_stored(&plain_a, None, q, lgwin) },
            TkEntry { tag: *b"tabB", flags: 0, max_len: size as u32 + slack(rng), stream: compress_or_stored(&plain_b, Some(&base_b), q, lgwin) },
        ];
        let fs = FontSpec {
            n: 3,
            glyf: Some((true, vec![vec![1, 2], vec![], vec![]])),
            extra: vec![(*b"tabA", base_a), (*b"tabB", base_b)],
            ..Default::default()
        };
        let spec = MapSpec {
            format: 2,
            compat,
            template: "t/{id}".into(),
            entries: vec![EntrySpec { kind: if j % 2 == 0 { Kind::TkPartial } else { Kind::TkFull }, id: j as u32 + 1, pre_applied: false }],
            cff_off: None,
            cff2_off: None,
        };
        let ift = built(spec, fs.n, false);
        let bytes = tk_patch(b"iftk", &compat, &entries);
        patches.insert(ift.infos[0].uri.clone(), PatchModel::Tk { entries, plains: vec![Some(plain_a), Some(plain_b)], bytes, new_ift: None });
        (fs, ift, "directed:decoded-size-threshold:table-keyed")
    } else {
        // payload = 25 header bytes (count, table count, 2 gids, 1 tag, 3 offsets) + glyph data
        let size = [(1 << 20) + 1, (2 << 20) + 1, (4 << 20) + 1, 1 << 20][j - 12];
        let d2 = rng.bytes(300);
        let mut d1 = enc::structured_bytes(rng, size - 25 - d2.len(), None);
        stamp_positions(&mut d1);
        let spec = GkSpec { wide: false, gids: vec![1, 2], tables: vec![GLYF], data: vec![vec![d1, d2]] };
        let payload = gk_payload(&spec);
        let fs = FontSpec { n: 4, glyf: Some((false, vec![vec![1, 2, 3, 4], vec![], vec![], vec![9; 6]])), ..Default::default() };
        let mspec = MapSpec {
            format: 2,
            compat,
            template: "g/{id}".into(),
            entries: vec![EntrySpec { kind: Kind::Gk, id: j as u32 + 1, pre_applied: false }],
            cff_off: None,
            cff2_off: None,
        };
        let ift = built(mspec, fs.n, false);
        let max_len = payload.len() as u32 + if j % 2 == 0 { 0 } else { 777 };
        let bytes = gk_patch(b"ifgk", false, &compat, max_len, &compress_or_stored(&payload, None, q, lgwin));
        patches.insert(ift.infos[0].uri.clone(), PatchModel::Gk { spec, bytes });
        (fs, ift, "directed:decoded-size-threshold:glyph-keyed")
    };
    let font = build_font(&fs, Some(&ift.bytes), None);
    let mut d = Digest::new();
    d.bytes(&font);
    for (u, p) in &patches {
        d.str(u);
        match p {
            PatchModel::Gk { bytes, .. } | PatchModel::Tk { bytes, .. } => d.bytes(bytes),
        }
    }
    Scenario { index, flavour: flavour.into(), fspec: fs, font, ift: Some(ift), iftx: None, patches, real: true, agree: true, digest: d.finish() }
}

/// Harness sanity for the family: the plain text the model expects really is what an independent
/// look at the stream gives (decoded size recorded as evidence).
fn run_threshold(ctx: &mut Ctx, seed: u64, j: usize) {
    let sc = threshold_scenario(seed, j);
    let mut rng = Rng::derive(seed, "c18-threshold-drive", j as u64);
    ctx.label("flavours", &sc.flavour);
    ctx.count("threshold_scenarios", 1);
    for p in sc.patches.values() {
        match p {
            PatchModel::Tk { plains, entries, .. } => {
                for (pl, e) in plains.iter().zip(entries) {
                    let n = pl.as_ref().map(|p| p.len()).unwrap_or(0);
                    ctx.label("threshold_decoded_sizes", &format!("tk:{}:{n}", if e.flags & 1 == 1 { "replace" } else { "diff+dict" }));
                    ctx.count("threshold_stream_bytes", e.stream.len() as u64);
                }
            }
            PatchModel::Gk { spec, .. } => {
                ctx.label("threshold_decoded_sizes", &format!("gk:{}", gk_payload(spec).len()));
            }
        }
    }
    run_history(ctx, &sc, &mut rng);
}

// ---------------------------------------------------------------- group driver

struct State {
    font: Vec<u8>,
    ift_infos: Vec<EntryInfo>,
    iftx_infos: Vec<EntryInfo>,
    map: HashMap<String, UriStatus>,
}

impl State {
    fn info(&self, uri: &str) -> Option<&EntryInfo> {
        self.ift_infos.iter().chain(self.iftx_infos.iter()).find(|i| i.uri == uri)
    }
}

enum Plan {
    Tk(String),
    Gk(Vec<String>),
    NothingPending,
}

fn sig(what: &str, sc: &Scenario, via: &str) -> String {
    format!("{what}|flavour={}|via={via}", sc.flavour)
}

/// Signature for a well-formed glyph-keyed application that was rejected.
fn rejected_sig(base: &Tables, specs: &[&GkSpec], e: &PatchingError, sc: &Scenario, via: &str) -> String {
    if matches!(e, PatchingError::SerializationError(_)) && gvar_result_empty(base, specs) {
        // known class: klippa's pop_pack returns None for a zero-length object
        return "gk:gvar-empty-data-array-rejected".into();
    }
    sig("gk:valid-application-rejected", sc, via)
}

fn case_json(sc: &Scenario, extra: serde_json::Value) -> serde_json::Value {
    json!({
        "scenario_index": sc.index,
        "flavour": sc.flavour,
        "num_glyphs": sc.fspec.n,
        "real_brotli": sc.real,
        "agreeing_duplicates": sc.agree,
        "ift_format": sc.ift.as_ref().map(|m| m.spec.format),
        "iftx_format": sc.iftx.as_ref().map(|m| m.spec.format),
        "patches": sc.patches.iter().map(|(u, p)| match p {
            PatchModel::Gk { spec, .. } => json!({"uri": u, "kind": "glyph-keyed", "gids": spec.gids, "tables": spec.tables.iter().map(tag_str).collect::<Vec<_>>(),
                "lens": spec.data.iter().map(|t| t.iter().map(|d| d.len()).collect::<Vec<_>>()).collect::<Vec<_>>()}),
            PatchModel::Tk { entries, .. } => json!({"uri": u, "kind": "table-keyed", "entries": entries.iter().map(|e| json!({"tag": tag_str(&e.tag), "flags": e.flags, "stream_len": e.stream.len(), "max_len": e.max_len})).collect::<Vec<_>>()}),
        }).collect::<Vec<_>>(),
        "detail": extra,
    })
}

fn apply_group(
    ctx: &mut Ctx,
    font: &[u8],
    map: &mut HashMap<String, UriStatus>,
    dec: &FaultyDecoder,
    label: &str,
) -> Option<Result<Result<Vec<u8>, PatchingError>, vf_core::PanicInfo>> {
    let fr = FontRef::new(font).ok()?;
    let group = PatchGroup::select_next_patches(fr, &SubsetDefinition::all()).ok()?;
    let g = RefCell::new(Some(group));
    let m = RefCell::new(map);
    let r = ctx.run_case(&|| label.to_string(), None, &|| {
        let group = g.borrow_mut().take().expect("one shot");
        let mut mm = m.borrow_mut();
        group.apply_next_patches_with_decoder(&mut mm, dec)
    });
    Some(r)
}

fn bits_for(st: &State, uris: &[String]) -> (Vec<usize>, Vec<usize>) {
    let mut a = vec![];
    let mut b = vec![];
    for u in uris {
        if let Some(i) = st.info(u) {
            if i.in_iftx {
                b.push(i.bit_index)
            } else {
                a.push(i.bit_index)
            }
        }
    }
    (a, b)
}

fn report(ctx: &mut Ctx, sc: &Scenario, via: &str, findings: Vec<Finding>, extra: serde_json::Value) {
    for f in findings {
        if f.what.starts_with("harness") {
            ctx.inconclusive(format!("{}: {}", f.what, f.detail));
            continue;
        }
        let s = sig(&f.what, sc, via);
        ctx.violation(&s, case_json(sc, json!({"finding": f.what, "info": f.detail, "context": extra})), Some(&sc.font));
    }
}

fn record_obs(ctx: &mut Ctx, obs: &Obs) {
    ctx.count("glyphs_replaced", obs.glyphs_replaced as u64);
    ctx.count("glyphs_changed", obs.glyphs_changed as u64);
    ctx.count("glyphs_kept_verified", obs.glyphs_kept as u64);
    ctx.count("odd_length_padded", obs.padded as u64);
    ctx.count("disagreeing_duplicate_first_wins", obs.dup_first_wins as u64);
    ctx.count("disagreeing_duplicate_other_wins", obs.dup_other_wins as u64);
    for w in &obs.widenings {
        ctx.count(&format!("widening:{w}"), 1);
        ctx.label("widenings", w);
    }
    for t in &obs.tables_patched {
        ctx.count(&format!("glyph_table_patched:{t}"), 1);
    }
}

/// One select -> apply round, with full fault enumeration. Returns false when
/// the history ends.
fn run_round(ctx: &mut Ctx, sc: &Scenario, st: &mut State, round: usize) -> bool {
    let Ok(fr) = FontRef::new(&st.font) else {
        ctx.inconclusive("harness: current font does not parse");
        return false;
    };
    let group = match PatchGroup::select_next_patches(fr, &SubsetDefinition::all()) {
        Ok(g) => g,
        Err(e) => {
            ctx.inconclusive(format!("harness: select_next_patches failed: {e:?}"));
            return false;
        }
    };
    let uris: Vec<String> = group.uris().map(|s| s.to_string()).collect();
    drop(group);
    if uris.is_empty() {
        return false;
    }
    if uris.iter().any(|u| st.info(u).is_none() || !st.map.contains_key(u)) {
        ctx.inconclusive("harness: selected uri unknown to the model");
        return false;
    }
    let first = st.info(&uris[0]).unwrap();
    let plan = if first.kind.is_tk() && matches!(st.map[&uris[0]], UriStatus::Pending(_)) {
        Plan::Tk(uris[0].clone())
    } else {
        let pending: Vec<String> = uris
            .iter()
            .filter(|u| st.info(u).unwrap().kind == Kind::Gk && matches!(st.map[*u], UriStatus::Pending(_)))
            .cloned()
            .collect();
        if pending.is_empty() {
            Plan::NothingPending
        } else {
            Plan::Gk(pending)
        }
    };
    let group_gk_uris: Vec<String> = uris.iter().filter(|u| st.info(u).unwrap().kind == Kind::Gk).cloned().collect();
    let base_tables = tables_of(&st.font);
    let snapshot = clone_map(&st.map);
    let label = format!("scenario {} round {round}", sc.index);

    // ---- fault-free run
    let dec = FaultyDecoder::new(sc.real, None);
    let mut map = clone_map(&snapshot);
    ctx.eval();
    let Some(res) = apply_group(ctx, &st.font, &mut map, &dec, &label) else {
        ctx.inconclusive("harness: group vanished");
        return false;
    };
    let res = match res {
        Ok(r) => r,
        Err(p) => {
            ctx.judge_panic(&p, "apply_next_patches_with_decoder (fault-free)", case_json(sc, json!({"round": round})), Some(&st.font));
            return false;
        }
    };
    let n_calls = dec.calls.get();
    let mut expected_map = clone_map(&snapshot);
    let mut next_font: Option<Vec<u8>> = None;
    let mut new_ift_infos: Option<Vec<EntryInfo>> = None;
    let mut case_d = Digest::new();
    case_d.u64(sc.digest);
    case_d.u64(round as u64);
    match (&plan, &res) {
        (Plan::Tk(uri), Ok(bytes)) => {
            let PatchModel::Tk { entries, plains, new_ift, .. } = &sc.patches[uri] else { unreachable!() };
            let result_tables = tables_of(bytes);
            let fs = check_tk(&base_tables, &result_tables, entries, plains);
            report(ctx, sc, "group", fs, json!({"round": round, "uri": uri}));
            expected_map.insert(uri.clone(), UriStatus::Applied);
            ctx.count("applied:table-keyed:group", 1);
            ctx.count("tk_entries:replace", entries.iter().filter(|e| e.flags & 3 == 1).count() as u64);
            ctx.count("tk_entries:diff", entries.iter().filter(|e| e.flags & 3 == 0).count() as u64);
            ctx.count("tk_entries:drop", entries.iter().filter(|e| e.flags & 2 != 0).count() as u64);
            if diff_fonts(&base_tables, &result_tables).is_some() {
                ctx.nontrivial(case_d.finish());
            }
            if let Some(m) = new_ift {
                new_ift_infos = Some(m.infos.clone());
            }
            next_font = Some(bytes.clone());
        }
        (Plan::Tk(uri), Err(e)) => {
            ctx.violation(
                &sig("tk:valid-patch-rejected", sc, "group"),
                case_json(sc, json!({"round": round, "uri": uri, "error": format!("{e:?}")})),
                Some(&st.font),
            );
        }
        (Plan::Gk(pending), r) => {
            let specs: Vec<&GkSpec> = pending
                .iter()
                .map(|u| match &sc.patches[u] {
                    PatchModel::Gk { spec, .. } => spec,
                    _ => unreachable!(),
                })
                .collect();
            let overflow = glyf_overflow(&base_tables, &specs);
            match r {
                Ok(bytes) => {
                    let result_tables = tables_of(bytes);
                    let (ib, xb) = bits_for(st, pending);
                    let mut obs = Obs::default();
                    let fs = check_gk(
                        &GkCheck { base: &base_tables, result: &result_tables, patches: &specs, ift_bits: &ib, iftx_bits: &xb, frame_only: false },
                        &mut obs,
                    );
                    report(ctx, sc, "group", fs, json!({"round": round, "applied": pending}));
                    record_obs(ctx, &obs);
                    for u in &group_gk_uris {
                        expected_map.insert(u.clone(), UriStatus::Applied);
                    }
                    ctx.count("applied:glyph-keyed:group", 1);
                    ctx.count("applied:glyph-keyed:patches", pending.len() as u64);
                    ctx.label("group_sizes", &format!("{}", pending.len()));
                    if obs.glyphs_changed > 0 {
                        ctx.nontrivial(case_d.finish());
                    }
                    ctx.sample_by_kind(&format!("gk-group:{}", sc.flavour), case_json(sc, json!({"round": round, "applied": pending, "widenings": obs.widenings})));
                    next_font = Some(bytes.clone());
                }
                Err(e) if overflow => {
                    ctx.count("glyf_overflow_err_allowed", 1);
                    ctx.label("allowed_errors", &format!("{e:?}"));
                }
                Err(e) => {
                    ctx.violation(
                        &rejected_sig(&base_tables, &specs, e, sc, "group"),
                        case_json(sc, json!({"round": round, "applied": pending, "error": format!("{e:?}")})),
                        Some(&st.font),
                    );
                }
            }
        }
        (Plan::NothingPending, Err(_)) => ctx.count("nothing_pending_err", 1),
        (Plan::NothingPending, Ok(_)) => ctx.count("nothing_pending_ok", 1),
    }
    // bookkeeping after the fault-free run
    let want = if res.is_ok() { &expected_map } else { &snapshot };
    if let Some(d) = map_diff(want, &map) {
        let what = if res.is_ok() { "bookkeeping:wrong-after-success" } else { "bookkeeping:changed-on-error" };
        ctx.violation(
            &sig(what, sc, "group"),
            case_json(sc, json!({"round": round, "diff": d, "result": res.as_ref().map(|b| b.len()).map_err(|e| format!("{e:?}"))})),
            Some(&st.font),
        );
    }

    // ---- fault enumeration: every call index x every fault kind
    if res.is_ok() && !matches!(plan, Plan::NothingPending) {
        for k in 0..n_calls {
            for fault in ERROR_FAULTS.iter().chain(OUTPUT_FAULTS.iter()) {
                let dk = FaultyDecoder::new(sc.real, Some((k, *fault)));
                let mut mk = clone_map(&snapshot);
                ctx.eval();
                let Some(rk) = apply_group(ctx, &st.font, &mut mk, &dk, &label) else { continue };
                let rk = match rk {
                    Ok(r) => r,
                    Err(p) => {
                        ctx.judge_panic(&p, "apply_next_patches_with_decoder (fault injected)", case_json(sc, json!({"round": round, "k": k, "fault": fault.name()})), Some(&st.font));
                        continue;
                    }
                };
                if !dk.injected.get() {
                    ctx.count("fault_point_not_reached", 1);
                    continue;
                }
                ctx.count("fault_points", 1);
                ctx.count(&format!("fault:{}", fault.name()), 1);
                ctx.label("fault_call_index", &format!("k={k}/{n_calls}"));
                let mut fd = case_d;
                fd.u64(k as u64);
                fd.str(fault.name());
                ctx.nontrivial(fd.finish());
                let ctxj = json!({"round": round, "k": k, "calls": n_calls, "fault": fault.name()});
                match (&rk, fault.is_error()) {
                    (Ok(_), true) => {
                        ctx.violation(&sig(&format!("fault:decoder-error-swallowed:{}", fault.name()), sc, "group"), case_json(sc, ctxj.clone()), Some(&st.font));
                    }
                    (Err(_), _) => {
                        if let Some(d) = map_diff(&snapshot, &mk) {
                            ctx.violation(
                                &sig("fault:bookkeeping-changed-on-error", sc, "group"),
                                case_json(sc, json!({"fault": ctxj, "diff": d})),
                                Some(&st.font),
                            );
                        }
                        // the failed attempt must not poison anything: retry with a good decoder
                        if k == 0 || *fault == Fault::InvalidStream {
                            let good = FaultyDecoder::new(sc.real, None);
                            if let Some(Ok(Ok(again))) = apply_group(ctx, &st.font, &mut mk, &good, &label) {
                                ctx.count("retry_after_fault", 1);
                                if Some(&again) != res.as_ref().ok() {
                                    ctx.violation(&sig("fault:retry-differs-from-fault-free", sc, "group"), case_json(sc, ctxj.clone()), Some(&st.font));
                                }
                                if let Some(d) = map_diff(&expected_map, &mk) {
                                    ctx.violation(&sig("fault:retry-bookkeeping-wrong", sc, "group"), case_json(sc, json!({"fault": ctxj, "diff": d})), Some(&st.font));
                                }
                            } else {
                                ctx.violation(&sig("fault:retry-after-error-failed", sc, "group"), case_json(sc, ctxj.clone()), Some(&st.font));
                            }
                        }
                        ctx.count("fault_err_bookkeeping_verified", 1);
                    }
                    (Ok(bytes), false) => {
                        // decoder "succeeded" with wrong-sized output: an Ok must be consistent
                        ctx.count(&format!("output_fault_accepted:{}", fault.name()), 1);
                        if let Some(d) = map_diff(&expected_map, &mk) {
                            ctx.violation(&sig("fault:bookkeeping-wrong-after-success", sc, "group"), case_json(sc, json!({"fault": ctxj, "diff": d})), Some(&st.font));
                        }
                        let rt = tables_of(bytes);
                        match &plan {
                            Plan::Tk(uri) => {
                                let PatchModel::Tk { entries, plains, .. } = &sc.patches[uri] else { unreachable!() };
                                let log = dk.log.borrow();
                                let rec = &log[k];
                                // which entry's stream did call k decode? (equal streams: any of them)
                                let mut first_fail: Option<Vec<Finding>> = None;
                                let mut passed = false;
                                let mut hit = false;
                                if let Ok(o) = &rec.output {
                                    for (i, e) in entries.iter().enumerate() {
                                        if e.flags & 2 == 0 && vf_core::fnv64(&e.stream) == rec.encoded_digest {
                                            hit = true;
                                            let mut decoded = plains.clone();
                                            decoded[i] = Some(o.clone());
                                            let fs = check_tk(&base_tables, &rt, entries, &decoded);
                                            if fs.is_empty() {
                                                passed = true;
                                                break;
                                            }
                                            first_fail.get_or_insert(fs);
                                        }
                                    }
                                }
                                if hit && !passed {
                                    report(ctx, sc, "group+output-fault", first_fail.unwrap_or_default(), ctxj.clone());
                                }
                                if hit {
                                    ctx.count("output_fault_result_verified", 1);
                                }
                            }
                            Plan::Gk(pending) => {
                                let specs: Vec<&GkSpec> = pending
                                    .iter()
                                    .map(|u| match &sc.patches[u] {
                                        PatchModel::Gk { spec, .. } => spec,
                                        _ => unreachable!(),
                                    })
                                    .collect();
                                let (ib, xb) = bits_for(st, pending);
                                let mut obs = Obs::default();
                                let fs = check_gk(
                                    &GkCheck {
                                        base: &base_tables,
                                        result: &rt,
                                        patches: &specs,
                                        ift_bits: &ib,
                                        iftx_bits: &xb,
                                        frame_only: *fault == Fault::ShortOutput,
                                    },
                                    &mut obs,
                                );
                                report(ctx, sc, "group+output-fault", fs, ctxj.clone());
                            }
                            Plan::NothingPending => {}
                        }
                    }
                }
            }
        }
    }

    match next_font {
        Some(f) => {
            st.font = f;
            st.map = map;
            if let Some(i) = new_ift_infos {
                st.ift_infos = i;
            }
            true
        }
        None => false,
    }
}

fn initial_state(sc: &Scenario, rng: &mut Rng) -> State {
    let mut map = HashMap::new();
    for (u, p) in &sc.patches {
        let bytes = match p {
            PatchModel::Gk { bytes, .. } | PatchModel::Tk { bytes, .. } => bytes.clone(),
        };
        map.insert(u.clone(), UriStatus::Pending(bytes));
    }
    // unrelated bookkeeping entries must never be touched
    map.insert("unrelated/pending".into(), UriStatus::Pending(rng.bytes(7)));
    map.insert("unrelated/applied".into(), UriStatus::Applied);
    State {
        font: sc.font.clone(),
        ift_infos: sc.ift.as_ref().map(|m| m.infos.clone()).unwrap_or_default(),
        iftx_infos: sc.iftx.as_ref().map(|m| m.infos.clone()).unwrap_or_default(),
        map,
    }
}

fn run_history(ctx: &mut Ctx, sc: &Scenario, rng: &mut Rng) {
    let mut st = initial_state(sc, rng);
    // the caller's bookkeeping may say "already applied" for some glyph-keyed URIs: they must be skipped
    if rng.chance(1, 4) {
        let mut keys: Vec<String> = sc
            .patches
            .iter()
            .filter(|(_, p)| matches!(p, PatchModel::Gk { .. }))
            .map(|(u, _)| u.clone())
            .collect();
        keys.sort();
        let mut n = 0;
        for k in keys {
            if rng.chance(1, 3) {
                st.map.insert(k, UriStatus::Applied);
                n += 1;
            }
        }
        if n > 0 {
            ctx.count("history_with_caller_marked_applied", 1);
        }
    }
    let mut rounds = 0;
    while rounds < 8 && run_round(ctx, sc, &mut st, rounds) {
        rounds += 1;
    }
    ctx.label("history_rounds", &format!("{rounds}"));
}

// ---------------------------------------------------------------- direct API: permutations and partitions

fn infos_for(font: &[u8]) -> Vec<(String, PatchInfo)> {
    let Ok(fr) = FontRef::new(font) else { return vec![] };
    let Ok(uris) = intersecting_patches(&fr, &SubsetDefinition::all()) else { return vec![] };
    uris.into_iter()
        .filter_map(|u| {
            let s = u.uri_string().ok()?;
            let i: PatchInfo = u.try_into().ok()?;
            Some((s, i))
        })
        .collect()
}

fn permutations(n: usize) -> Vec<Vec<usize>> {
    fn rec(cur: &mut Vec<usize>, used: &mut Vec<bool>, out: &mut Vec<Vec<usize>>) {
        if cur.len() == used.len() {
            out.push(cur.clone());
            return;
        }
        for i in 0..used.len() {
            if !used[i] {
                used[i] = true;
                cur.push(i);
                rec(cur, used, out);
                cur.pop();
                used[i] = false;
            }
        }
    }
    let mut out = vec![];
    rec(&mut vec![], &mut vec![false; n], &mut out);
    out
}

fn run_orders(ctx: &mut Ctx, sc: &Scenario, rng: &mut Rng) {
    if !sc.agree {
        return;
    }
    let infos = infos_for(&sc.font);
    let mut gk: Vec<(&String, &PatchInfo, &GkSpec, &Vec<u8>)> = vec![];
    for (u, i) in &infos {
        if let Some(PatchModel::Gk { spec, bytes }) = sc.patches.get(u) {
            gk.push((u, i, spec, bytes));
        }
    }
    if gk.len() < 2 {
        return;
    }
    let big = sc.font.len() > 200_000;
    let max_m = if sc.font.len() > 4_000_000 { 2 } else if big { 3 } else { 4 };
    rng.shuffle(&mut gk);
    gk.truncate(max_m);
    let m = gk.len();
    let entry_info = |u: &str| sc.ift.iter().chain(sc.iftx.iter()).flat_map(|mm| mm.infos.iter()).find(|i| i.uri == u);
    let base_tables = tables_of(&sc.font);
    let mut reference: Option<(Tables, String)> = None;
    let mut sequences = 0u64;
    let mut any_changed = false;
    for perm in permutations(m) {
        for cuts in 0..(1u32 << (m - 1)) {
            // groups = maximal runs between cut points
            let mut groups: Vec<Vec<usize>> = vec![vec![perm[0]]];
            for (j, p) in perm.iter().enumerate().skip(1) {
                if cuts >> (j - 1) & 1 == 1 {
                    groups.push(vec![*p]);
                } else {
                    groups.last_mut().unwrap().push(*p);
                }
            }
            let desc = format!("{groups:?}");
            let mut cur = sc.font.clone();
            let mut cur_tables = base_tables.clone();
            let mut aborted = false;
            for grp in &groups {
                let specs: Vec<&GkSpec> = grp.iter().map(|i| gk[*i].2).collect();
                let dec = FaultyDecoder::new(sc.real, None);
                ctx.eval();
                let r = {
                    let fr = match FontRef::new(&cur) {
                        Ok(f) => f,
                        Err(_) => {
                            ctx.violation(&sig("order:intermediate-font-unparsable", sc, "direct"), case_json(sc, json!({"sequence": desc})), Some(&sc.font));
                            aborted = true;
                            break;
                        }
                    };
                    let items: Vec<(&PatchInfo, &[u8])> = grp.iter().map(|i| (gk[*i].1, gk[*i].3.as_slice())).collect();
                    ctx.run_case(&|| format!("scenario {} order {desc}", sc.index), None, &|| {
                        fr.apply_glyph_keyed_patches(items.clone().into_iter(), &dec)
                    })
                };
                let r = match r {
                    Ok(r) => r,
                    Err(p) => {
                        ctx.judge_panic(&p, "apply_glyph_keyed_patches", case_json(sc, json!({"sequence": desc})), Some(&sc.font));
                        aborted = true;
                        break;
                    }
                };
                match r {
                    Ok(bytes) => {
                        let rt = tables_of(&bytes);
                        let uris: Vec<String> = grp.iter().map(|i| gk[*i].0.clone()).collect();
                        let mut ib = vec![];
                        let mut xb = vec![];
                        for u in &uris {
                            if let Some(i) = entry_info(u) {
                                if i.in_iftx {
                                    xb.push(i.bit_index)
                                } else {
                                    ib.push(i.bit_index)
                                }
                            }
                        }
                        let mut obs = Obs::default();
                        let fs = check_gk(
                            &GkCheck { base: &cur_tables, result: &rt, patches: &specs, ift_bits: &ib, iftx_bits: &xb, frame_only: false },
                            &mut obs,
                        );
                        report(ctx, sc, "direct", fs, json!({"sequence": desc, "group": grp}));
                        record_obs(ctx, &obs);
                        if obs.glyphs_changed > 0 {
                            any_changed = true;
                        }
                        ctx.count("applied:glyph-keyed:direct", 1);
                        cur = bytes;
                        cur_tables = rt;
                    }
                    Err(e) => {
                        if glyf_overflow(&cur_tables, &specs) {
                            ctx.count("glyf_overflow_err_allowed", 1);
                        } else {
                            ctx.violation(
                                &rejected_sig(&cur_tables, &specs, &e, sc, "direct"),
                                case_json(sc, json!({"sequence": desc, "error": format!("{e:?}")})),
                                Some(&sc.font),
                            );
                        }
                        aborted = true;
                        break;
                    }
                }
            }
            if aborted {
                continue;
            }
            sequences += 1;
            match &reference {
                None => reference = Some((cur_tables, desc)),
                Some((rt, rdesc)) => {
                    if let Some(d) = diff_fonts(rt, &cur_tables) {
                        let class = classify_order_diff(rt, &cur_tables);
                        // flavour-independent signature: the class says it all
                        ctx.violation(
                            &format!("order-dependence:{class}"),
                            case_json(sc, json!({"sequence_a": rdesc, "sequence_b": desc, "diff": d})),
                            Some(&sc.font),
                        );
                    }
                }
            }
        }
    }
    ctx.count("order_sequences_compared", sequences);
    ctx.count("order_patch_sets", 1);
    ctx.label("order_set_sizes", &format!("{m}"));
    if sequences > 1 && any_changed {
        let mut d = Digest::new();
        d.u64(sc.digest);
        d.str("orders");
        ctx.nontrivial(d.finish());
    }
}

/// Say which table differs and how: only the offset width, only one byte of
/// zero padding behind odd-length glyph data, or real glyph data.
fn classify_order_diff(a: &Tables, b: &Tables) -> String {
    let mut classes = vec![];
    for (tag, x) in a {
        let Some(y) = b.get(tag) else {
            classes.push(format!("{}:missing", tag_str(tag)));
            continue;
        };
        if tables_equal_mod_head(tag, x, y) {
            continue;
        }
        if !is_glyph_table(tag) {
            classes.push(format!("{}:bytes", tag_str(tag)));
            continue;
        }
        let (Ok(ax), Ok(ay)) = (arr_for(a, tag), arr_for(b, tag)) else {
            classes.push(format!("{}:unparsable", tag_str(tag)));
            continue;
        };
        let pad_eq = |p: &Vec<u8>, q: &Vec<u8>| {
            let (s, l) = if p.len() <= q.len() { (p, q) } else { (q, p) };
            s == l || (l.len() == s.len() + 1 && s.len() % 2 == 1 && l[..s.len()] == s[..] && l[s.len()] == 0)
        };
        let same = ax.items.len() == ay.items.len() && ax.items.iter().zip(&ay.items).all(|(p, q)| pad_eq(p, q)) && ax.meta == ay.meta;
        let class = if !same {
            "glyph-data"
        } else if ax.width != ay.width {
            "offset-width-differs"
        } else {
            "padding-residue"
        };
        classes.push(format!("{}:{class}", tag_str(tag)));
    }
    if classes.is_empty() {
        "table-set".into()
    } else {
        classes.join("+")
    }
}

// ---------------------------------------------------------------- malformed and incompatible patches

fn mutate_gk(rng: &mut Rng, sc: &Scenario, spec: &GkSpec, compat: &[u8; 16], variant: usize) -> Option<(&'static str, Vec<u8>)> {
    let enc = |payload: &[u8], max: u32, fmt: &Tag4, compat: &[u8; 16], wide: bool| {
        if sc.real {
            gk_patch(fmt, wide, compat, max, &brotli_stream(payload, None))
        } else {
            gk_patch(fmt, wide, compat, max, payload)
        }
    };
    let payload = gk_payload(spec);
    let plen = payload.len() as u32;
    // index of a table the patcher really processes
    let proc_ti = spec.tables.iter().position(is_glyph_table)?;
    let n = sc.fspec.n as u32;
    Some(match variant {
        0 => ("gk:bad-format-tag", enc(&payload, plen, b"ifgX", compat, spec.wide)),
        1 => {
            let mut c = *compat;
            c[rng.usize(16)] ^= 1 << rng.usize(8);
            ("gk:compat-id-mismatch", enc(&payload, plen, b"ifgk", &c, spec.wide))
        }
        2 => {
            let full = enc(&payload, plen, b"ifgk", compat, spec.wide);
            ("gk:truncated-header", full[..rng.usize(GK_HEADER_LEN)].to_vec())
        }
        3 => {
            let cut = rng.usize(5);
            ("gk:payload-truncated", enc(&payload[..cut.min(payload.len())], cut as u32 + 10, b"ifgk", compat, spec.wide))
        }
        4 => {
            let mut s = spec.clone();
            if s.tables.len() >= 2 && rng.bool() {
                s.tables.swap(0, 1);
            } else {
                // duplicate tag
                let t0 = s.tables[proc_ti];
                s.tables.insert(proc_ti, t0);
                let d0 = s.data[proc_ti].clone();
                s.data.insert(proc_ti, d0);
            }
            let p = gk_payload(&s);
            ("gk:table-tags-unsorted-or-duplicate", enc(&p, p.len() as u32, b"ifgk", compat, s.wide))
        }
        5 => {
            if spec.gids.len() < 2 {
                return None;
            }
            let mut s = spec.clone();
            let i = rng.usize(s.gids.len() - 1);
            if rng.bool() {
                s.gids.swap(i, i + 1);
            } else {
                s.gids[i + 1] = s.gids[i];
            }
            let p = gk_payload(&s);
            ("gk:glyph-ids-unsorted-or-duplicate", enc(&p, p.len() as u32, b"ifgk", compat, s.wide))
        }
        6 => {
            let mut s = spec.clone();
            let beyond = n + rng.below(3) as u32;
            if !s.wide && beyond > 0xffff {
                return None;
            }
            s.gids.push(beyond);
            for t in s.data.iter_mut() {
                t.push(vec![1, 2, 3]);
            }
            let p = gk_payload(&s);
            ("gk:glyph-id-beyond-maxp", enc(&p, p.len() as u32, b"ifgk", compat, s.wide))
        }
        7 => {
            if spec.gids.is_empty() {
                return None;
            }
            // offsets of the processed table: make one run backwards
            let mut p = payload.clone();
            let idw = if spec.wide { 3 } else { 2 };
            let off0 = 5 + spec.gids.len() * idw + spec.tables.len() * 4;
            let gi = rng.usize(spec.gids.len());
            let pos = off0 + (proc_ti * spec.gids.len() + gi + 1) * 4;
            let prev = u32::from_be_bytes(p[pos - 4..pos].try_into().unwrap());
            if prev == 0 {
                return None;
            }
            p[pos..pos + 4].copy_from_slice(&(prev - 1).to_be_bytes());
            ("gk:data-offsets-descending", enc(&p, plen, b"ifgk", compat, spec.wide))
        }
        8 => {
            if spec.gids.is_empty() {
                return None;
            }
            let mut p = payload.clone();
            let idw = if spec.wide { 3 } else { 2 };
            let off0 = 5 + spec.gids.len() * idw + spec.tables.len() * 4;
            let total = spec.gids.len() * spec.tables.len() + 1;
            let from = proc_ti * spec.gids.len();
            for j in from..total {
                let pos = off0 + j * 4;
                let v = plen + 100 + j as u32;
                p[pos..pos + 4].copy_from_slice(&v.to_be_bytes());
            }
            ("gk:data-offsets-beyond-payload", enc(&p, plen, b"ifgk", compat, spec.wide))
        }
        9 => {
            if plen == 0 {
                return None;
            }
            ("gk:max-uncompressed-length-too-small", enc(&payload, plen - 1 - rng.below(plen as u64) as u32, b"ifgk", compat, spec.wide))
        }
        10 => {
            // a table the font does not have
            let missing = [GLYF, GVAR, CFF, CFF2].into_iter().find(|t| !glyph_tables_of(&sc.fspec).contains(t))?;
            let mut s = spec.clone();
            s.tables = vec![missing];
            s.data.truncate(1);
            let p = gk_payload(&s);
            ("gk:base-table-missing", enc(&p, p.len() as u32, b"ifgk", compat, s.wide))
        }
        11 => {
            if !sc.real {
                return None;
            }
            let mut st = brotli_stream(&payload, None);
            let name = if rng.bool() {
                st.push(0);
                "gk:brotli-excess-input"
            } else {
                let cut = 1 + rng.usize(st.len().min(6));
                st.truncate(st.len() - cut);
                "gk:brotli-truncated-stream"
            };
            (name, gk_patch(b"ifgk", spec.wide, compat, plen, &st))
        }
        _ => return None,
    })
}

fn mutate_tk(rng: &mut Rng, sc: &Scenario, entries: &[TkEntry], compat: &[u8; 16], variant: usize) -> Option<(&'static str, Vec<u8>)> {
    let good = tk_patch(b"iftk", compat, entries);
    Some(match variant {
        0 => ("tk:bad-format-tag", tk_patch(b"iftX", compat, entries)),
        1 => {
            let mut c = *compat;
            c[rng.usize(16)] ^= 1 << rng.usize(8);
            ("tk:compat-id-mismatch", tk_patch(b"iftk", &c, entries))
        }
        2 => {
            // first offset after the second: lengths go negative
            let mut p = good.clone();
            let a = tk_offset_pos(0);
            let b = tk_offset_pos(1);
            let (x, y) = (p[a..a + 4].to_vec(), p[b..b + 4].to_vec());
            if x == y {
                return None;
            }
            p[a..a + 4].copy_from_slice(&y);
            p[b..b + 4].copy_from_slice(&x);
            ("tk:patch-offsets-unsorted", p)
        }
        3 => {
            let mut p = good.clone();
            let last = tk_offset_pos(entries.len());
            let v = good.len() as u32 + 1 + rng.below(60) as u32;
            p[last..last + 4].copy_from_slice(&v.to_be_bytes());
            // only an error if the last entry is really decoded
            if entries.last()?.flags & 2 != 0 {
                return None;
            }
            if entries[..entries.len() - 1].iter().any(|e| e.tag == entries.last().unwrap().tag) {
                return None;
            }
            ("tk:stream-length-beyond-patch", p)
        }
        4 => {
            let mut es = entries.to_vec();
            let payload = rng.bytes(9);
            es.insert(
                rng.usize(es.len() + 1),
                TkEntry { tag: *b"Miss", flags: 0, max_len: 9, stream: if sc.real { brotli_stream(&payload, None) } else { payload } },
            );
            ("tk:diff-against-missing-table", tk_patch(b"iftk", compat, &es))
        }
        5 => {
            let mut es = entries.to_vec();
            let cand: Vec<usize> = es
                .iter()
                .enumerate()
                .filter(|(i, e)| e.flags & 2 == 0 && e.max_len > 0 && !es[..*i].iter().any(|p| p.tag == e.tag))
                .map(|(i, _)| i)
                .collect();
            let i = *cand.first()?;
            // plain length == max_len - slack; make the limit smaller than the plain text
            let plain_len = if sc.real { return None } else { es[i].stream.len() as u32 };
            if plain_len == 0 {
                return None;
            }
            es[i].max_len = plain_len - 1;
            ("tk:max-uncompressed-length-too-small", tk_patch(b"iftk", compat, &es))
        }
        6 => ("tk:truncated-header", good[..rng.usize(tk_offset_pos(1).min(good.len()))].to_vec()),
        7 => {
            if !sc.real {
                return None;
            }
            let mut es = entries.to_vec();
            let i = es.iter().position(|e| e.flags & 2 == 0 && !e.stream.is_empty())?;
            if es[..i].iter().any(|p| p.tag == es[i].tag) {
                return None;
            }
            es[i].stream = vec![0xff, 0xff, 0xff];
            ("tk:brotli-invalid-stream", tk_patch(b"iftk", compat, &es))
        }
        _ => return None,
    })
}

fn compat_of<'a>(sc: &'a Scenario, uri: &str) -> Option<&'a [u8; 16]> {
    for m in sc.ift.iter().chain(sc.iftx.iter()) {
        if m.infos.iter().any(|i| i.uri == uri) {
            return Some(&m.spec.compat);
        }
    }
    None
}

/// Replace one patch by a malformed / incompatible variant; the group
/// application must fail and leave the bookkeeping untouched.
fn run_malformed(ctx: &mut Ctx, sc: &Scenario, rng: &mut Rng) {
    let st0 = initial_state(sc, rng);
    let Ok(fr) = FontRef::new(&sc.font) else { return };
    let Ok(group) = PatchGroup::select_next_patches(fr, &SubsetDefinition::all()) else { return };
    let uris: Vec<String> = group.uris().map(|s| s.to_string()).collect();
    drop(group);
    if uris.is_empty() {
        return;
    }
    let Some(first) = st0.info(&uris[0]) else { return };
    // the patches the first round would really read
    let victims: Vec<String> = if first.kind.is_tk() {
        vec![uris[0].clone()]
    } else {
        uris.iter().filter(|u| st0.info(u).map(|i| i.kind == Kind::Gk).unwrap_or(false)).cloned().collect()
    };
    if victims.is_empty() {
        return;
    }
    // a group member without any bookkeeping entry: MissingPatches, nothing touched
    {
        let victim = rng.pick(&victims).clone();
        let mut map = clone_map(&st0.map);
        map.remove(&victim);
        let snapshot = clone_map(&map);
        let dec = FaultyDecoder::new(sc.real, None);
        ctx.eval();
        if let Some(r) = apply_group(ctx, &sc.font, &mut map, &dec, &format!("scenario {} missing data", sc.index)) {
            let cj = json!({"variant": "missing-patch-data", "victim": victim, "group": uris});
            match r {
                Err(p) => ctx.judge_panic(&p, "apply_next_patches_with_decoder (missing data)", case_json(sc, cj), Some(&sc.font)),
                Ok(Ok(_)) => {
                    ctx.violation(&sig("malformed-accepted:missing-patch-data", sc, "group"), case_json(sc, cj), Some(&sc.font));
                }
                Ok(Err(e)) => {
                    ctx.count("malformed:missing-patch-data", 1);
                    ctx.label("malformed_errors", &format!("missing-patch-data -> {e:?}"));
                    if let Some(df) = map_diff(&snapshot, &map) {
                        ctx.violation(
                            &sig("bookkeeping:changed-on-error:missing-patch-data", sc, "group"),
                            case_json(sc, json!({"case": cj, "diff": df})),
                            Some(&sc.font),
                        );
                    }
                }
            }
        }
    }
    for variant in 0..12 {
        let victim = rng.pick(&victims).clone();
        let Some(compat) = compat_of(sc, &victim) else { continue };
        let m = match &sc.patches[&victim] {
            PatchModel::Gk { spec, .. } => mutate_gk(rng, sc, spec, compat, variant),
            PatchModel::Tk { entries, .. } => mutate_tk(rng, sc, entries, compat, variant),
        };
        let Some((name, bad)) = m else { continue };
        let mut map = clone_map(&st0.map);
        map.insert(victim.clone(), UriStatus::Pending(bad.clone()));
        let snapshot = clone_map(&map);
        let dec = FaultyDecoder::new(sc.real, None);
        ctx.eval();
        let Some(r) = apply_group(ctx, &sc.font, &mut map, &dec, &format!("scenario {} malformed {name}", sc.index)) else { continue };
        let cj = json!({"variant": name, "victim": victim, "group": uris, "bad_patch_len": bad.len()});
        let r = match r {
            Ok(r) => r,
            Err(p) => {
                ctx.judge_panic(&p, &format!("apply_next_patches_with_decoder ({name})"), case_json(sc, cj), Some(&bad));
                continue;
            }
        };
        ctx.count(&format!("malformed:{name}"), 1);
        let mut d = Digest::new();
        d.u64(sc.digest);
        d.str(name);
        d.bytes(&bad);
        match r {
            Ok(_) => {
                ctx.violation(&sig(&format!("malformed-accepted:{name}"), sc, "group"), case_json(sc, cj), Some(&bad));
            }
            Err(e) => {
                ctx.label("malformed_errors", &format!("{name} -> {e:?}"));
                if let Some(df) = map_diff(&snapshot, &map) {
                    ctx.violation(
                        &sig(&format!("bookkeeping:changed-on-error:{name}"), sc, "group"),
                        case_json(sc, json!({"case": cj, "diff": df})),
                        Some(&bad),
                    );
                }
                ctx.count("malformed_err_bookkeeping_verified", 1);
                if name.contains("compat") {
                    ctx.count("compat_mismatch_decoder_calls_before_error", dec.calls.get() as u64);
                }
            }
        }
    }
}

/// PatchInfo derived from font A used against font B whose mapping table has a
/// different compatibility id (direct trait API): must be an error.
fn run_stale_info(ctx: &mut Ctx, sc: &Scenario, rng: &mut Rng) {
    let infos = infos_for(&sc.font);
    if infos.is_empty() {
        return;
    }
    // font B: flip one bit of the compat id of IFT or IFTX
    let which = if sc.iftx.is_some() && rng.bool() { IFTX } else { IFT };
    let tables = tables_of(&sc.font);
    let Some(mt) = tables.get(&which) else { return };
    let mut mt2 = mt.clone();
    mt2[5 + rng.usize(16)] ^= 1 << rng.usize(8);
    let font_b = vf_core::gen::with_table(&sc.font, &which, &mt2);
    let Ok(fb) = FontRef::new(&font_b) else { return };
    for (u, info) in &infos {
        let in_changed = sc.ift.iter().chain(sc.iftx.iter()).any(|m| m.infos.iter().any(|i| &i.uri == u && i.in_iftx == (which == IFTX)));
        if !in_changed {
            continue;
        }
        let dec = FaultyDecoder::new(sc.real, None);
        ctx.eval();
        let r = match sc.patches.get(u) {
            Some(PatchModel::Gk { bytes, .. }) => {
                let items = vec![(info, bytes.as_slice())];
                vf_core::guard(|| fb.apply_glyph_keyed_patches(items.into_iter(), &dec))
            }
            Some(PatchModel::Tk { bytes, .. }) => vf_core::guard(|| fb.apply_table_keyed_patch(info, bytes, &dec)),
            None => continue,
        };
        let cj = json!({"uri": u, "changed_table": tag_str(&which)});
        match r {
            Err(p) => ctx.judge_panic(&p, "direct apply with stale PatchInfo", case_json(sc, cj), Some(&font_b)),
            Ok(Ok(_)) => {
                ctx.violation(&sig("compat:font-id-mismatch-accepted", sc, "direct"), case_json(sc, cj), Some(&font_b));
            }
            Ok(Err(e)) => {
                ctx.count("compat:font-vs-info-mismatch-rejected", 1);
                ctx.label("compat_errors", &format!("{e:?}"));
                ctx.count("compat_mismatch_decoder_calls_before_error", dec.calls.get() as u64);
                let mut d = Digest::new();
                d.u64(sc.digest);
                d.str("stale");
                d.str(u);
                ctx.nontrivial(d.finish());
            }
        }
    }
    // a mixed group where only the LAST patch (other table) is incompatible
    let gk: Vec<&(String, PatchInfo)> = infos.iter().filter(|(u, _)| matches!(sc.patches.get(u), Some(PatchModel::Gk { .. }))).collect();
    if gk.len() >= 2 {
        let Ok(fa) = FontRef::new(&sc.font) else { return };
        for bad_pos in 0..gk.len() {
            let mut datas: Vec<Vec<u8>> = gk
                .iter()
                .map(|(u, _)| match &sc.patches[u] {
                    PatchModel::Gk { bytes, .. } => bytes.clone(),
                    _ => unreachable!(),
                })
                .collect();
            // compat id lives at bytes 9..25 of a glyph-keyed patch
            datas[bad_pos][9 + rng.usize(16)] ^= 1 << rng.usize(8);
            let items: Vec<(&PatchInfo, &[u8])> = gk.iter().zip(&datas).map(|((_, i), d)| (i, d.as_slice())).collect();
            let dec = FaultyDecoder::new(sc.real, None);
            ctx.eval();
            let r = vf_core::guard(|| fa.apply_glyph_keyed_patches(items.into_iter(), &dec));
            let cj = json!({"bad_position": bad_pos, "group": gk.iter().map(|(u, _)| u.clone()).collect::<Vec<_>>()});
            match r {
                Err(p) => ctx.judge_panic(&p, "direct apply with one incompatible patch", case_json(sc, cj), Some(&sc.font)),
                Ok(Ok(_)) => {
                    ctx.violation(&sig("compat:patch-id-mismatch-accepted", sc, "direct"), case_json(sc, cj), Some(&sc.font));
                }
                Ok(Err(_)) => {
                    ctx.count("compat:patch-in-group-mismatch-rejected", 1);
                    ctx.count("compat_mismatch_decoder_calls_before_error", dec.calls.get() as u64);
                }
            }
        }
    }
}

// ---------------------------------------------------------------- AddressSanitizer slice (profile "asan")
//
// Built by /verif/tools/stage_asan.sh with ASan instrumentation of the Rust code AND of the C brotli
// library (CC=clang CFLAGS=-fsanitize=address). Everything below reaches the REAL C decoder
// (`BuiltInBrotliDecoder` -> c_brotli.rs -> BrotliDecoderDecompressStream): a memory error in the C
// code or at the Rust<->C boundary (output buffer size, dictionary pointer / length, input cursor)
// ends the process with an ASan report (exit 77), which the driver turns into a violation. The
// functional oracles of the normal profiles stay on.

/// One compressed stream of a scenario with what it should decode to.
struct StreamRef {
    what: String,
    stream: Vec<u8>,
    dict: Option<Vec<u8>>,
    plain: Vec<u8>,
    max_len: u32,
}

fn streams_of(sc: &Scenario) -> Vec<StreamRef> {
    let base = tables_of(&sc.font);
    let mut v = vec![];
    for (u, p) in &sc.patches {
        match p {
            PatchModel::Gk { spec, bytes } => {
                if bytes.len() >= GK_HEADER_LEN {
                    v.push(StreamRef {
                        what: format!("{u}:glyph-keyed"),
                        stream: bytes[GK_HEADER_LEN..].to_vec(),
                        dict: None,
                        plain: gk_payload(spec),
                        max_len: u32::from_be_bytes(bytes[GK_HEADER_LEN - 4..GK_HEADER_LEN].try_into().unwrap()),
                    });
                }
            }
            PatchModel::Tk { entries, plains, .. } => {
                for (e, pl) in entries.iter().zip(plains) {
                    let Some(pl) = pl else { continue };
                    if e.flags & 2 != 0 {
                        continue;
                    }
                    let dict = if e.flags & 1 == 0 { base.get(&e.tag).cloned() } else { None };
                    v.push(StreamRef {
                        what: format!("{u}:table-keyed:{}:{}", tag_str(&e.tag), if e.flags & 1 == 0 { "diff" } else { "replace" }),
                        stream: e.stream.clone(),
                        dict,
                        plain: pl.clone(),
                        max_len: e.max_len,
                    });
                }
            }
        }
    }
    v
}

fn corrupt_stream(rng: &mut Rng, st: &mut Vec<u8>) -> &'static str {
    match rng.below(6) {
        0 | 1 if !st.is_empty() => {
            for _ in 0..1 + rng.usize(3) {
                let p = rng.usize(st.len());
                st[p] ^= 1 << rng.usize(8);
            }
            "bitflip"
        }
        2 if !st.is_empty() => {
            let p = rng.usize(st.len());
            st.truncate(p);
            "truncate"
        }
        3 if !st.is_empty() => {
            let p = rng.usize(st.len());
            let k = (1 + rng.usize(8)).min(st.len() - p);
            let fill = rng.bytes(k);
            let ff = rng.bool();
            for (i, b) in st[p..p + k].iter_mut().enumerate() {
                *b = if ff { 0xff } else { fill[i] };
            }
            "overwrite"
        }
        4 if st.len() > 4 => {
            // repeat a chunk of the stream in place
            let a = rng.usize(st.len() - 2);
            let k = 1 + rng.usize((st.len() - a).min(32));
            let chunk = st[a..a + k].to_vec();
            let at = rng.usize(st.len());
            for (i, b) in chunk.into_iter().enumerate() {
                st.insert(at + i, b);
            }
            "duplicate-chunk"
        }
        _ => {
            let k = 1 + rng.usize(8);
            let extra = rng.bytes(k);
            st.extend(extra);
            "append"
        }
    }
}

/// Direct calls of the public decoder: size grid, truncations, corruptions, dictionary variants.
fn run_decoder_direct(ctx: &mut Ctx, sc: &Scenario, rng: &mut Rng) {
    use shared_brotli_patch_decoder::{BuiltInBrotliDecoder, SharedBrotliDecoder};
    let mut streams = streams_of(sc);
    rng.shuffle(&mut streams);
    streams.truncate(5);
    let cj = |s: &StreamRef, what: &str, max: usize| json!({"scenario_index": sc.index, "stream": s.what, "stream_len": s.stream.len(), "plain_len": s.plain.len(), "dict_len": s.dict.as_ref().map(|d| d.len()), "case": what, "max_uncompressed_length": max});
    let dec = |ctx: &mut Ctx, s: &StreamRef, what: &str, stream: &[u8], dict: Option<&[u8]>, max: usize| -> Option<Result<Vec<u8>, String>> {
        ctx.eval();
        ctx.count("direct_decodes", 1);
        let r = ctx.run_case(&|| format!("scenario {} direct {} {what} max={max}", sc.index, s.what), Some(stream), &|| BuiltInBrotliDecoder.decode(stream, dict, max));
        match r {
            Err(p) => {
                ctx.judge_panic(&p, "BuiltInBrotliDecoder::decode", cj(s, what, max), Some(stream));
                None
            }
            Ok(Ok(v)) => {
                if v.len() > max {
                    ctx.violation(&format!("decoder:output-longer-than-max:{what}"), cj(s, what, max), Some(stream));
                }
                ctx.count(&format!("direct:{what}:ok"), 1);
                Some(Ok(v))
            }
            Ok(Err(e)) => {
                ctx.count(&format!("direct:{what}:err"), 1);
                ctx.label("direct_errors", &format!("{what} -> {e:?}"));
                Some(Err(format!("{e:?}")))
            }
        }
    };
    for s in &streams {
        let len = s.plain.len();
        let dict = s.dict.as_deref();
        let compressed = s.stream.len() < len;
        if compressed {
            ctx.count("direct_streams_compressed", 1);
        }
        if dict.map(|d| !d.is_empty()).unwrap_or(false) {
            ctx.count("direct_streams_with_dictionary", 1);
        }
        // adequate sizes: the plain text, exactly
        let mut sizes = vec![len, len + 1, len + 1 + rng.usize(200)];
        if rng.chance(1, 6) {
            sizes.push(asan_big_max(rng, len) as usize);
        }
        let mut all_ok = true;
        for max in sizes {
            match dec(ctx, s, "adequate-size", &s.stream, dict, max) {
                Some(Ok(v)) if v == s.plain => {}
                Some(other) => {
                    all_ok = false;
                    ctx.violation(
                        "decoder:valid-stream-not-decoded-to-its-plain-text",
                        json!({"case": cj(s, "adequate-size", max), "got": other.map(|v| format!("Ok({} bytes, digest {:016x})", v.len(), vf_core::fnv64(&v)))}),
                        Some(&s.stream),
                    );
                }
                None => all_ok = false,
            }
        }
        if all_ok {
            let mut d = Digest::new();
            d.u64(sc.digest);
            d.str(&s.what);
            d.str("direct");
            ctx.nontrivial(d.finish());
        }
        // too small: must fail, and must not write past the buffer
        if len > 0 {
            let mut smalls = vec![0usize, len - 1, len / 2];
            smalls.push(rng.usize(len));
            smalls.dedup();
            for max in smalls {
                if let Some(Ok(v)) = dec(ctx, s, "size-too-small", &s.stream, dict, max) {
                    ctx.violation("decoder:size-too-small-accepted", json!({"case": cj(s, "size-too-small", max), "got_len": v.len()}), Some(&s.stream));
                }
            }
        }
        // truncations
        let n = s.stream.len();
        let cuts: Vec<usize> = if n <= 40 { (0..n).collect() } else { (0..20).map(|_| rng.usize(n)).chain(n - 6..n).collect() };
        for c in cuts {
            if let Some(Ok(_)) = dec(ctx, s, "truncated", &s.stream[..c], dict, s.max_len as usize) {
                ctx.count("direct_truncated_stream_decoded", 1);
            }
        }
        // corruptions, with the right / no / a wrong dictionary
        for k in 0..16 {
            let mut st = s.stream.clone();
            let kind = corrupt_stream(rng, &mut st);
            let wrong: Option<Vec<u8>> = match (k % 4, dict) {
                (1, _) => None,
                (2, Some(d)) if d.len() > 1 => Some(d[..rng.usize(d.len())].to_vec()),
                (3, _) => {
                    let k = rng.usize(300);
                    Some(rng.bytes(k))
                }
                (_, d) => d.map(|d| d.to_vec()),
            };
            let max = if rng.chance(1, 4) { len / 2 } else { s.max_len as usize };
            let _ = dec(ctx, s, &format!("corrupt-{kind}"), &st, wrong.as_deref(), max.min(16 << 20));
        }
        // the pristine stream with another dictionary
        if let Some(d) = dict {
            if !d.is_empty() {
                let _ = dec(ctx, s, "dictionary-missing", &s.stream, None, s.max_len as usize);
                let _ = dec(ctx, s, "dictionary-shortened", &s.stream, Some(&d[..d.len() / 2]), s.max_len as usize);
                let mut d2 = d.to_vec();
                let k = 1 + rng.usize(40);
                d2.extend(rng.bytes(k));
                let _ = dec(ctx, s, "dictionary-extended", &s.stream, Some(&d2), s.max_len as usize);
            }
        }
    }
}

/// Corrupted / re-sized compressed streams through the whole client (group API), fault-free and
/// with a decoder fault injected: Err must leave the bookkeeping untouched; a larger advertised
/// length must not change the result; a smaller one must be rejected.
fn run_stream_fuzz(ctx: &mut Ctx, sc: &Scenario, rng: &mut Rng) {
    let st0 = initial_state(sc, rng);
    let Ok(fr) = FontRef::new(&sc.font) else { return };
    let Ok(group) = PatchGroup::select_next_patches(fr, &SubsetDefinition::all()) else { return };
    let uris: Vec<String> = group.uris().map(|s| s.to_string()).collect();
    drop(group);
    if uris.is_empty() {
        return;
    }
    let Some(first) = st0.info(&uris[0]) else { return };
    let victims: Vec<String> = if first.kind.is_tk() {
        vec![uris[0].clone()]
    } else {
        uris.iter().filter(|u| st0.info(u).map(|i| i.kind == Kind::Gk).unwrap_or(false)).cloned().collect()
    };
    if victims.is_empty() {
        return;
    }
    let all_streams = streams_of(sc);
    // the unmodified application, for comparison
    let dec0 = FaultyDecoder::new(true, None);
    let mut map0 = clone_map(&st0.map);
    ctx.eval();
    let pristine = match apply_group(ctx, &sc.font, &mut map0, &dec0, &format!("scenario {} asan pristine", sc.index)) {
        Some(Ok(r)) => r,
        Some(Err(p)) => {
            ctx.judge_panic(&p, "apply_next_patches_with_decoder (asan pristine)", case_json(sc, json!({})), Some(&sc.font));
            return;
        }
        None => return,
    };
    let n_calls = dec0.calls.get();
    ctx.count("asan_pristine_decoder_calls", n_calls as u64);
    for v in 0..10 {
        let victim = rng.pick(&victims).clone();
        let Some(compat) = compat_of(sc, &victim) else { continue };
        let kind = rng.below(9);
        // (mutated patch, name, plain length of the touched stream, new max_len)
        let m: Option<(Vec<u8>, String, usize, u32)> = match &sc.patches[&victim] {
            PatchModel::Gk { spec, bytes } => {
                let plain_len = gk_payload(spec).len();
                let mut stream = bytes[GK_HEADER_LEN..].to_vec();
                let mut max = u32::from_be_bytes(bytes[GK_HEADER_LEN - 4..GK_HEADER_LEN].try_into().unwrap());
                let name = mutate_stream(rng, kind, &mut stream, &mut max, plain_len, &all_streams, None);
                name.map(|n| (gk_patch(b"ifgk", spec.wide, compat, max, &stream), format!("gk:{n}"), plain_len, max))
            }
            PatchModel::Tk { entries, plains, .. } => {
                let cand: Vec<usize> = (0..entries.len()).filter(|i| entries[*i].flags & 2 == 0 && plains[*i].is_some() && !entries[..*i].iter().any(|p| p.tag == entries[*i].tag)).collect();
                if cand.is_empty() {
                    None
                } else {
                    let i = *rng.pick(&cand);
                    let mut es = entries.clone();
                    let plain_len = plains[i].as_ref().map(|p| p.len()).unwrap_or(0);
                    let (mut stream, mut max, mut flags) = (es[i].stream.clone(), es[i].max_len, es[i].flags);
                    let name = mutate_stream(rng, kind, &mut stream, &mut max, plain_len, &all_streams, Some(&mut flags));
                    es[i].stream = stream;
                    es[i].max_len = max;
                    es[i].flags = flags;
                    name.map(|n| (tk_patch(b"iftk", compat, &es), format!("tk:{n}"), plain_len, max))
                }
            }
        };
        let Some((bad, name, plain_len, new_max)) = m else { continue };
        let fault = if rng.chance(1, 3) && n_calls > 0 {
            let all: Vec<Fault> = ERROR_FAULTS.iter().chain(OUTPUT_FAULTS.iter()).copied().collect();
            Some((rng.usize(n_calls), *rng.pick(&all)))
        } else {
            None
        };
        let mut map = clone_map(&st0.map);
        map.insert(victim.clone(), UriStatus::Pending(bad.clone()));
        let snapshot = clone_map(&map);
        let dec = FaultyDecoder::new(true, fault);
        ctx.eval();
        let Some(r) = apply_group(ctx, &sc.font, &mut map, &dec, &format!("scenario {} asan {name}", sc.index)) else { continue };
        let cj = json!({"variant": name, "victim": victim, "group": uris, "bad_patch_len": bad.len(), "plain_len": plain_len, "max_uncompressed_length": new_max,
                        "injected_fault": fault.map(|(k, f)| format!("{}@{k}", f.name()))});
        let r = match r {
            Ok(r) => r,
            Err(p) => {
                ctx.judge_panic(&p, &format!("apply_next_patches_with_decoder (asan {name})"), case_json(sc, cj), Some(&bad));
                continue;
            }
        };
        ctx.count(&format!("asan_fuzz:{name}:{}", if r.is_ok() { "ok" } else { "err" }), 1);
        if fault.is_some() {
            ctx.count("asan_fuzz_with_injected_fault", 1);
        }
        if dec.calls.get() > 0 {
            let mut d = Digest::new();
            d.u64(sc.digest);
            d.u64(v);
            d.str(&name);
            ctx.nontrivial(d.finish());
        }
        match &r {
            Err(e) => {
                ctx.label("asan_fuzz_errors", &format!("{name} -> {}", format!("{e:?}").chars().take(60).collect::<String>()));
                if let Some(df) = map_diff(&snapshot, &map) {
                    ctx.violation(&sig(&format!("asan:bookkeeping-changed-on-error:{name}"), sc, "group"), case_json(sc, json!({"case": cj, "diff": df})), Some(&bad));
                }
            }
            Ok(_) if fault.is_none() && name.ends_with("max-length-smaller") && (new_max as usize) < plain_len => {
                ctx.violation(&sig(&format!("asan:accepted:{name}"), sc, "group"), case_json(sc, cj.clone()), Some(&bad));
            }
            Ok(_) => {}
        }
        if fault.is_none() && name.ends_with("max-length-larger") {
            let same = match (&pristine, &r) {
                (Ok(a), Ok(b)) => a == b,
                (Err(_), Err(_)) => true,
                _ => false,
            };
            ctx.count("asan_larger_max_length_compared", 1);
            if !same {
                ctx.violation(&sig(&format!("asan:result-changed-by:{name}"), sc, "group"), case_json(sc, cj), Some(&bad));
            }
        }
    }
}

/// One mutation of a (stream, max_uncompressed_length, flags) triple; None if not applicable.
fn mutate_stream(rng: &mut Rng, kind: u64, stream: &mut Vec<u8>, max: &mut u32, plain_len: usize, all: &[StreamRef], flags: Option<&mut u8>) -> Option<String> {
    Some(match kind {
        0..=3 => format!("stream-{}", corrupt_stream(rng, stream)),
        4 => {
            if plain_len == 0 {
                return None;
            }
            let r = rng.usize(plain_len);
            *max = *rng.pick(&[0usize, plain_len - 1, plain_len / 2, r]) as u32;
            "max-length-smaller".into()
        }
        5 => {
            *max = asan_big_max(rng, (*max as usize).max(plain_len));
            "max-length-larger".into()
        }
        6 => {
            // a valid stream of another patch / table (other content, maybe other dictionary)
            let o = rng.pick(all);
            if o.stream == *stream {
                return None;
            }
            *stream = o.stream.clone();
            "stream-of-another-entry".into()
        }
        7 => match flags {
            // replace <-> diff: the decoder gets / loses the shared dictionary
            Some(f) => {
                *f ^= 1;
                "dictionary-toggled".into()
            }
            None => {
                stream.clear();
                "stream-empty".into()
            }
        },
        _ => {
            // both at once: corrupt stream and a large output buffer
            let k = corrupt_stream(rng, stream);
            *max = asan_big_max(rng, plain_len);
            format!("stream-{k}+max-length-large")
        }
    })
}

/// Harness sanity: the C encoder wrapper and the decoder agree on a few vectors.
fn asan_encoder_selfcheck(ctx: &mut Ctx) -> bool {
    use shared_brotli_patch_decoder::{BuiltInBrotliDecoder, SharedBrotliDecoder};
    let mut rng = Rng::derive(1, "c18-asan-selfcheck", 0);
    let base = enc::structured_bytes(&mut rng, 5000, None);
    let mut ok = true;
    for (len, with_dict, q, w) in [(0usize, false, 5u32, 16u32), (1, false, 0, 10), (300, true, 11, 22), (70_000, true, 1, 10), (200_000, false, 9, 24), (3000, true, 2, 11)] {
        let plain = enc::structured_bytes(&mut rng, len, with_dict.then_some(&base[..]));
        let dict = with_dict.then_some(&base[..]);
        let Some(st) = enc::brotli_compress(&plain, dict, q, w) else {
            ctx.inconclusive(format!("harness: C brotli encoder refused len={len} q={q} lgwin={w}"));
            ok = false;
            continue;
        };
        match vf_core::guard(|| BuiltInBrotliDecoder.decode(&st, dict, len)) {
            Ok(Ok(v)) if v == plain => ctx.count("asan_encoder_selfcheck_ok", 1),
            other => {
                ctx.inconclusive(format!("harness: encoder self-check failed len={len} q={q} lgwin={w}: {:?}", other.map(|r| r.map(|v| v.len())).map_err(|p| p.msg)));
                ok = false;
            }
        }
    }
    ok
}

fn asan_slice(ctx: &mut Ctx, _args: &Args) {
    enc::set_compress_mode(true);
    ctx.rule = "asan slice: non-trivial = an application through the real C brotli decoder that changed >= 1 glyph / table (digest of font+patches+round), \
                a decoder fault injected at a call the fault-free run really made, a corrupted / re-sized compressed stream that reached the C decoder \
                through the group API (digest + variant), or a compressed stream decoded directly to exactly its plain text for every adequate buffer size"
        .into();
    ctx.assumptions = vec![
        "asan slice: the binary, the IFT client and the C brotli library (brotlic-sys, CC=clang -fsanitize=address) are ASan-instrumented; a report ends the process (exit 77) and is turned into a violation by the driver".into(),
        "streams are produced by the C brotli ENCODER of the same library (qualities 0-11, windows 2^10-2^24, raw shared dictionary = the base table for table-keyed diff entries), 1 in 8 as stored meta-blocks, plus the repo's shared-dictionary test vector".into(),
        "max_uncompressed_length is capped at 16 MiB in generated patches".into(),
        "glyph data is opaque to the patcher; payloads are compressible synthetic bytes".into(),
    ];
    if !asan_encoder_selfcheck(ctx) {
        return;
    }
    let thorough = ctx.tier.is_thorough();
    let total = ctx.tier.pick(260, 3000);
    let seed = ctx.seed;
    for i in 0..total {
        // (the two 16 MB flavours of the normal profiles are left out: too slow under ASan)
        if !ctx.mine(i) || i % 397 == 5 {
            continue;
        }
        let sc = gen_scenario(seed, i, thorough);
        let mut rng = Rng::derive(seed, "c18-asan", i as u64);
        ctx.label("flavours", &sc.flavour);
        ctx.label("decoder", "BuiltInBrotliDecoder (C brotli, ASan-instrumented)");
        ctx.count("asan_scenarios", 1);
        run_history(ctx, &sc, &mut rng);
        run_malformed(ctx, &sc, &mut rng);
        run_stream_fuzz(ctx, &sc, &mut rng);
        run_decoder_direct(ctx, &sc, &mut rng);
    }
    // decoded sizes around 64 KiB / 1 MiB / 2 MiB / 4 MiB (subset: ASan is slow)
    for j in [2usize, 3, 4, 5, 8, 11, 12, 13] {
        if ctx.mine(j) {
            run_threshold(ctx, seed, j);
        }
    }
    ctx.level = "exploration".into();
}

// ---------------------------------------------------------------- entry point

pub fn run(ctx: &mut Ctx, args: &Args) {
    if args.profile == "asan" {
        return asan_slice(ctx, args);
    }
    ctx.rule = "non-trivial = a patch application that changed >= 1 glyph's bytes or >= 1 table (digest of font+patches+round), \
                a decoder fault injected at a call the fault-free run really made (digest + k + fault kind), \
                an order/partition set with >= 2 completed sequences that changed glyph data, \
                or a rejected stale-compat-id application"
        .into();
    ctx.assumptions = vec![
        "glyph data is opaque to the patcher: generated glyf/gvar/charstring payloads are random bytes".into(),
        "CFF/CFF2 base tables reuse the non-charstrings prefix of font-test-data's NotoSansJP subsets; charstrings INDEX is generated".into(),
        "real C brotli is driven with stored (uncompressed meta-block) streams plus the repo's known shared-dictionary vector; other runs use NoopBrotliDecoder streams".into(),
        "decoded-size family: 16 scenarios whose streams are compressed by the C brotli encoder (with / without raw shared dictionary) and decode to 64 KiB / 1 MiB / 2 MiB / 4 MiB -1/0/+1 bytes of position-stamped content".into(),
        "mapping entries are wildcard entries (empty subset definition), selected with SubsetDefinition::all()".into(),
    ];
    let thorough = ctx.tier.is_thorough();
    // VF_C18_DIRECTED_ONLY=1: only the hand-built corner cases (reproducers of the known findings)
    let directed_only = std::env::var("VF_C18_DIRECTED_ONLY").is_ok();
    let total = if directed_only { 0 } else { ctx.tier.pick(16 * 2400, 16 * 24000) };
    let seed = ctx.seed;
    for i in 0..total {
        if !ctx.mine(i) {
            continue;
        }
        let sc = gen_scenario(seed, i, thorough);
        let mut rng = Rng::derive(seed, "c18-drive", i as u64);
        ctx.label("flavours", &sc.flavour);
        ctx.label("decoder", if sc.real { "BuiltInBrotliDecoder (C brotli)" } else { "NoopBrotliDecoder" });
        ctx.label("map_formats", &format!("IFT=f{}", sc.ift.as_ref().map(|m| m.spec.format).unwrap_or(0)));
        if let Some(m) = &sc.iftx {
            ctx.label("map_formats", &format!("IFTX=f{}", m.spec.format));
        }
        run_history(ctx, &sc, &mut rng);
        run_orders(ctx, &sc, &mut rng);
        run_malformed(ctx, &sc, &mut rng);
        run_stale_info(ctx, &sc, &mut rng);
    }
    // decoded-size thresholds through the real C decoder: one scenario per shard (shard 0 has the directed ones)
    if !directed_only {
        for j in 0..N_THRESHOLD_SCENARIOS {
            if ctx.mine(j + 1) {
                ctx.label("decoder", "BuiltInBrotliDecoder (C brotli)");
                run_threshold(ctx, seed, j);
            }
        }
    }
    if ctx.mine(0) {
        for sc in directed_scenarios() {
            let mut rng = Rng::derive(seed, "c18-directed", sc.index as u64);
            ctx.label("flavours", &sc.flavour);
            run_history(ctx, &sc, &mut rng);
            run_orders(ctx, &sc, &mut rng);
            run_malformed(ctx, &sc, &mut rng);
            run_stale_info(ctx, &sc, &mut rng);
        }
    }
    // Fault enumeration (k x kind, exhaustive per application) is one of four
    // drivers; most evaluations are order/partition and exploration runs.
    ctx.level = "exploration".into();
}
