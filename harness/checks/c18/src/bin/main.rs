fn main() {
    vf_core::main_with("C18", vf_c18::run, vf_c18::REPLAY);
}
