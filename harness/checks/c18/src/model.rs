//! Reference side: independent parsers for the per-glyph data arrays
//! (glyf/loca, gvar, CFF/CFF2 charstrings) and the reference patcher that says
//! what a patched font must look like.

use crate::build::*;
use std::collections::{BTreeMap, BTreeSet};

pub type Tables = BTreeMap<Tag4, Vec<u8>>;

pub fn tables_of(font: &[u8]) -> Tables {
    vf_core::gen::split_tables(font).into_iter().collect()
}

fn be16(b: &[u8], p: usize) -> Option<usize> {
    Some(u16::from_be_bytes(b.get(p..p + 2)?.try_into().ok()?) as usize)
}
fn be32(b: &[u8], p: usize) -> Option<usize> {
    Some(u32::from_be_bytes(b.get(p..p + 4)?.try_into().ok()?) as usize)
}
fn be_n(b: &[u8], p: usize, n: usize) -> Option<usize> {
    let s = b.get(p..p + n)?;
    Some(s.iter().fold(0usize, |a, x| (a << 8) | *x as usize))
}

/// The per-glyph view of one table.
#[derive(Clone, Debug, PartialEq, Eq)]
pub struct GlyphArr {
    /// bytes per stored offset (2 = divided-by-two short offsets for glyf/gvar)
    pub width: usize,
    pub items: Vec<Vec<u8>>,
    /// table bytes that are not offsets or glyph data (must survive patching)
    pub meta: Vec<(String, Vec<u8>)>,
}

impl GlyphArr {
    pub fn total(&self) -> usize {
        self.items.iter().map(|i| i.len()).sum()
    }
}

fn slice_items(offsets: &[usize], data: &[u8], what: &str, bias: usize) -> Result<Vec<Vec<u8>>, String> {
    let mut items = vec![];
    if offsets.first().copied() != Some(bias) {
        return Err(format!("{what}: first offset {:?} != {bias}", offsets.first()));
    }
    for w in offsets.windows(2) {
        if w[1] < w[0] {
            return Err(format!("{what}: offsets not ascending ({} > {})", w[0], w[1]));
        }
        let Some(s) = data.get(w[0] - bias..w[1] - bias) else {
            return Err(format!("{what}: offset {} beyond data length {}", w[1], data.len()));
        };
        items.push(s.to_vec());
    }
    let last = offsets.last().copied().unwrap_or(bias) - bias;
    if last != data.len() {
        return Err(format!("{what}: last offset {last} != data length {}", data.len()));
    }
    Ok(items)
}

pub fn num_glyphs(t: &Tables) -> Result<usize, String> {
    let maxp = t.get(b"maxp").ok_or("no maxp")?;
    be16(maxp, 4).ok_or_else(|| "short maxp".to_string())
}

pub fn glyf_arr(t: &Tables) -> Result<GlyphArr, String> {
    let n = num_glyphs(t)?;
    let head = t.get(&HEAD).ok_or("no head")?;
    let fmt = be16(head, 50).ok_or("short head")?;
    let loca = t.get(&LOCA).ok_or("no loca")?;
    let glyf = t.get(&GLYF).ok_or("no glyf")?;
    let width = if fmt == 0 { 2 } else { 4 };
    if loca.len() != (n + 1) * width {
        return Err(format!("loca: length {} != (numGlyphs+1)*{width}", loca.len()));
    }
    let offs: Vec<usize> = (0..=n)
        .map(|i| if width == 2 { be16(loca, i * 2).unwrap() * 2 } else { be32(loca, i * 4).unwrap() })
        .collect();
    let items = slice_items(&offs, glyf, "glyf/loca", 0)?;
    Ok(GlyphArr { width, items, meta: vec![] })
}

pub fn gvar_arr(t: &Tables) -> Result<GlyphArr, String> {
    let g = t.get(&GVAR).ok_or("no gvar")?;
    let axis = be16(g, 4).ok_or("short gvar")?;
    let stc = be16(g, 6).ok_or("short gvar")?;
    let sto = be32(g, 8).ok_or("short gvar")?;
    let gc = be16(g, 12).ok_or("short gvar")?;
    let flags = be16(g, 14).ok_or("short gvar")?;
    let dao = be32(g, 16).ok_or("short gvar")?;
    let long = flags & 1 == 1;
    let width = if long { 4 } else { 2 };
    let mut offs = vec![];
    for i in 0..=gc {
        let o = if long { be32(g, 20 + i * 4) } else { be16(g, 20 + i * 2).map(|v| v * 2) };
        offs.push(o.ok_or("gvar: offsets array beyond table")?);
    }
    let data = g.get(dao..).ok_or("gvar: data array offset beyond table")?;
    // the data array runs to the end of the table unless the tuples follow it
    let tuples_len = stc * axis * 2;
    let tuples = g.get(sto..sto + tuples_len).ok_or("gvar: shared tuples beyond table")?.to_vec();
    let data = if sto >= dao && tuples_len > 0 { &g[dao..sto] } else { data };
    // When no glyph has variation data the patcher writes one zero padding byte as the data array (a zero
    // length object cannot be packed and linked to; /repo 5a3cd3a). No offset refers to it: not glyph data.
    let data = if offs.last() == Some(&0) && data == [0u8] { &data[..0] } else { data };
    let items = slice_items(&offs, data, "gvar", 0)?;
    let meta = vec![
        ("gvar.version+axisCount+sharedTupleCount".to_string(), g[0..8].to_vec()),
        ("gvar.glyphCount".to_string(), g[12..14].to_vec()),
        ("gvar.flags&~1".to_string(), ((flags & !1) as u16).to_be_bytes().to_vec()),
        ("gvar.sharedTuples".to_string(), tuples),
    ];
    Ok(GlyphArr { width, items, meta })
}

fn cff_arr_inner(tbl: &[u8], prefix: usize, count_width: usize, what: &str) -> Result<GlyphArr, String> {
    let idx = tbl.get(prefix..).ok_or(format!("{what}: charstrings offset beyond table"))?;
    let count = be_n(idx, 0, count_width).ok_or(format!("{what}: short INDEX"))?;
    let off_size = *idx.get(count_width).ok_or(format!("{what}: short INDEX"))? as usize;
    if !(1..=4).contains(&off_size) {
        return Err(format!("{what}: offSize {off_size}"));
    }
    let ostart = count_width + 1;
    let mut offs = vec![];
    for i in 0..=count {
        offs.push(be_n(idx, ostart + i * off_size, off_size).ok_or(format!("{what}: offsets beyond table"))?);
    }
    let data = &idx[ostart + (count + 1) * off_size..];
    let items = slice_items(&offs, data, what, 1)?;
    let meta = vec![
        (format!("{what}.prefix"), tbl[..prefix].to_vec()),
        (format!("{what}.count"), idx[..count_width].to_vec()),
    ];
    Ok(GlyphArr { width: off_size, items, meta })
}

pub fn cff_arr(t: &Tables) -> Result<GlyphArr, String> {
    cff_arr_inner(t.get(&CFF).ok_or("no CFF")?, cff_prefix_len(), 2, "CFF")
}
pub fn cff2_arr(t: &Tables) -> Result<GlyphArr, String> {
    cff_arr_inner(t.get(&CFF2).ok_or("no CFF2")?, cff2_prefix_len(), 4, "CFF2")
}

pub fn arr_for(t: &Tables, tag: &Tag4) -> Result<GlyphArr, String> {
    match tag {
        b"glyf" => glyf_arr(t),
        b"gvar" => gvar_arr(t),
        b"CFF " => cff_arr(t),
        b"CFF2" => cff2_arr(t),
        _ => Err("not a glyph array table".into()),
    }
}

pub fn is_glyph_table(tag: &Tag4) -> bool {
    matches!(tag, b"glyf" | b"gvar" | b"CFF " | b"CFF2")
}

/// Largest total data size representable with `width`-byte offsets.
pub fn max_total(tag: &Tag4, width: usize) -> usize {
    match tag {
        b"glyf" | b"gvar" => {
            if width == 2 {
                65535 * 2
            } else {
                u32::MAX as usize
            }
        }
        _ => (1usize << (8 * width)) - 1 - 1,
    }
}

fn divided(tag: &Tag4, width: usize) -> bool {
    matches!(tag, b"glyf" | b"gvar") && width == 2
}

#[derive(Clone, Debug, Default)]
pub struct Obs {
    pub glyphs_replaced: usize,
    pub glyphs_changed: usize,
    pub glyphs_kept: usize,
    pub widenings: Vec<String>,
    pub padded: usize,
    pub dup_first_wins: usize,
    pub dup_other_wins: usize,
    pub tables_patched: Vec<String>,
}

#[derive(Clone, Debug)]
pub struct Finding {
    pub what: String,
    pub detail: String,
}

fn f(what: &str, detail: String) -> Finding {
    Finding { what: what.to_string(), detail }
}

/// Candidates (in application order) for every (table, gid).
pub fn candidates<'a>(patches: &[&'a GkSpec]) -> BTreeMap<Tag4, BTreeMap<u32, Vec<&'a [u8]>>> {
    let mut m: BTreeMap<Tag4, BTreeMap<u32, Vec<&[u8]>>> = BTreeMap::new();
    for p in patches {
        for (ti, tag) in p.tables.iter().enumerate() {
            let e = m.entry(*tag).or_default();
            for (gi, gid) in p.gids.iter().enumerate() {
                e.entry(*gid).or_default().push(&p.data[ti][gi]);
            }
        }
    }
    m
}

/// Would applying the patches (first candidate wins) overflow the base offset
/// width of `tag`? Returns (padded total in the base width, fits).
pub fn fits_base(base: &GlyphArr, tag: &Tag4, cands: &BTreeMap<u32, Vec<&[u8]>>) -> (usize, bool) {
    let div = divided(tag, base.width);
    let mut total = 0usize;
    for (g, it) in base.items.iter().enumerate() {
        match cands.get(&(g as u32)) {
            Some(c) => {
                let l = c[0].len();
                total += l + if div { l % 2 } else { 0 };
            }
            None => total += it.len(),
        }
    }
    (total, total <= max_total(tag, base.width))
}

/// True when the reference model allows (in fact requires) an error: the only
/// such case for well-formed input is glyf/loca outgrowing its offset width.
pub fn glyf_overflow(base: &Tables, patches: &[&GkSpec]) -> bool {
    let c = candidates(patches);
    if let (Some(cg), Ok(arr)) = (c.get(&GLYF), glyf_arr(base)) {
        return !fits_base(&arr, &GLYF, cg).1;
    }
    false
}

/// The patches list gvar and the patched gvar would hold no glyph data at all.
pub fn gvar_result_empty(base: &Tables, patches: &[&GkSpec]) -> bool {
    let c = candidates(patches);
    if let (Some(cg), Ok(arr)) = (c.get(&GVAR), gvar_arr(base)) {
        return fits_base(&arr, &GVAR, cg).0 == 0;
    }
    false
}

pub fn expected_map_bytes(base: &[u8], bits: &[usize]) -> Vec<u8> {
    let mut v = base.to_vec();
    for b in bits {
        if let Some(x) = v.get_mut(b / 8) {
            *x |= 1 << (b % 8);
        }
    }
    v
}

pub fn tables_equal_mod_head(tag: &Tag4, a: &[u8], b: &[u8]) -> bool {
    if tag == &HEAD && a.len() >= 12 && a.len() == b.len() {
        a[..8] == b[..8] && a[12..] == b[12..]
    } else {
        a == b
    }
}

/// Compare whole fonts table by table (head.checkSumAdjustment excluded).
pub fn diff_fonts(a: &Tables, b: &Tables) -> Option<String> {
    let ka: Vec<_> = a.keys().collect();
    let kb: Vec<_> = b.keys().collect();
    if ka != kb {
        return Some("table sets differ".into());
    }
    for (tag, da) in a {
        if !tables_equal_mod_head(tag, da, &b[tag]) {
            return Some(format!("table {} differs", tag_str(tag)));
        }
    }
    None
}

pub struct GkCheck<'a> {
    pub base: &'a Tables,
    pub result: &'a Tables,
    /// patches in application order
    pub patches: &'a [&'a GkSpec],
    /// bit indices applied in IFT / IFTX
    pub ift_bits: &'a [usize],
    pub iftx_bits: &'a [usize],
    /// only frame conditions (decoder handed back truncated payloads)
    pub frame_only: bool,
}

pub fn check_gk(c: &GkCheck, obs: &mut Obs) -> Vec<Finding> {
    let mut out = vec![];
    let cands = candidates(c.patches);
    let mut touched: BTreeSet<Tag4> = BTreeSet::new();
    touched.insert(IFT);
    touched.insert(IFTX);
    for (tag, cg) in &cands {
        if !is_glyph_table(tag) {
            continue;
        }
        touched.insert(*tag);
        if tag == &GLYF {
            touched.insert(LOCA);
        }
        let base = match arr_for(c.base, tag) {
            Ok(a) => a,
            Err(e) => {
                out.push(f("harness-base-unparsable", e));
                continue;
            }
        };
        let res = match arr_for(c.result, tag) {
            Ok(a) => a,
            Err(e) => {
                out.push(f(&format!("{}:offsets-invalid", tag_str(tag)), e));
                continue;
            }
        };
        obs.tables_patched.push(tag_str(tag));
        if res.items.len() != base.items.len() {
            out.push(f(
                &format!("{}:glyph-count-changed", tag_str(tag)),
                format!("{} -> {}", base.items.len(), res.items.len()),
            ));
            continue;
        }
        for ((k, a), (_, b)) in base.meta.iter().zip(res.meta.iter()) {
            if a != b {
                out.push(f(&format!("{}:meta-changed:{k}", tag_str(tag)), format!("{} bytes vs {} bytes", a.len(), b.len())));
            }
        }
        let res_div = divided(tag, res.width);
        for (g, item) in res.items.iter().enumerate() {
            match cg.get(&(g as u32)) {
                None => {
                    obs.glyphs_kept += 1;
                    if item != &base.items[g] {
                        out.push(f(
                            &format!("{}:unlisted-glyph-changed", tag_str(tag)),
                            format!("gid {g}: base {} bytes, result {} bytes", base.items[g].len(), item.len()),
                        ));
                    }
                }
                Some(cs) if !c.frame_only => {
                    obs.glyphs_replaced += 1;
                    let matches = |cand: &[u8]| {
                        if res_div && cand.len() % 2 == 1 {
                            item.len() == cand.len() + 1 && item[..cand.len()] == *cand && item[cand.len()] == 0
                        } else {
                            item.as_slice() == cand
                        }
                    };
                    match cs.iter().position(|cand| matches(cand)) {
                        Some(0) => {
                            if cs.len() > 1 && cs.iter().any(|x| *x != cs[0]) {
                                obs.dup_first_wins += 1;
                            }
                        }
                        Some(_) => obs.dup_other_wins += 1,
                        None => out.push(f(
                            &format!("{}:listed-glyph-data-wrong", tag_str(tag)),
                            format!(
                                "gid {g}: result {} bytes {:02x?}.., patch data {} bytes {:02x?}.. (divided offsets: {res_div})",
                                item.len(),
                                &item[..item.len().min(8)],
                                cs[0].len(),
                                &cs[0][..cs[0].len().min(8)]
                            ),
                        )),
                    }
                    if res_div && cs[0].len() % 2 == 1 {
                        obs.padded += 1;
                    }
                    if item != &base.items[g] {
                        obs.glyphs_changed += 1;
                    }
                }
                Some(_) => {}
            }
        }
        if !c.frame_only {
            let (total, fits) = fits_base(&base, tag, cg);
            if fits && res.width != base.width {
                out.push(f(
                    &format!("{}:offset-width-changed-needlessly", tag_str(tag)),
                    format!("total {total} fits width {} but result width {}", base.width, res.width),
                ));
            }
            if !fits {
                if res.width <= base.width {
                    out.push(f(
                        &format!("{}:not-widened", tag_str(tag)),
                        format!("total {total} exceeds width {} yet result width {}", base.width, res.width),
                    ));
                } else {
                    obs.widenings.push(format!("{}:{}->{}", tag_str(tag), base.width, res.width));
                }
            }
        }
    }
    // mapping tables: exactly the applied bits
    for (tag, bits) in [(IFT, c.ift_bits), (IFTX, c.iftx_bits)] {
        match (c.base.get(&tag), c.result.get(&tag)) {
            (Some(b), Some(r)) => {
                let exp = expected_map_bytes(b, bits);
                if &exp != r {
                    let diff: Vec<usize> = (0..exp.len().max(r.len()) * 8)
                        .filter(|i| {
                            let x = exp.get(i / 8).map(|v| v >> (i % 8) & 1);
                            let y = r.get(i / 8).map(|v| v >> (i % 8) & 1);
                            x != y
                        })
                        .take(8)
                        .collect();
                    out.push(f(
                        &format!("{}:applied-bits-wrong", tag_str(&tag)),
                        format!("expected bits {bits:?} set on top of base; differing bit positions {diff:?}"),
                    ));
                }
            }
            (None, None) => {}
            _ => out.push(f(&format!("{}:mapping-table-added-or-dropped", tag_str(&tag)), String::new())),
        }
    }
    // everything else byte-identical
    for (tag, b) in c.base {
        if touched.contains(tag) {
            if !c.result.contains_key(tag) && (tag != &IFT && tag != &IFTX) {
                out.push(f(&format!("{}:patched-table-missing", tag_str(tag)), String::new()));
            }
            continue;
        }
        match c.result.get(tag) {
            None => out.push(f(&format!("other-table-dropped:{}", tag_str(tag)), String::new())),
            Some(r) => {
                if !tables_equal_mod_head(tag, b, r) {
                    out.push(f(&format!("other-table-changed:{}", tag_str(tag)), format!("{} vs {} bytes", b.len(), r.len())));
                }
            }
        }
    }
    for tag in c.result.keys() {
        if !c.base.contains_key(tag) {
            out.push(f(&format!("table-added:{}", tag_str(tag)), String::new()));
        }
    }
    out
}

#[derive(Clone, Debug, PartialEq, Eq)]
pub enum TkOutcome {
    Absent,
    Bytes(Vec<u8>),
}

/// Acceptable outcomes per tag for a table-keyed patch whose entries decode to
/// `decoded[i]` (None for dropped entries).
pub fn check_tk(
    base: &Tables,
    result: &Tables,
    entries: &[TkEntry],
    decoded: &[Option<Vec<u8>>],
) -> Vec<Finding> {
    let mut out = vec![];
    let mut accept: BTreeMap<Tag4, Vec<TkOutcome>> = BTreeMap::new();
    for (e, d) in entries.iter().zip(decoded) {
        let o = if e.flags & 2 != 0 { TkOutcome::Absent } else { TkOutcome::Bytes(d.clone().unwrap_or_default()) };
        accept.entry(e.tag).or_default().push(o);
    }
    for (tag, outs) in &accept {
        let actual = match result.get(tag) {
            None => TkOutcome::Absent,
            Some(b) => TkOutcome::Bytes(b.clone()),
        };
        let ok = outs.iter().any(|o| match (o, &actual) {
            (TkOutcome::Absent, TkOutcome::Absent) => true,
            (TkOutcome::Bytes(a), TkOutcome::Bytes(b)) => tables_equal_mod_head(tag, a, b),
            _ => false,
        });
        if !ok {
            let kind = match (&outs[0], &actual) {
                (TkOutcome::Absent, _) => "dropped-table-present",
                (_, TkOutcome::Absent) => "patched-table-missing",
                _ => "patched-table-wrong",
            };
            out.push(f(
                &format!("tk:{kind}:{}", tag_str(tag)),
                format!(
                    "expected {:?}, got {:?}",
                    match &outs[0] {
                        TkOutcome::Absent => "absent".to_string(),
                        TkOutcome::Bytes(b) => format!("{} bytes", b.len()),
                    },
                    match &actual {
                        TkOutcome::Absent => "absent".to_string(),
                        TkOutcome::Bytes(b) => format!("{} bytes", b.len()),
                    }
                ),
            ));
        }
    }
    for (tag, b) in base {
        if accept.contains_key(tag) {
            continue;
        }
        match result.get(tag) {
            None => out.push(f(&format!("tk:other-table-dropped:{}", tag_str(tag)), String::new())),
            Some(r) => {
                if !tables_equal_mod_head(tag, b, r) {
                    out.push(f(&format!("tk:other-table-changed:{}", tag_str(tag)), String::new()));
                }
            }
        }
    }
    for tag in result.keys() {
        if !base.contains_key(tag) && !accept.contains_key(tag) {
            out.push(f(&format!("tk:table-added:{}", tag_str(tag)), String::new()));
        }
    }
    out
}
