//! Fault-injecting, recording implementation of the public
//! `SharedBrotliDecoder` trait.

use shared_brotli_patch_decoder::decode_error::DecodeError;
use shared_brotli_patch_decoder::{BuiltInBrotliDecoder, NoopBrotliDecoder, SharedBrotliDecoder};
use std::cell::{Cell, RefCell};

#[derive(Clone, Copy, Debug, PartialEq, Eq)]
pub enum Fault {
    InitFailure,
    InvalidStream,
    InvalidDictionary,
    MaxSizeExceeded,
    ExcessInputData,
    IoError,
    /// Ok(..) with the last bytes cut off
    ShortOutput,
    /// Ok(..) with extra trailing bytes (longer than max_uncompressed_length)
    OversizedOutput,
}

pub const ERROR_FAULTS: [Fault; 6] = [
    Fault::InitFailure,
    Fault::InvalidStream,
    Fault::InvalidDictionary,
    Fault::MaxSizeExceeded,
    Fault::ExcessInputData,
    Fault::IoError,
];
pub const OUTPUT_FAULTS: [Fault; 2] = [Fault::ShortOutput, Fault::OversizedOutput];

impl Fault {
    pub fn name(self) -> &'static str {
        match self {
            Fault::InitFailure => "InitFailure",
            Fault::InvalidStream => "InvalidStream",
            Fault::InvalidDictionary => "InvalidDictionary",
            Fault::MaxSizeExceeded => "MaxSizeExceeded",
            Fault::ExcessInputData => "ExcessInputData",
            Fault::IoError => "IoError",
            Fault::ShortOutput => "ShortOutput",
            Fault::OversizedOutput => "OversizedOutput",
        }
    }
    pub fn is_error(self) -> bool {
        !matches!(self, Fault::ShortOutput | Fault::OversizedOutput)
    }
}

#[derive(Clone, Debug)]
pub struct CallRec {
    pub encoded_digest: u64,
    pub had_dict: bool,
    pub max_len: usize,
    /// what the wrapper handed back to the library
    pub output: Result<Vec<u8>, String>,
    pub injected: bool,
}

pub struct FaultyDecoder {
    pub real: bool,
    pub fail_at: Option<(usize, Fault)>,
    pub calls: Cell<usize>,
    pub injected: Cell<bool>,
    pub log: RefCell<Vec<CallRec>>,
}

impl FaultyDecoder {
    pub fn new(real: bool, fail_at: Option<(usize, Fault)>) -> Self {
        FaultyDecoder { real, fail_at, calls: Cell::new(0), injected: Cell::new(false), log: RefCell::new(vec![]) }
    }
}

impl SharedBrotliDecoder for FaultyDecoder {
    fn decode(
        &self,
        encoded: &[u8],
        shared_dictionary: Option<&[u8]>,
        max_uncompressed_length: usize,
    ) -> Result<Vec<u8>, DecodeError> {
        let k = self.calls.get();
        self.calls.set(k + 1);
        let inner = if self.real {
            BuiltInBrotliDecoder.decode(encoded, shared_dictionary, max_uncompressed_length)
        } else {
            NoopBrotliDecoder.decode(encoded, shared_dictionary, max_uncompressed_length)
        };
        let mut injected = false;
        let out = match self.fail_at {
            Some((at, fault)) if at == k => {
                injected = true;
                self.injected.set(true);
                match fault {
                    Fault::InitFailure => Err(DecodeError::InitFailure),
                    Fault::InvalidStream => Err(DecodeError::InvalidStream),
                    Fault::InvalidDictionary => Err(DecodeError::InvalidDictionary),
                    Fault::MaxSizeExceeded => Err(DecodeError::MaxSizeExceeded),
                    Fault::ExcessInputData => Err(DecodeError::ExcessInputData),
                    Fault::IoError => Err(DecodeError::IoError(std::io::ErrorKind::Other)),
                    Fault::ShortOutput => match inner {
                        Ok(mut v) => {
                            let cut = (v.len() / 3).max(1).min(v.len());
                            v.truncate(v.len() - cut);
                            Ok(v)
                        }
                        e => e,
                    },
                    Fault::OversizedOutput => match inner {
                        Ok(mut v) => {
                            let extra = max_uncompressed_length.saturating_sub(v.len()) + 5;
                            v.extend((0..extra).map(|i| 0xA5u8 ^ i as u8));
                            Ok(v)
                        }
                        e => e,
                    },
                }
            }
            _ => inner,
        };
        self.log.borrow_mut().push(CallRec {
            encoded_digest: vf_core::fnv64(encoded),
            had_dict: shared_dictionary.is_some(),
            max_len: max_uncompressed_length,
            output: out.clone().map_err(|e| format!("{e:?}")),
            injected,
        });
        out
    }
}
