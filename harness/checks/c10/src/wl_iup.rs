//! Oracle (i): `iup_delta_optimize` never marks a delta optional unless spec
//! inference from the retained (required) neighbours reproduces it within the
//! requested tolerance; every returned delta carries the (rounded) input value.

use crate::model::{infer, Frac};
use kurbo::{Point, Vec2};
use serde_json::json;
use vf_core::{guard, Ctx, Digest, Rng};
use write_fonts::tables::gvar::iup::iup_delta_optimize;
use write_fonts::tables::gvar::GlyphDelta;

/// One optimiser input. Deltas are in quarter units (exact in f64): the
/// delta handed to the library is `q / 4.0`.
#[derive(Clone, Debug)]
pub struct IupCase {
    /// all points, the 4 phantom points last
    pub coords: Vec<(i32, i32)>,
    pub deltas_q: Vec<(i32, i32)>,
    /// inclusive end index of every real contour
    pub ends: Vec<usize>,
    pub tol: f64,
}

impl IupCase {
    pub fn digest(&self) -> u64 {
        let mut d = Digest::new();
        for c in &self.coords {
            d.i64(c.0 as i64);
            d.i64(c.1 as i64);
        }
        d.u64(0xfeed);
        for c in &self.deltas_q {
            d.i64(c.0 as i64);
            d.i64(c.1 as i64);
        }
        d.u64(0xbeef);
        for e in &self.ends {
            d.u64(*e as u64);
        }
        d.u64(self.tol.to_bits());
        d.finish()
    }
    pub fn to_json(&self) -> serde_json::Value {
        if self.coords.len() <= 40 {
            json!({"coords": self.coords, "deltas_quarter_units": self.deltas_q, "contour_ends": self.ends, "tolerance": self.tol})
        } else {
            json!({"n_points": self.coords.len(), "contour_ends_n": self.ends.len(), "tolerance": self.tol, "digest": format!("{:016x}", self.digest())})
        }
    }
    /// contour ends including the four single-point phantom "contours"
    pub fn all_ends(&self) -> Vec<usize> {
        let n = self.coords.len();
        let mut v = self.ends.clone();
        for k in (1..=4).rev() {
            v.push(n - k);
        }
        v
    }
}

/// OpenType rounding (round half up) of q/4.
pub fn ot_round_q(q: i32) -> i32 {
    (q + 2).div_euclid(4)
}

/// Run the optimiser on a case and check the oracle. Returns the library's
/// output when it was usable.
pub fn check_iup(ctx: &mut Ctx, case: &IupCase, origin: &str) -> Option<Vec<GlyphDelta>> {
    ctx.eval();
    ctx.count("iup_calls", 1);
    let deltas: Vec<Vec2> = case
        .deltas_q
        .iter()
        .map(|d| Vec2::new(d.0 as f64 / 4.0, d.1 as f64 / 4.0))
        .collect();
    let coords: Vec<Point> = case
        .coords
        .iter()
        .map(|c| Point::new(c.0 as f64, c.1 as f64))
        .collect();
    let ends = case.ends.clone();
    let tol = case.tol;
    let r = guard(move || iup_delta_optimize(deltas, coords, tol, &ends));
    let out = match r {
        Err(p) => {
            ctx.judge_panic(&p, &format!("iup_delta_optimize ({})", origin), case.to_json(), None);
            return None;
        }
        Ok(Err(e)) => {
            // The optimiser refused a well-formed input. Not a statement of
            // the property (nothing was marked optional); recorded.
            ctx.count("iup_returned_error", 1);
            ctx.sample_by_kind("iup_error", json!({"error": format!("{:?}", e), "case": case.to_json()}));
            return None;
        }
        Ok(Ok(v)) => v,
    };
    let n = case.coords.len();
    if out.len() != n {
        ctx.violation(
            &format!("iup:output-length:{}:{:016x}", origin, case.digest()),
            json!({"what": "output length differs from input length", "out": out.len(), "case": case.to_json()}),
            None,
        );
        return None;
    }
    // every returned delta carries the rounded input value
    for i in 0..n {
        let (ex, ey) = (ot_round_q(case.deltas_q[i].0), ot_round_q(case.deltas_q[i].1));
        if out[i].x as i32 != ex || out[i].y as i32 != ey {
            ctx.violation(
                &format!("iup:delta-value-changed:{}:{:016x}", origin, case.digest()),
                json!({"what": "returned delta is not the (OpenType-rounded) input delta", "index": i,
                       "got": [out[i].x, out[i].y], "expected": [ex, ey], "required": out[i].required, "case": case.to_json()}),
                None,
            );
            return Some(out);
        }
    }
    // spec inference from the retained deltas, exact
    let explicit: Vec<Option<(Frac, Frac)>> = out
        .iter()
        .map(|d| d.required.then(|| (Frac::int(d.x as i64), Frac::int(d.y as i64))))
        .collect();
    let all_ends = case.all_ends();
    let inferred = infer::<Frac>(&case.coords, &all_ends, &explicit);
    let fractional = case.deltas_q.iter().any(|d| d.0 % 4 != 0 || d.1 % 4 != 0);
    // When input deltas are not integers the retained neighbours are rounded
    // on output (<= 0.5 per component); inference is a per-component convex
    // combination / copy, so the rounding can move the inferred value by at
    // most sqrt(0.5).
    let slack = if fractional { 0.5f64.sqrt() } else { 0.0 };
    let allowed = case.tol + slack;
    let allowed_sq = allowed * allowed + 1e-9;
    let mut n_opt = 0u64;
    let mut n_req = 0u64;
    let mut worst = 0.0f64;
    for i in 0..n {
        if out[i].required {
            n_req += 1;
            continue;
        }
        n_opt += 1;
        let ex = inferred[i].0 - Frac::new(case.deltas_q[i].0 as i128, 4);
        let ey = inferred[i].1 - Frac::new(case.deltas_q[i].1 as i128, 4);
        let err_sq = (ex * ex + ey * ey).to_f64();
        if err_sq > worst {
            worst = err_sq;
        }
        if err_sq > allowed_sq {
            // Diagnose: would inference from the *unrounded* neighbours (the
            // values the optimiser reasoned about) have been within the
            // tolerance? Then the miss is caused by rounding the retained
            // deltas after the decision was taken (possible only for
            // non-integer input): two neighbours with equal coordinate whose
            // deltas differ before but coincide after rounding (or vice
            // versa) flip the "same coordinate" rule of the spec.
            let unrounded: Vec<Option<(Frac, Frac)>> = out
                .iter()
                .enumerate()
                .map(|(k, d)| d.required.then(|| (Frac::new(case.deltas_q[k].0 as i128, 4), Frac::new(case.deltas_q[k].1 as i128, 4))))
                .collect();
            let inf_u = infer::<Frac>(&case.coords, &all_ends, &unrounded);
            let ux = inf_u[i].0 - Frac::new(case.deltas_q[i].0 as i128, 4);
            let uy = inf_u[i].1 - Frac::new(case.deltas_q[i].1 as i128, 4);
            let unrounded_ok = (ux * ux + uy * uy).to_f64() <= case.tol * case.tol + 1e-9;
            let sig = if fractional && unrounded_ok {
                "iup:optional-exceeds-tolerance-after-rounding:fractional-input:same-coordinate-neighbours".to_string()
            } else {
                format!("iup:optional-exceeds-tolerance:{}:{:016x}", origin, case.digest())
            };
            ctx.violation(
                &sig,
                json!({"what": "delta marked optional but spec inference from the retained neighbours misses it by more than the tolerance (euclidean, as documented in can_iup_in_between)",
                       "index": i, "inferred": [inferred[i].0.to_f64(), inferred[i].1.to_f64()],
                       "inferred_from_unrounded_neighbours": [inf_u[i].0.to_f64(), inf_u[i].1.to_f64()],
                       "input_delta": [case.deltas_q[i].0 as f64 / 4.0, case.deltas_q[i].1 as f64 / 4.0],
                       "error": err_sq.sqrt(), "allowed": allowed, "fractional_input": fractional,
                       "flags_required": out.iter().take(64).map(|d| d.required as u8).collect::<Vec<_>>(),
                       "case": case.to_json()}),
                None,
            );
            break;
        }
    }
    ctx.count("iup_deltas_required", n_req);
    ctx.count("iup_deltas_optional", n_opt);
    if fractional {
        ctx.count("iup_calls_fractional_deltas", 1);
    }
    // non-trivial: some real contour has both a retained and an omitted delta
    let mut start = 0usize;
    let mut mixed = false;
    for &e in &case.ends {
        let r = out[start..=e].iter().filter(|d| d.required).count();
        if r > 0 && r < e + 1 - start {
            mixed = true;
        }
        start = e + 1;
    }
    if mixed {
        ctx.count("iup_calls_with_mixed_contour", 1);
        // the enumerated sub-space is huge: keep every 16th digest of it
        // (events.iup_calls_with_mixed_contour has the full count)
        let dg = case.digest();
        if origin != "exhaustive" || dg & 0xf == 0 {
            ctx.nontrivial(dg);
        }
        if n <= 12 {
            let mut pat = Digest::new();
            for d in &out {
                pat.u64(d.required as u64);
            }
            pat.u64(n as u64);
            ctx.distinct("iup_small_required_patterns", pat.finish());
        }
        if worst > 0.0 {
            ctx.count("iup_calls_with_inexact_optional", 1);
        }
        ctx.sample_by_kind(
            &format!("iup-{}", origin),
            json!({"case": case.to_json(), "required": out.iter().take(48).map(|d| d.required as u8).collect::<Vec<_>>(), "worst_error": worst.sqrt()}),
        );
    }
    Some(out)
}

// ------------------------------------------------------------------ exhaustive

const TOLS: [f64; 3] = [0.0, 0.5, 1.0];

fn alphabet(n_points: usize, reduced: bool) -> (Vec<i32>, Vec<i32>, Vec<i32>, Vec<i32>) {
    // (x coords, y coords, dx, dy)
    if n_points <= 3 && !reduced {
        (vec![0, 10, 20], vec![0, 10, 20], vec![-1, 0, 2], vec![0, 1])
    } else if !reduced {
        (vec![0, 10, 20], vec![0, 10, 20], vec![-1, 0, 2], vec![0, 1])
    } else {
        (vec![0, 10, 20], vec![0, 5], vec![-1, 0, 2], vec![0, 1])
    }
}

/// All contours of exactly `n` points over the alphabet x all tolerances.
fn exhaustive_n(ctx: &mut Ctx, n: usize, reduced: bool, counter: &mut usize) {
    let (xs, ys, dxs, dys) = alphabet(n, reduced);
    let per_point = xs.len() * ys.len() * dxs.len() * dys.len();
    let total = per_point.pow(n as u32);
    let phantom = [(0, 0), (30, 0), (0, 0), (0, 0)];
    for idx in 0..total {
        let item = *counter;
        *counter += 1;
        if !ctx.mine(item) {
            continue;
        }
        let mut coords = Vec::with_capacity(n + 4);
        let mut deltas = Vec::with_capacity(n + 4);
        let mut k = idx;
        for _ in 0..n {
            let p = k % per_point;
            k /= per_point;
            let x = xs[p % xs.len()];
            let p = p / xs.len();
            let y = ys[p % ys.len()];
            let p = p / ys.len();
            let dx = dxs[p % dxs.len()];
            let p = p / dxs.len();
            let dy = dys[p % dys.len()];
            coords.push((x, y));
            deltas.push((dx * 4, dy * 4));
        }
        coords.extend_from_slice(&phantom);
        // phantom deltas: advance changes by the last point's dx
        let pd = deltas[n - 1].0;
        deltas.extend_from_slice(&[(0, 0), (pd, 0), (0, 0), (0, 0)]);
        for tol in TOLS {
            let case = IupCase { coords: coords.clone(), deltas_q: deltas.clone(), ends: vec![n - 1], tol };
            check_iup(ctx, &case, "exhaustive");
        }
        ctx.count(&format!("iup_exhaustive_contours_n{}", n), 1);
    }
}

pub fn run_exhaustive(ctx: &mut Ctx) {
    let mut counter = 0usize;
    for n in 1..=3 {
        exhaustive_n(ctx, n, false, &mut counter);
    }
    // 4 points: full alphabet (54^4 = 8.5 M contours x 3 tolerances); the
    // thorough tier adds 5 points over the reduced alphabet (36^5 = 60 M x 3).
    exhaustive_n(ctx, 4, false, &mut counter);
    let thorough = ctx.tier.is_thorough();
    if thorough {
        exhaustive_n(ctx, 5, true, &mut counter);
    }
    ctx.extra.insert(
        "iup_exhaustive_space".into(),
        json!({"points_per_contour": if thorough {"1..=5"} else {"1..=4"}, "tolerances": TOLS,
               "alphabet_n1to4": "x,y in {0,10,20}; dx in {-1,0,2}; dy in {0,1}",
               "alphabet_n5": if thorough {"x in {0,10,20}; y in {0,5}; dx in {-1,0,2}; dy in {0,1}"} else {"(thorough tier only)"},
               "contours_enumerated_all_shards": counter,
               "note": "exhaustive applies to this enumerated optimiser sub-space only; all other workloads are sampled"}),
    );
}

// ------------------------------------------------------------------ random

/// Coordinates of a glyph: returns (coords incl. phantoms, contour ends).
pub fn gen_outline(rng: &mut Rng, n_contours: usize, pts_per_contour: &dyn Fn(&mut Rng) -> usize, extent: i32) -> (Vec<(i32, i32)>, Vec<usize>) {
    let mut coords = vec![];
    let mut ends = vec![];
    for _ in 0..n_contours {
        let n = pts_per_contour(rng).max(1);
        let style = rng.below(5);
        let cx = rng.range(-(extent as i64) / 2, extent as i64 / 2) as i32;
        let cy = rng.range(-(extent as i64) / 2, extent as i64 / 2) as i32;
        let r = rng.range(1, (extent / 2).max(2) as i64) as f64;
        let grid: Vec<i32> = (0..rng.range(2, 5)).map(|_| rng.range(-(extent as i64), extent as i64) as i32).collect();
        let (mut wx, mut wy) = (cx, cy);
        for i in 0..n {
            let p = match style {
                0 => {
                    // rounded circle
                    let a = i as f64 / n as f64 * std::f64::consts::TAU;
                    ((cx as f64 + r * a.cos()).round() as i32, (cy as f64 + r * a.sin()).round() as i32)
                }
                1 => (*rng.pick(&grid), *rng.pick(&grid)),
                2 => {
                    wx += rng.range(-40, 40) as i32;
                    wy += rng.range(-40, 40) as i32;
                    (wx, wy)
                }
                3 => {
                    // monotone in x, zig-zag in y (many "between" cases)
                    wx += rng.range(0, 30) as i32;
                    (wx, cy + if i % 2 == 0 { 0 } else { rng.range(-50, 50) as i32 })
                }
                _ => (rng.range(-(extent as i64), extent as i64) as i32, rng.range(-(extent as i64), extent as i64) as i32),
            };
            coords.push((p.0.clamp(-extent * 2, extent * 2), p.1.clamp(-extent * 2, extent * 2)));
        }
        ends.push(coords.len() - 1);
    }
    // phantom points
    let adv = rng.range(0, 1200) as i32;
    coords.extend_from_slice(&[(0, 0), (adv, 0), (0, rng.range(0, 900) as i32), (0, rng.range(-300, 0) as i32)]);
    (coords, ends)
}

/// Deltas (quarter units) for an outline; `style` picks the structure.
pub fn gen_deltas(rng: &mut Rng, coords: &[(i32, i32)], ends: &[usize], tol: f64, allow_fractional: bool) -> Vec<(i32, i32)> {
    let n = coords.len();
    let style = rng.below(8);
    let mag = *rng.pick(&[3i64, 100, 127, 128, 300, 3000]);
    let mut d: Vec<(i32, i32)> = vec![(0, 0); n];
    match style {
        0 => {
            // all equal (often zero)
            let v = if rng.bool() { (0, 0) } else { (rng.range(-mag, mag) as i32 * 4, rng.range(-mag, mag) as i32 * 4) };
            for x in d.iter_mut() {
                *x = v;
            }
        }
        1 | 2 | 3 | 4 => {
            // anchors + exact spec interpolation (+ rounding / noise)
            let mut explicit: Vec<Option<(f64, f64)>> = vec![None; n];
            let density = *rng.pick(&[2u64, 3, 5, 10, 40]);
            for e in explicit.iter_mut() {
                if rng.chance(1, density) {
                    *e = Some((rng.range(-mag, mag) as f64, rng.range(-mag, mag) as f64));
                }
            }
            // phantom points always explicit
            for e in explicit.iter_mut().skip(n - 4) {
                *e = Some((rng.range(-mag.min(300), mag.min(300)) as f64, 0.0));
            }
            let mut all_ends = ends.to_vec();
            for k in (1..=4).rev() {
                all_ends.push(n - k);
            }
            let full = infer::<f64>(coords, &all_ends, &explicit);
            let noise_q = (tol * 4.0) as i64;
            for i in 0..n {
                let (mut qx, mut qy) = ((full[i].0 * 4.0).round() as i32, (full[i].1 * 4.0).round() as i32);
                if style != 4 || !allow_fractional {
                    // integer deltas
                    qx = (qx + 2).div_euclid(4) * 4;
                    qy = (qy + 2).div_euclid(4) * 4;
                }
                if style == 3 && explicit[i].is_none() && noise_q > 0 {
                    // noise inside the tolerance (integers): sometimes lets
                    // IUP keep the point optional, sometimes not
                    let step = if allow_fractional && rng.bool() { 1 } else { 4 };
                    qx += rng.range(-noise_q / step, noise_q / step) as i32 * step as i32;
                    if rng.bool() {
                        qy += rng.range(-noise_q / step, noise_q / step) as i32 * step as i32;
                    }
                }
                d[i] = (qx, qy);
            }
        }
        5 => {
            // small alphabet, fully random
            for x in d.iter_mut() {
                *x = (rng.range(-2, 2) as i32 * 4, rng.range(-2, 2) as i32 * 4);
            }
        }
        6 => {
            // mostly zero with islands
            for x in d.iter_mut() {
                if rng.chance(1, 12) {
                    *x = (rng.range(-mag, mag) as i32 * 4, rng.range(-mag, mag) as i32 * 4);
                }
            }
        }
        _ => {
            for x in d.iter_mut() {
                *x = (rng.range(-mag, mag) as i32 * 4, rng.range(-mag, mag) as i32 * 4);
            }
            if allow_fractional && rng.bool() {
                for x in d.iter_mut() {
                    x.0 += rng.range(-2, 2) as i32;
                    x.1 += rng.range(-2, 2) as i32;
                }
            }
        }
    }
    d
}

pub fn run_random(ctx: &mut Ctx) {
    let n_cases = ctx.tier.pick(40_000usize, 800_000);
    for i in 0..n_cases {
        if !ctx.mine(i) {
            continue;
        }
        let mut rng = Rng::derive(ctx.seed, "c10-iup-random", i as u64);
        let size_class = rng.below(100);
        let (n_contours, max_pts): (usize, usize) = if size_class < 60 {
            (rng.range(1, 3) as usize, 12)
        } else if size_class < 90 {
            (rng.range(1, 5) as usize, 60)
        } else if size_class < 98 {
            (rng.range(1, 3) as usize, 400)
        } else {
            (1, 2000)
        };
        let big = size_class >= 98;
        let ppc = move |r: &mut Rng| if big { r.range(1000, 2000) as usize } else { r.range(1, max_pts as i64) as usize };
        let extent = *rng.pick(&[30, 300, 2000, 4000]);
        let (coords, ends) = gen_outline(&mut rng, n_contours, &ppc, extent);
        let tol = *rng.pick(&[0.0, 0.5, 0.5, 1.0, 2.0, 0.25]);
        let deltas_q = gen_deltas(&mut rng, &coords, &ends, tol, true);
        let case = IupCase { coords, deltas_q, ends, tol };
        let n = case.coords.len();
        ctx.count(
            match n {
                0..=16 => "iup_random_points_le16",
                17..=128 => "iup_random_points_le128",
                129..=1000 => "iup_random_points_le1000",
                _ => "iup_random_points_gt1000",
            },
            1,
        );
        check_iup(ctx, &case, "random");
    }
}

/// Hand-designed inputs (boundary situations of the optimiser's rules).
pub fn run_designed(ctx: &mut Ctx) {
    let ph = [(0, 0), (100, 0), (0, 0), (0, 0)];
    let phd = [(0, 0); 4];
    let mut cases: Vec<(Vec<(i32, i32)>, Vec<(i32, i32)>, f64)> = vec![
        // two retained neighbours with the same x coordinate whose x deltas
        // differ before rounding (10.0 / 10.25 -> inference 0) but not after and the point
        // between them has a small delta (0.25): quarter units
        (vec![(0, 0), (5, 10), (0, 20)], vec![(40, 0), (1, 40), (41, 80)], 0.5),
        (vec![(0, 0), (5, 10), (0, 20)], vec![(41, 0), (1, 40), (42, 80)], 0.5),
        // same with integer deltas (inference must give 0 or the common value)
        (vec![(0, 0), (5, 10), (0, 20)], vec![(40, 0), (0, 40), (44, 80)], 0.5),
        (vec![(0, 0), (5, 10), (0, 20)], vec![(40, 0), (40, 40), (40, 80)], 0.0),
        // square, linear deltas
        (vec![(0, 0), (10, 0), (20, 0), (20, 10), (10, 10), (0, 10)], vec![(0, 0), (20, 0), (40, 0), (40, 0), (20, 0), (0, 0)], 0.0),
        // delta exactly at tolerance distance
        (vec![(0, 0), (10, 0), (20, 0), (10, 10)], vec![(0, 0), (24, 0), (40, 0), (0, 40)], 1.0),
        (vec![(0, 0), (10, 0), (20, 0), (10, 10)], vec![(0, 0), (12, 16), (40, 0), (0, 40)], 1.0),
    ];
    for (i, (c, d, tol)) in cases.drain(..).enumerate() {
        let n = c.len();
        let mut coords = c;
        coords.extend_from_slice(&ph);
        let mut deltas_q = d;
        deltas_q.extend_from_slice(&phd);
        let case = IupCase { coords, deltas_q, ends: vec![n - 1], tol };
        let _ = i;
        check_iup(ctx, &case, "designed");
    }
}
