fn main() {
    vf_core::main_with("C10", vf_c10::run, vf_c10::REPLAY);
}
