//! C10 — glyph variation deltas survive encoding, IUP optimisation and
//! application. See /verif/DESIGN.md §3 "C10".
//!
//! Oracles (all against reference models in `model.rs`, written from the
//! OpenType spec, never calling the library):
//!  (i)  `iup_delta_optimize`: every delta marked optional is reproduced by
//!       spec inference from the retained neighbours within the tolerance
//!       (euclidean, as documented in `can_iup_in_between`);
//!  (ii) `Gvar` builder -> bytes -> independent decoder + read-fonts ->
//!       spec inference: required deltas exactly, optional within tolerance;
//!  (iii) skrifa drawing == default + sum(scalar x delta) up to the scaler's
//!       final rounding step, for harness-built fonts and corpus fonts.
use serde_json::json;
use vf_core::{Args, Ctx, PanicPolicy, Rng};

pub mod model;
pub mod wl_draw;
pub mod wl_gvar;
pub mod wl_iup;

pub const REPLAY: Option<fn(&mut Ctx, &Args, &serde_json::Value, Option<&[u8]>)> = Some(replay);

fn replay(ctx: &mut Ctx, args: &Args, rec: &serde_json::Value, data: Option<&[u8]>) {
    let sig = rec["signature"].as_str().unwrap_or("");
    match (sig.starts_with("draw:outline-differs"), data) {
        (true, Some(d)) => wl_draw::replay_draw(ctx, rec, d),
        _ => {
            eprintln!("vf: no single-case replay for this signature; re-running the workload with the recorded seed");
            run(ctx, args)
        }
    }
}

pub fn run(ctx: &mut Ctx, _args: &Args) {
    ctx.policy = PanicPolicy::Any;
    ctx.rule = "distinct cases (digest of the input; for the exhaustively enumerated optimiser inputs only every 16th digest is kept, the full count is events.iup_calls_with_mixed_contour) where: an optimiser input has a contour with both retained and omitted deltas; \
                or a compiled font has a tuple with omitted points / shared tuple / shared point numbers; \
                or a drawn (font, glyph, location) has an active region with a scalar strictly between 0 and 1 or with inferred deltas"
        .into();
    ctx.assumptions = vec![
        "optimiser tolerance is euclidean per point ((dx^2+dy^2) <= tol^2), as in can_iup_in_between; comparison slack 1e-9 for the library's f64 arithmetic".into(),
        "non-integer input deltas: retained neighbours are rounded on output, so the inferred value may move by <= sqrt(0.5); that slack is added only for such inputs".into(),
        "regions generated are well-formed (start <= peak <= end, not straddling zero)".into(),
        "coordinates within +-8000 and deltas within +-4000 font units (extreme magnitudes overflow 16.16 in the scaler: C20's subject)".into(),
        "drawing tolerance: FreeType path style 0.5 (final rounding of the accumulated delta to integer units) + eps; HarfBuzz path style eps; \
         eps = per active tuple dmax*k/2^17 (16.16 tuple scalar, k axes) + 2^-16 (+ span/2^17 + 2^-15 for interpolation slope when sparse), f32 ulps for the f32 path"
            .into(),
        "drawing oracle covers simple glyphs whose contours start on-curve; composites and contours starting off-curve are counted and skipped".into(),
    ];

    // (i) optimiser
    if ctx.mine(0) {
        wl_iup::run_designed(ctx);
    }
    wl_iup::run_exhaustive(ctx);
    wl_iup::run_random(ctx);

    // (ii) dedicated probe: tuples whose deltas are all optional
    if ctx.mine(0) {
        wl_gvar::probe_all_optional(ctx);
    }

    // (ii) + (iii) fonts built by the harness
    let budgets: [(&'static str, usize, usize); 5] = [
        ("small", 60_000, 1_200_000),
        ("shared", 12_000, 160_000),
        ("runs", 8_000, 120_000),
        ("big", 320, 2_400),
        ("long-offsets", 48, 240),
    ];
    let mut item = 0usize;
    for (profile, q, t) in budgets {
        let n = ctx.tier.pick(q, t);
        for i in 0..n {
            item += 1;
            if !ctx.mine(item) {
                continue;
            }
            let mut rng = Rng::derive(ctx.seed, &format!("c10-font-{}", profile), i as u64);
            let spec = wl_gvar::gen_font(ctx, &mut rng, profile, i as u64);
            let Some(gvar_bytes) = wl_gvar::check_font_roundtrip(ctx, &spec) else {
                continue;
            };
            if profile == "long-offsets" && i % 4 != 0 {
                continue;
            }
            match vf_core::guard(|| wl_draw::build_font(&spec, &gvar_bytes)) {
                Ok(Ok(font)) => {
                    let gids: Vec<u32> = (0..spec.glyphs.len() as u32).take(if profile == "long-offsets" { 2 } else { 64 }).collect();
                    let locs = match profile {
                        "big" | "long-offsets" => 6,
                        "runs" => 10,
                        _ => ctx.tier.pick(14, 24),
                    };
                    let id = format!("built-{}-{}", profile, i);
                    let st = wl_draw::check_draw_font(ctx, &font, &id, &gids, locs, &mut rng, true, spec.digest());
                    if st.compared > 0 {
                        ctx.count("draw_fonts_built_and_compared", 1);
                    }
                }
                Ok(Err(e)) => {
                    ctx.count("draw_font_build_failed", 1);
                    ctx.sample_by_kind("font_build_failed", json!({"error": e, "case": spec.summary()}));
                }
                Err(p) => {
                    ctx.inconclusive(format!("font build panicked: {} {}:{}", p.msg, p.file, p.line));
                }
            }
        }
    }

    // (iii) corpus variable fonts with their own gvar
    let fonts = vf_core::corpus_fonts();
    let mut item = 0usize;
    let per_font_glyphs = ctx.tier.pick(3000usize, 100_000);
    for f in fonts {
        let Ok(font) = read_fonts::FontRef::new(&f.data) else { continue };
        use read_fonts::TableProvider;
        if font.gvar().is_err() || font.glyf().is_err() {
            continue;
        }
        let ng = font.maxp().map(|m| m.num_glyphs()).unwrap_or(0) as usize;
        ctx.label("corpus_variable_fonts", &f.name);
        let step = (ng / per_font_glyphs).max(1);
        for gid in (0..ng).step_by(step) {
            item += 1;
            if !ctx.mine(item) {
                continue;
            }
            let mut rng = Rng::derive(ctx.seed, &f.name, gid as u64);
            let locs = ctx.tier.pick(16, 64);
            let st = wl_draw::check_draw_font(ctx, &f.data, &f.name, &[gid as u32], locs, &mut rng, false, 0);
            ctx.count("draw_corpus_comparisons", st.compared);
        }
    }
}
