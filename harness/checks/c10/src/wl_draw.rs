//! Oracle (iii): the outline skrifa draws at a normalized location equals
//! default outline + sum over regions of (spec tent scalar x delta, omitted
//! deltas inferred per spec), up to the scaler's final rounding step.
//!
//! The reference reads the gvar bytes with the independent decoder of
//! `model.rs` and computes in f64. Two scaler paths are observed:
//!  * PathStyle::FreeType: deltas accumulate in 16.16 and are rounded to
//!    integer font units before being added (the "final rounding step"):
//!    tolerance 0.5 + eps;
//!  * PathStyle::HarfBuzz: f32, no final rounding: tolerance eps.
//! eps bounds the library's documented fixed-point steps (tuple scalar
//! rounded to 16.16 once per axis, scalar x delta rounded to 16.16,
//! interpolation slope rounded to 16.16).

use crate::model::{infer, region_scalar, RawGlyphVar, RawGvar};
use crate::wl_gvar::FontSpec;
use read_fonts::tables::glyf::Glyph;
use read_fonts::{FontRef, TableProvider};
use serde_json::json;
use skrifa::instance::{LocationRef, Size};
use skrifa::outline::{DrawSettings, OutlinePen};
use skrifa::prelude::NormalizedCoord;
use skrifa::{GlyphId, MetadataProvider};
use vf_core::{guard, Ctx, Digest, Rng};
use read_fonts::tables::glyf::{CurvePoint, PointFlags};
use read_fonts::types::Point;
use write_fonts::tables::glyf::{Contour, GlyfLocaBuilder, SimpleGlyph};
use write_fonts::tables::{fvar, head, hhea, hmtx, loca, maxp};
use write_fonts::types::{Fixed, NameId, Tag};
use write_fonts::FontBuilder;

#[derive(Clone, Copy, Debug, PartialEq)]
pub enum Cmd {
    Move(f64, f64),
    Line(f64, f64),
    Quad(f64, f64, f64, f64),
    Curve,
    Close,
}

#[derive(Default)]
struct RecPen(Vec<Cmd>);
impl OutlinePen for RecPen {
    fn move_to(&mut self, x: f32, y: f32) {
        self.0.push(Cmd::Move(x as f64, y as f64));
    }
    fn line_to(&mut self, x: f32, y: f32) {
        self.0.push(Cmd::Line(x as f64, y as f64));
    }
    fn quad_to(&mut self, cx0: f32, cy0: f32, x: f32, y: f32) {
        self.0.push(Cmd::Quad(cx0 as f64, cy0 as f64, x as f64, y as f64));
    }
    fn curve_to(&mut self, _: f32, _: f32, _: f32, _: f32, _: f32, _: f32) {
        self.0.push(Cmd::Curve);
    }
    fn close(&mut self) {
        self.0.push(Cmd::Close);
    }
}

/// TrueType contour -> path for contours whose first point is on-curve
/// (standard: consecutive off-curve points imply an on-curve midpoint).
/// The bool of each command says whether it contains an implied midpoint.
fn expected_path(pts: &[(f64, f64)], on: &[bool], ends: &[usize]) -> Option<Vec<(Cmd, bool)>> {
    let mut out = vec![];
    let mut start = 0usize;
    for &e in ends {
        if e < start || e >= pts.len() {
            return None;
        }
        if !on[start] {
            return None;
        }
        let p0 = pts[start];
        out.push((Cmd::Move(p0.0, p0.1), false));
        let mut pending: Option<(f64, f64)> = None;
        for i in start + 1..=e {
            let p = pts[i];
            if on[i] {
                match pending.take() {
                    Some(c) => out.push((Cmd::Quad(c.0, c.1, p.0, p.1), false)),
                    None => out.push((Cmd::Line(p.0, p.1), false)),
                }
            } else {
                if let Some(c) = pending {
                    let m = ((c.0 + p.0) / 2.0, (c.1 + p.1) / 2.0);
                    out.push((Cmd::Quad(c.0, c.1, m.0, m.1), true));
                }
                pending = Some(p);
            }
        }
        if let Some(c) = pending {
            out.push((Cmd::Quad(c.0, c.1, p0.0, p0.1), false));
        }
        out.push((Cmd::Close, false));
        start = e + 1;
    }
    Some(out)
}

/// Largest magnitude the scaler's 16.16 working values may reach for this
/// glyph: |coordinate| + sum over tuples of the largest |delta|.
pub fn magnitude_bound(coords: &[(i32, i32)], var: &RawGlyphVar) -> i64 {
    let cmax = coords.iter().map(|c| c.0.abs().max(c.1.abs())).max().unwrap_or(0) as i64;
    let d: i64 = var
        .tuples
        .iter()
        .map(|t| t.dx.iter().chain(t.dy.iter()).map(|v| (*v as i64).abs()).max().unwrap_or(0))
        .sum();
    cmax + d
}

pub struct RefOutline {
    pub pts: Vec<(f64, f64)>,
    pub eps_fixed: f64,
    pub eps_f32: f64,
    pub active_tuples: usize,
    pub partial_tuples: usize,
    pub sparse_active: usize,
}

/// default + sum(scalar * delta) in f64; `coords` includes the phantom points.
pub fn reference_outline(coords: &[(i32, i32)], ends: &[usize], var: &RawGlyphVar, loc: &[i16]) -> Result<RefOutline, String> {
    let n = coords.len();
    let mut acc = vec![(0.0f64, 0.0f64); n];
    let span = {
        let xs = coords.iter().map(|c| c.0);
        let ys = coords.iter().map(|c| c.1);
        let sx = xs.clone().max().unwrap_or(0) - xs.min().unwrap_or(0);
        let sy = ys.clone().max().unwrap_or(0) - ys.min().unwrap_or(0);
        sx.max(sy) as f64
    };
    let cmax = coords.iter().map(|c| c.0.abs().max(c.1.abs())).max().unwrap_or(0) as f64;
    let (mut eps_fixed, mut eps_f32) = (0.0f64, 0.0f64);
    let (mut active, mut partial_n, mut sparse_active) = (0usize, 0usize, 0usize);
    let mut dsum = 0.0f64;
    for t in &var.tuples {
        let (s, partial, zero) = region_scalar(&t.tents, loc);
        if zero {
            continue;
        }
        active += 1;
        if partial > 0 {
            partial_n += 1;
        }
        let explicit = t.explicit(n)?;
        let dmax = explicit.iter().flatten().map(|d| d.0.abs().max(d.1.abs())).max().unwrap_or(0) as f64;
        dsum += dmax;
        let exf: Vec<Option<(f64, f64)>> = explicit.iter().map(|e| e.map(|(x, y)| (x as f64, y as f64))).collect();
        let sparse = t.points.is_some();
        let full = if sparse { infer::<f64>(coords, ends, &exf) } else { exf.iter().map(|e| e.unwrap_or((0.0, 0.0))).collect() };
        for i in 0..n {
            acc[i].0 += s * full[i].0;
            acc[i].1 += s * full[i].1;
        }
        let e_scalar = dmax * partial as f64 / 131072.0;
        let ulp = (cmax + dsum + 1.0) / 8388608.0;
        eps_fixed += e_scalar + 1.0 / 65536.0;
        eps_f32 += e_scalar + 1.0 / 65536.0 + 4.0 * ulp;
        if sparse {
            sparse_active += 1;
            eps_fixed += span / 131072.0 + 1.0 / 32768.0;
            eps_f32 += 12.0 * ulp;
            // The spec's rule "reference points with equal coordinate and
            // different deltas infer 0" is evaluated by the scaler on the
            // *scaled* deltas in its working precision: two different deltas
            // become equal when |d1 - d2| * scalar is below the resolution
            // (2^-16 in 16.16, one f32 ulp of the coordinate), which can
            // happen only for tiny scalars; the inferred value is then off by
            // at most dmax * scalar.
            if s < 1.0 / 32768.0 {
                eps_fixed += dmax * s;
            }
            if s < 2.0 * ulp {
                eps_f32 += dmax * s;
            }
        }
    }
    let ulp = (cmax + dsum + 1.0) / 8388608.0;
    eps_f32 += 4.0 * ulp + 1e-4;
    eps_fixed += 1e-6;
    let pts = (0..n).map(|i| (coords[i].0 as f64 + acc[i].0, coords[i].1 as f64 + acc[i].1)).collect();
    Ok(RefOutline { pts, eps_fixed, eps_f32, active_tuples: active, partial_tuples: partial_n, sparse_active })
}

/// Candidate coordinates per axis from the glyph's own regions.
fn axis_candidates(var: &RawGlyphVar, n_axes: usize) -> Vec<Vec<i16>> {
    let mut c: Vec<Vec<i16>> = vec![vec![0, 16384, -16384, 8192, -8192]; n_axes];
    for t in &var.tuples {
        for (a, &(s, p, e)) in t.tents.iter().enumerate().take(n_axes) {
            for v in [s, p, e] {
                for d in [-1i32, 0, 1] {
                    c[a].push((v as i32 + d).clamp(-16384, 16384) as i16);
                }
            }
            c[a].push(((s as i32 + p as i32) / 2) as i16);
            c[a].push(((p as i32 + e as i32) / 2) as i16);
            c[a].push(((s as i32 + 3 * p as i32) / 4) as i16);
        }
    }
    for v in c.iter_mut() {
        v.sort_unstable();
        v.dedup();
    }
    c
}

fn gen_locations(rng: &mut Rng, var: &RawGlyphVar, n_axes: usize, budget: usize) -> Vec<Vec<i16>> {
    let cands = axis_candidates(var, n_axes);
    let mut out: Vec<Vec<i16>> = vec![];
    // exactly at every region's peak, and at its start / end corners
    for t in var.tuples.iter().take(6) {
        out.push(t.tents.iter().take(n_axes).map(|t| t.1).collect());
        out.push(t.tents.iter().take(n_axes).map(|t| t.0).collect());
        out.push(t.tents.iter().take(n_axes).map(|t| t.2).collect());
    }
    if n_axes == 1 {
        // the full candidate grid on one axis
        for v in &cands[0] {
            out.push(vec![*v]);
        }
    }
    while out.len() < budget {
        let mut l = Vec::with_capacity(n_axes);
        let random_axis = rng.chance(1, 4);
        for c in cands.iter().take(n_axes) {
            if random_axis && rng.bool() {
                l.push(rng.range(-16384, 16384) as i16);
            } else {
                l.push(*rng.pick(c));
            }
        }
        out.push(l);
    }
    out.truncate(budget.max(1));
    for l in out.iter_mut() {
        l.resize(n_axes, 0);
    }
    out
}

pub struct DrawStats {
    pub compared: u64,
}

/// Compare skrifa's drawing of the glyphs of `font` against the reference.
/// `strict_errors`: a draw error / structural mismatch is a violation (fonts
/// built by the harness); otherwise only counted (corpus fonts).
#[allow(clippy::too_many_arguments)]
pub fn check_draw_font(
    ctx: &mut Ctx,
    data: &[u8],
    font_id: &str,
    glyph_ids: &[u32],
    locs_per_glyph: usize,
    rng: &mut Rng,
    strict_errors: bool,
    case_digest: u64,
) -> DrawStats {
    let mut stats = DrawStats { compared: 0 };
    let Ok(font) = FontRef::new(data) else {
        ctx.count("draw_font_unreadable", 1);
        return stats;
    };
    let (Ok(glyf), Ok(loca), Ok(gvar_t)) = (font.glyf(), font.loca(None), font.gvar()) else {
        ctx.count("draw_font_missing_tables", 1);
        return stats;
    };
    let gvar_bytes = gvar_t.offset_data().as_bytes();
    let hmtx_t = font.hmtx().ok();
    let raw = match RawGvar::parse(gvar_bytes) {
        Ok(r) => r,
        Err(_) => {
            ctx.count("draw_font_gvar_undecodable", 1);
            return stats;
        }
    };
    let n_axes = raw.axis_count;
    let outlines = font.outline_glyphs();
    for &gid in glyph_ids {
        let glyph = match loca.get_glyf(GlyphId::new(gid), &glyf) {
            Ok(Some(Glyph::Simple(g))) => g,
            Ok(Some(Glyph::Composite(_))) => {
                ctx.count("draw_glyph_composite_skipped", 1);
                continue;
            }
            _ => {
                ctx.count("draw_glyph_empty_skipped", 1);
                continue;
            }
        };
        let np = glyph.num_points();
        let mut raw_pts: Vec<Point<i32>> = vec![Point::default(); np];
        let mut raw_flags: Vec<PointFlags> = vec![PointFlags::default(); np];
        if glyph.read_points_fast(&mut raw_pts, &mut raw_flags).is_err() {
            ctx.count("draw_glyph_unreadable_skipped", 1);
            continue;
        }
        let mut coords: Vec<(i32, i32)> = raw_pts.iter().map(|p| (p.x, p.y)).collect();
        let on: Vec<bool> = raw_flags.iter().map(|f| f.is_on_curve()).collect();
        let cubic = raw_flags.iter().any(|f| f.is_off_curve_cubic());
        if cubic {
            ctx.count("draw_glyph_cubic_skipped", 1);
            continue;
        }
        let ends: Vec<usize> = glyph.end_pts_of_contours().iter().map(|e| e.get() as usize).collect();
        let n_real = coords.len();
        // phantom points (their coordinates do not influence inference, but
        // the scaler translates the outline so that phantom point 0 is the
        // origin: x -= pp0.x after variation)
        let gidt = GlyphId::new(gid);
        let lsb = hmtx_t.as_ref().and_then(|h| h.side_bearing(gidt)).unwrap_or(0) as i32;
        let adv = hmtx_t.as_ref().and_then(|h| h.advance(gidt)).unwrap_or(0) as i32;
        let pp0 = glyph.x_min() as i32 - lsb;
        coords.extend_from_slice(&[(pp0, 0), (pp0 + adv, 0), (0, 0), (0, 0)]);
        let var = match raw.glyph(gid as usize, coords.len()) {
            Ok(v) => v,
            Err(e) => {
                ctx.count("draw_glyph_var_undecodable", 1);
                ctx.sample_by_kind("draw_var_undecodable", json!({"font": font_id, "gid": gid, "error": e}));
                continue;
            }
        };
        if var.tuples.is_empty() {
            ctx.count("draw_glyph_without_variations", 1);
        }
        if magnitude_bound(&coords, &var) > 15000 {
            // working values could leave the 16.16 range of the scaler
            ctx.count("draw_glyph_extreme_magnitude_skipped", 1);
            continue;
        }
        let Some(og) = outlines.get(GlyphId::new(gid)) else {
            ctx.count("draw_glyph_no_outline", 1);
            continue;
        };
        let locs = gen_locations(rng, &var, n_axes, locs_per_glyph);
        for loc in locs {
            let r = match reference_outline(&coords, &ends, &var, &loc) {
                Ok(r) => r,
                Err(_) => {
                    ctx.count("draw_reference_unavailable", 1);
                    continue;
                }
            };
            // Translation to the glyph origin (phantom point 0). As
            // implemented: the FreeType-style scaler uses the *varied*
            // phantom point (rounded separately: a second rounding step on x
            // when pp0 moves), the HarfBuzz-style scaler the default one.
            let shift_ft = r.pts[n_real].0;
            let shift_hb = coords[n_real].0 as f64;
            let pp0_moves = (shift_ft - shift_hb).abs() > 1e-12;
            let k = if pp0_moves { 2.0 } else { 1.0 };
            if pp0_moves {
                ctx.count("draw_locations_with_moving_origin", 1);
            }
            let shifted_ft: Vec<(f64, f64)> = r.pts[..n_real].iter().map(|p| (p.0 - shift_ft, p.1)).collect();
            let shifted_hb: Vec<(f64, f64)> = r.pts[..n_real].iter().map(|p| (p.0 - shift_hb, p.1)).collect();
            let (Some(expected_ft), Some(expected_hb)) = (expected_path(&shifted_ft, &on, &ends), expected_path(&shifted_hb, &on, &ends)) else {
                ctx.count("draw_glyph_starts_off_curve_skipped", 1);
                break;
            };
            let nc: Vec<NormalizedCoord> = loc.iter().map(|b| NormalizedCoord::from_bits(*b)).collect();
            for (style, style_name, tol) in [
                (skrifa::outline::pen::PathStyle::FreeType, "freetype", k * (0.5 + r.eps_fixed)),
                (skrifa::outline::pen::PathStyle::HarfBuzz, "harfbuzz", r.eps_f32),
            ] {
                let expected = if style_name == "freetype" { &expected_ft } else { &expected_hb };
                ctx.eval();
                let og2 = og.clone();
                let nc2 = nc.clone();
                let res = guard(move || {
                    let mut pen = RecPen::default();
                    let settings = DrawSettings::unhinted(Size::unscaled(), LocationRef::new(&nc2)).with_path_style(style);
                    og2.draw(settings, &mut pen).map(|_| pen.0).map_err(|e| format!("{}", e))
                });
                let cmds = match res {
                    Err(p) => {
                        // overflow / debug assertions in the scaler belong to
                        // C20; anything else is a panic on a well-formed font
                        let saved = ctx.policy;
                        ctx.policy = vf_core::PanicPolicy::Totality;
                        ctx.judge_panic(&p, "OutlineGlyph::draw", json!({"font": font_id, "gid": gid, "loc_f2dot14_bits": loc, "style": style_name}), Some(data));
                        ctx.policy = saved;
                        continue;
                    }
                    Ok(Err(e)) => {
                        ctx.count("draw_errors", 1);
                        if strict_errors {
                            ctx.violation(
                                &format!("draw:error:{}:g{}:{}", font_id, gid, style_name),
                                json!({"what": "skrifa fails to draw a glyph of a harness-built font", "error": e, "loc_f2dot14_bits": loc}),
                                Some(data),
                            );
                        }
                        continue;
                    }
                    Ok(Ok(c)) => c,
                };
                if cmds.len() != expected.len() || cmds.iter().zip(expected).any(|(a, (b, _))| std::mem::discriminant(a) != std::mem::discriminant(b)) {
                    ctx.count("draw_structure_mismatch", 1);
                    if strict_errors {
                        ctx.violation(
                            &format!("draw:structure:{}:g{}:{}", font_id, gid, style_name),
                            json!({"what": "command stream structure differs from the contour structure", "got": cmds.len(), "expected": expected.len(), "loc_f2dot14_bits": loc}),
                            Some(data),
                        );
                    }
                    continue;
                }
                let mut worst = 0.0f64;
                let mut worst_at = 0usize;
                let mut cmp = |a: f64, b: f64, slack: f64, k: usize, worst: &mut f64, worst_at: &mut usize| {
                    let d = (a - b).abs() - slack;
                    if d > *worst {
                        *worst = d;
                        *worst_at = k;
                    }
                };
                for (k, (got, (exp, mid))) in cmds.iter().zip(expected).enumerate() {
                    let slack = if *mid { 0.02 } else { 0.0 };
                    match (got, exp) {
                        (Cmd::Move(a, b), Cmd::Move(c, d)) | (Cmd::Line(a, b), Cmd::Line(c, d)) => {
                            cmp(*a, *c, 0.0, k, &mut worst, &mut worst_at);
                            cmp(*b, *d, 0.0, k, &mut worst, &mut worst_at);
                        }
                        (Cmd::Quad(a, b, c, d), Cmd::Quad(e, f, g, h)) => {
                            cmp(*a, *e, 0.0, k, &mut worst, &mut worst_at);
                            cmp(*b, *f, 0.0, k, &mut worst, &mut worst_at);
                            cmp(*c, *g, slack, k, &mut worst, &mut worst_at);
                            cmp(*d, *h, slack, k, &mut worst, &mut worst_at);
                        }
                        _ => {}
                    }
                }
                stats.compared += 1;
                ctx.count(&format!("draw_compared_{}", style_name), 1);
                if worst > tol {
                    ctx.violation(
                        &format!("draw:outline-differs:{}:g{}:{}", font_id, gid, style_name),
                        json!({"what": "drawn outline differs from default + sum(scalar x delta) by more than the scaler's final rounding step",
                               "style": style_name, "loc_f2dot14_bits": loc, "command_index": worst_at,
                               "got": format!("{:?}", cmds[worst_at]), "expected": format!("{:?}", expected[worst_at].0),
                               "excess_over_zero": worst, "tolerance": tol,
                               "active_tuples": r.active_tuples, "sparse_active": r.sparse_active, "points": n_real}),
                        Some(data),
                    );
                }
            }
            if r.active_tuples > 0 {
                ctx.count("draw_locations_with_active_region", 1);
                let mut d = Digest::new();
                d.u64(case_digest);
                d.str(font_id);
                d.u64(gid as u64);
                for b in &loc {
                    d.i64(*b as i64);
                }
                if r.partial_tuples > 0 || r.sparse_active > 0 {
                    ctx.nontrivial(d.finish());
                }
                if r.partial_tuples > 0 {
                    ctx.count("draw_locations_with_partial_scalar", 1);
                }
                if r.sparse_active > 0 {
                    ctx.count("draw_locations_with_inferred_deltas", 1);
                }
            } else {
                ctx.count("draw_locations_no_active_region", 1);
            }
        }
    }
    stats
}

// ------------------------------------------------------------------ font building

pub fn build_font(spec: &FontSpec, gvar_bytes: &[u8]) -> Result<Vec<u8>, String> {
    let mut gb = GlyfLocaBuilder::new();
    let mut metrics = vec![];
    for g in &spec.glyphs {
        let n_real = g.coords.len() - 4;
        let mut contours = vec![];
        let mut start = 0usize;
        for &e in &g.ends {
            let pts: Vec<CurvePoint> = (start..=e)
                .map(|i| CurvePoint::new(g.coords[i].0 as i16, g.coords[i].1 as i16, g.on_curve[i]))
                .collect();
            contours.push(Contour::from(pts));
            start = e + 1;
        }
        let _ = n_real;
        let mut sg = SimpleGlyph { bbox: Default::default(), contours, instructions: vec![] };
        sg.recompute_bounding_box();
        metrics.push(hmtx::LongMetric::new(g.advance, sg.bbox.x_min));
        gb.add_glyph(&sg).map_err(|e| format!("glyf: {}", e))?;
    }
    let (glyf, loca_t, fmt) = gb.build();
    let head_t = head::Head {
        units_per_em: 1000,
        index_to_loc_format: match fmt {
            loca::LocaFormat::Short => 0,
            loca::LocaFormat::Long => 1,
        },
        ..Default::default()
    };
    let maxp_t = maxp::Maxp { num_glyphs: spec.glyphs.len() as u16, ..Default::default() };
    let hhea_t = hhea::Hhea { number_of_h_metrics: spec.glyphs.len() as u16, ..Default::default() };
    let hmtx_t = hmtx::Hmtx::new(metrics, vec![]);
    let axes: Vec<fvar::VariationAxisRecord> = (0..spec.n_axes)
        .map(|a| {
            fvar::VariationAxisRecord::new(
                Tag::new(&[b'A', b'X', b'0' + (a / 10) as u8, b'0' + (a % 10) as u8]),
                Fixed::from_i32(-100),
                Fixed::from_i32(0),
                Fixed::from_i32(100),
                0,
                NameId::new(256 + a as u16),
            )
        })
        .collect();
    let fvar_t = fvar::Fvar::new(fvar::AxisInstanceArrays::new(axes, vec![]));
    let mut fb = FontBuilder::new();
    fb.add_table(&head_t).map_err(|e| format!("head: {}", e))?;
    fb.add_table(&maxp_t).map_err(|e| format!("maxp: {}", e))?;
    fb.add_table(&hhea_t).map_err(|e| format!("hhea: {}", e))?;
    fb.add_table(&hmtx_t).map_err(|e| format!("hmtx: {}", e))?;
    fb.add_table(&glyf).map_err(|e| format!("glyf: {}", e))?;
    fb.add_table(&loca_t).map_err(|e| format!("loca: {}", e))?;
    fb.add_table(&fvar_t).map_err(|e| format!("fvar: {}", e))?;
    fb.add_raw(Tag::new(b"gvar"), gvar_bytes.to_vec());
    Ok(fb.build())
}

/// Companion of `wl_gvar::probe_all_optional`: at axis = 0.5 region B (dense
/// deltas x = 10 + i, y = -20, scalar 1) must be visible in the drawing.
pub fn probe_region_b_applied(ctx: &mut Ctx, font: &[u8], coords: &[(i32, i32)]) {
    let Ok(f) = FontRef::new(font) else { return };
    let Some(og) = f.outline_glyphs().get(GlyphId::new(0)) else { return };
    let nc = [NormalizedCoord::from_bits(8192)];
    let r = guard(|| {
        let mut pen = RecPen::default();
        let settings = DrawSettings::unhinted(Size::unscaled(), LocationRef::new(&nc)).with_path_style(skrifa::outline::pen::PathStyle::HarfBuzz);
        og.draw(settings, &mut pen).map(|_| pen.0).map_err(|e| format!("{}", e))
    });
    ctx.eval();
    match r {
        Ok(Ok(cmds)) => {
            let first = cmds.iter().find_map(|c| if let Cmd::Move(x, y) = c { Some((*x, *y)) } else { None });
            let exp = (coords[0].0 as f64 + 10.0, coords[0].1 as f64 - 20.0);
            if let Some(p) = first {
                if (p.0 - exp.0).abs() > 0.01 || (p.1 - exp.1).abs() > 0.01 {
                    ctx.violation(
                        "draw:all-optional-tuple:other-regions-of-the-glyph-not-applied",
                        json!({"what": "glyph with an all-optional tuple followed by an ordinary tuple: skrifa draws the glyph without the ordinary tuple's deltas",
                               "first_point_drawn": [p.0, p.1], "expected": [exp.0, exp.1], "default": coords[0]}),
                        Some(font),
                    );
                } else {
                    ctx.count("draw_all_optional_probe_ok", 1);
                }
            }
        }
        Ok(Err(_)) => ctx.count("draw_all_optional_probe_draw_error", 1),
        Err(p) => ctx.judge_panic(&p, "draw (all-optional probe)", json!({}), Some(font)),
    }
}

/// Replay of a recorded drawing violation: prints per-tuple diagnostics.
pub fn replay_draw(ctx: &mut Ctx, rec: &serde_json::Value, data: &[u8]) {
    let sig = rec["signature"].as_str().unwrap_or("");
    let gid: u32 = sig.split(':').find_map(|p| p.strip_prefix('g').and_then(|g| g.parse().ok())).unwrap_or(0);
    let loc: Vec<i16> = rec["detail"]["loc_f2dot14_bits"].as_array().map(|a| a.iter().map(|v| v.as_i64().unwrap_or(0) as i16).collect()).unwrap_or_default();
    let Ok(font) = FontRef::new(data) else { return };
    let (Ok(glyf), Ok(loca), Ok(gvar_t)) = (font.glyf(), font.loca(None), font.gvar()) else { return };
    let Ok(raw) = RawGvar::parse(gvar_t.offset_data().as_bytes()) else { return };
    let Ok(Some(Glyph::Simple(glyph))) = loca.get_glyf(GlyphId::new(gid), &glyf) else { return };
    let np = glyph.num_points();
    let mut raw_pts: Vec<Point<i32>> = vec![Point::default(); np];
    let mut raw_flags: Vec<PointFlags> = vec![PointFlags::default(); np];
    let _ = glyph.read_points_fast(&mut raw_pts, &mut raw_flags);
    let mut coords: Vec<(i32, i32)> = raw_pts.iter().map(|p| (p.x, p.y)).collect();
    coords.extend_from_slice(&[(0, 0); 4]);
    let ends: Vec<usize> = glyph.end_pts_of_contours().iter().map(|e| e.get() as usize).collect();
    let Ok(var) = raw.glyph(gid as usize, coords.len()) else { return };
    eprintln!("replay: gid {} loc {:?} points {} contours {:?}", gid, loc, np, ends);
    for (i, t) in var.tuples.iter().enumerate() {
        let (s, partial, zero) = region_scalar(&t.tents, &loc);
        let dmax = t.dx.iter().chain(t.dy.iter()).map(|v| v.abs()).max().unwrap_or(0);
        eprintln!("  tuple {}: tents {:?} scalar {} (x65536 = {}) partial_axes {} zero {} sparse {} n_explicit {} dmax {}", i, t.tents, s, s * 65536.0, partial, zero, t.points.is_some(), t.dx.len(), dmax);
    }
    if let Ok(r) = reference_outline(&coords, &ends, &var, &loc) {
        eprintln!("  eps_fixed {} eps_f32 {}", r.eps_fixed, r.eps_f32);
    }
    let mut rng = Rng::new(1);
    let _ = check_draw_font(ctx, data, "replay", &[gid], 1, &mut rng, false, 0);
}
