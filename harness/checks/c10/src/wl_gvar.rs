//! Oracle (ii): glyph variation data handed to the write-fonts builder,
//! compiled, decoded again (independent spec decoder AND read-fonts) and
//! completed with spec inference reproduces required deltas exactly and
//! optional ones within the tolerance they were declared optional under.

use crate::model::{implied_tent, infer, Frac, RawGlyphVar, RawGvar, TentBits};
use crate::wl_iup::{check_iup, gen_deltas, gen_outline, IupCase};
use read_fonts::{FontData, FontRead};
use serde_json::json;
use vf_core::{guard, Ctx, Digest, Rng};
use write_fonts::tables::gvar::{GlyphDelta, GlyphDeltas, GlyphVariations, Gvar, Tent};
use write_fonts::types::{F2Dot14, GlyphId};

#[derive(Clone, Debug)]
pub struct TupleSpec {
    pub tents: Vec<TentBits>,
    /// pass start/end explicitly to `Tent::new` even when they are the implied ones
    pub explicit_intermediate: bool,
    pub deltas: Vec<(i16, i16, bool)>,
    /// original (quarter unit) deltas and tolerance when the flags came from IUP
    pub orig: Option<(Vec<(i32, i32)>, f64)>,
}

#[derive(Clone, Debug)]
pub struct GlyphSpec {
    /// all points, phantom points last
    pub coords: Vec<(i32, i32)>,
    pub on_curve: Vec<bool>,
    pub ends: Vec<usize>,
    pub tuples: Vec<TupleSpec>,
    pub advance: u16,
}

#[derive(Clone, Debug)]
pub struct FontSpec {
    pub n_axes: usize,
    pub glyphs: Vec<GlyphSpec>,
    pub profile: &'static str,
    pub case: u64,
}

impl FontSpec {
    pub fn digest(&self) -> u64 {
        let mut d = Digest::new();
        d.u64(self.n_axes as u64);
        for g in &self.glyphs {
            d.dbg(&g.coords);
            d.dbg(&g.ends);
            for t in &g.tuples {
                d.dbg(&t.tents);
                d.dbg(&t.deltas);
            }
        }
        d.finish()
    }
    pub fn summary(&self) -> serde_json::Value {
        json!({
            "profile": self.profile, "case": self.case, "axes": self.n_axes, "glyphs": self.glyphs.len(),
            "points": self.glyphs.iter().map(|g| g.coords.len()).collect::<Vec<_>>().iter().take(12).collect::<Vec<_>>(),
            "tuples": self.glyphs.iter().map(|g| g.tuples.len()).collect::<Vec<_>>().iter().take(12).collect::<Vec<_>>(),
        })
    }
}

// ------------------------------------------------------------------ generators

const SPECIAL_PEAKS: [i16; 8] = [16384, 16384, 8192, 1, 16383, 4096, 12288, 2];

pub fn gen_region(rng: &mut Rng, n_axes: usize) -> Vec<TentBits> {
    let mut v: Vec<TentBits> = vec![(0, 0, 0); n_axes];
    let mut any = false;
    for t in v.iter_mut() {
        if rng.chance(4, 10) && n_axes > 1 {
            continue;
        }
        any = true;
        *t = gen_tent(rng);
    }
    if !any {
        let a = rng.usize(n_axes);
        v[a] = gen_tent(rng);
    }
    v
}

fn gen_tent(rng: &mut Rng) -> TentBits {
    let neg = rng.chance(1, 3);
    let p: i16 = if rng.chance(2, 3) { *rng.pick(&SPECIAL_PEAKS) } else { rng.range(1, 16384) as i16 };
    let (s, e): (i16, i16) = if rng.chance(1, 2) {
        (0, p)
    } else {
        let s = match rng.below(4) {
            0 => 0,
            1 => p,
            2 => p / 2,
            _ => rng.range(0, p as i64) as i16,
        };
        let e = match rng.below(4) {
            0 => 16384,
            1 => p,
            2 => p + (16384 - p) / 2,
            _ => rng.range(p as i64, 16384) as i16,
        };
        (s, e)
    };
    if neg {
        (-e, -p, -s)
    } else {
        (s, p, e)
    }
}

/// Hand-made required flags + delta values exercising run / gap boundaries.
fn gen_run_tuple(rng: &mut Rng, n: usize) -> Vec<(i16, i16, bool)> {
    let mut req = vec![false; n];
    match rng.below(5) {
        0 => {
            for r in req.iter_mut() {
                *r = true;
            }
        }
        1 | 2 => {
            // gaps between referenced point numbers around the 8/16 bit and run limits
            let gaps = [1usize, 2, 127, 128, 129, 255, 256, 257, 300, 64, 63, 65];
            let mut i = if rng.bool() { 0 } else { *rng.pick(&gaps) };
            while i < n {
                req[i] = true;
                i += *rng.pick(&gaps);
            }
        }
        3 => {
            // blocks of consecutive referenced points of boundary lengths
            let lens = [63usize, 64, 65, 127, 128, 129, 130, 1];
            let mut i = rng.usize(5);
            while i < n {
                let l = *rng.pick(&lens);
                for r in req.iter_mut().skip(i).take(l) {
                    *r = true;
                }
                i += l + *rng.pick(&[1usize, 2, 100, 256, 300]);
            }
        }
        _ => {
            let den = *rng.pick(&[2u64, 3, 8, 50]);
            for r in req.iter_mut() {
                *r = rng.chance(1, den);
            }
        }
    }
    if n > 4 && !req.iter().any(|r| *r) {
        req[rng.usize(n)] = true;
    }
    // value runs: segments of (kind, len)
    let gen_values = |rng: &mut Rng, count: usize| -> Vec<i16> {
        let mut v = Vec::with_capacity(count);
        while v.len() < count {
            let len = *rng.pick(&[1usize, 2, 3, 62, 63, 64, 65, 66, 128, 129]);
            let kind = rng.below(6);
            for _ in 0..len {
                let x: i16 = match kind {
                    0 => 0,
                    1 => *rng.pick(&[-128i16, -127, -1, 1, 126, 127]),
                    2 => *rng.pick(&[-32768i16, -129, 128, 129, 255, 256, 32767, -256]),
                    3 => rng.range(-128, 127) as i16,
                    4 => rng.range(-3000, 3000) as i16,
                    _ => {
                        if rng.chance(1, 4) {
                            0
                        } else {
                            rng.range(-200, 200) as i16
                        }
                    }
                };
                v.push(x);
            }
        }
        v.truncate(count);
        v
    };
    let n_req = req.iter().filter(|r| **r).count();
    // values laid out over the *referenced* sequence (that is what gets packed
    // when the sparse form wins) or over all points (dense form)
    let over_all = rng.bool();
    let xs = gen_values(rng, if over_all { n } else { n_req });
    let ys = gen_values(rng, if over_all { n } else { n_req });
    let mut out = Vec::with_capacity(n);
    let mut k = 0usize;
    for i in 0..n {
        if over_all {
            out.push((xs[i], ys[i], req[i]));
        } else if req[i] {
            out.push((xs[k], ys[k], true));
            k += 1;
        } else {
            out.push((0, 0, false));
        }
    }
    out
}

/// Limits the magnitude so that coordinate + delta differences stay inside
/// the 16.16 range of the scaler (extreme values are the subject of C20).
fn clamp_i16(v: i32) -> i16 {
    v.clamp(-4000, 4000) as i16
}

pub fn gen_font(ctx: &mut Ctx, rng: &mut Rng, profile: &'static str, case: u64) -> FontSpec {
    let n_axes = match profile {
        "long-offsets" => rng.range(1, 2) as usize,
        _ => *rng.pick(&[1usize, 1, 2, 2, 3, 4, 5, 6]),
    };
    // pool of regions so that peaks recur across glyphs (shared tuples)
    let pool_n = rng.range(1, 6) as usize;
    let pool: Vec<Vec<TentBits>> = (0..pool_n).map(|_| gen_region(rng, n_axes)).collect();
    let n_glyphs = match profile {
        "small" => rng.range(1, 8) as usize,
        "runs" => rng.range(1, 3) as usize,
        "big" => 1,
        "shared" => rng.range(4, 20) as usize,
        "long-offsets" => rng.range(36, 48) as usize,
        _ => 2,
    };
    let mut glyphs = vec![];
    for gi in 0..n_glyphs {
        let (n_contours, lo, hi): (usize, i64, i64) = match profile {
            "small" | "shared" => (rng.range(0, 3) as usize, 1, 14),
            "runs" => (rng.range(1, 2) as usize, 70, 700),
            "big" => (rng.range(1, 2) as usize, 900, 1990),
            "long-offsets" => (1, 480, 520),
            _ => (1, 3, 10),
        };
        let ppc = move |r: &mut Rng| r.range(lo, hi) as usize;
        let extent = *rng.pick(&[60, 400, 1500]);
        let (coords, ends) = gen_outline(rng, n_contours, &ppc, extent);
        let n = coords.len();
        let n_real = n - 4;
        let mut on_curve = vec![true; n_real];
        if rng.chance(1, 3) {
            // some off-curve points; the first point of every contour stays on-curve
            let mut start = 0usize;
            for &e in &ends {
                for f in on_curve.iter_mut().take(e + 1).skip(start + 1) {
                    *f = !rng.chance(1, 3);
                }
                start = e + 1;
            }
        }
        let n_tuples = match profile {
            "small" => rng.range(0, 5) as usize,
            "runs" => rng.range(1, 3) as usize,
            "big" => rng.range(1, 2) as usize,
            "shared" => rng.range(1, 6) as usize,
            "long-offsets" => 2,
            _ => 1,
        };
        let mut tuples = vec![];
        // in the "shared" profile several tuples of a glyph reuse one delta
        // structure so that their point-number sets coincide
        let mut reuse: Option<Vec<(i16, i16, bool)>> = None;
        // most glyphs keep phantom point 0 (the origin) fixed, so that the
        // drawing oracle has a single rounding step
        let zero_pp0 = rng.chance(3, 4);
        for ti in 0..n_tuples {
            let tents = if rng.chance(3, 4) { rng.pick(&pool).clone() } else { gen_region(rng, n_axes) };
            let explicit_intermediate = rng.chance(1, 4);
            let mode = match profile {
                "runs" => {
                    if rng.chance(2, 3) {
                        1
                    } else {
                        0
                    }
                }
                "long-offsets" => 3,
                "big" => {
                    if rng.bool() {
                        0
                    } else {
                        1
                    }
                }
                _ => *rng.pick(&[0u64, 0, 0, 1, 2]),
            };
            let mut orig = None;
            let deltas: Vec<(i16, i16, bool)> = if let (Some(r), true) = (&reuse, rng.chance(2, 3)) {
                // same referenced set, different values
                r.iter()
                    .map(|d| {
                        if d.2 {
                            (clamp_i16(d.0 as i32 + rng.range(-9, 9) as i32), clamp_i16(d.1 as i32 * 2), true)
                        } else {
                            (d.0, d.1, false)
                        }
                    })
                    .collect()
            } else {
                match mode {
                    0 => {
                        // flags from the optimiser
                        let tol = *rng.pick(&[0.0, 0.5, 0.5, 1.0, 2.0]);
                        let frac = rng.chance(1, 5);
                        let mut dq: Vec<(i32, i32)> = gen_deltas(rng, &coords, &ends, tol, frac)
                            .into_iter()
                            .map(|d| (d.0.clamp(-8000, 8000), d.1.clamp(-8000, 8000)))
                            .collect();
                        if zero_pp0 {
                            dq[n - 4] = (0, 0);
                        }
                        let case = IupCase { coords: coords.clone(), deltas_q: dq.clone(), ends: ends.clone(), tol };
                        match check_iup(ctx, &case, "gvar-gen") {
                            Some(out) if out.len() == n => {
                                orig = Some((dq, tol));
                                out.iter().map(|d| (d.x, d.y, d.required)).collect()
                            }
                            _ => gen_run_tuple(rng, n),
                        }
                    }
                    1 => gen_run_tuple(rng, n),
                    2 => {
                        // random flags, random small deltas; all-optional included
                        let p = *rng.pick(&[0u64, 1, 2, 4]);
                        (0..n)
                            .map(|_| (rng.range(-300, 300) as i16, rng.range(-300, 300) as i16, p > 0 && rng.chance(1, p)))
                            .collect()
                    }
                    _ => {
                        // dense 16-bit deltas (bulk, for long offsets)
                        (0..n).map(|_| (rng.range(200, 3000) as i16, rng.range(-3000, -200) as i16, true)).collect()
                    }
                }
            };
            let mut deltas = deltas;
            if zero_pp0 {
                deltas[n - 4].0 = 0;
                deltas[n - 4].1 = 0;
            }
            // A tuple without any required delta is compiled into malformed
            // data by the builder (known finding, see `probe_all_optional`);
            // it is kept out of the general workload so that the remaining
            // checks stay meaningful.
            if !deltas.iter().any(|d| d.2) {
                deltas[0].2 = true;
                ctx.count("gvar_gen_all_optional_tuple_given_one_required", 1);
            }
            if profile == "shared" && ti == 0 {
                reuse = Some(deltas.clone());
            }
            tuples.push(TupleSpec { tents, explicit_intermediate, deltas, orig });
        }
        let _ = gi;
        glyphs.push(GlyphSpec { coords, on_curve, ends, tuples, advance: rng.range(0, 2000) as u16 });
    }
    FontSpec { n_axes, glyphs, profile, case }
}

// ------------------------------------------------------------------ build

fn f2(bits: i16) -> F2Dot14 {
    F2Dot14::from_bits(bits)
}

pub fn build_gvar(spec: &FontSpec) -> Result<Gvar, String> {
    let mut vars = vec![];
    for (gid, g) in spec.glyphs.iter().enumerate() {
        let mut tv = vec![];
        for t in &g.tuples {
            let tents: Vec<Tent> = t
                .tents
                .iter()
                .map(|&(s, p, e)| {
                    let implied = implied_tent(p);
                    if (s, p, e) == implied && !t.explicit_intermediate {
                        Tent::new(f2(p), None)
                    } else {
                        Tent::new(f2(p), Some((f2(s), f2(e))))
                    }
                })
                .collect();
            let deltas: Vec<GlyphDelta> = t.deltas.iter().map(|&(x, y, r)| GlyphDelta::new(x, y, r)).collect();
            tv.push(GlyphDeltas::new(tents, deltas));
        }
        vars.push(GlyphVariations::new(GlyphId::new(gid as u32), tv));
    }
    Gvar::new(vars, spec.n_axes as u16).map_err(|e| format!("{}", e))
}

// ------------------------------------------------------------------ check

fn viol(ctx: &mut Ctx, spec: &FontSpec, kind: &str, gid: usize, tuple: usize, detail: serde_json::Value, bytes: &[u8]) {
    let sig = format!("gvar:{}:{}:case{}:g{}:t{}", kind, spec.profile, spec.case, gid, tuple);
    let mut d = detail;
    d["font_case"] = spec.summary();
    if let Some(g) = spec.glyphs.get(gid) {
        if g.coords.len() <= 24 {
            d["glyph"] = json!({"coords": g.coords, "contour_ends": g.ends,
                "tuples": g.tuples.iter().map(|t| json!({"tents_f2dot14_bits": t.tents, "deltas_x_y_required": t.deltas, "tolerance": t.orig.as_ref().map(|o| o.1)})).collect::<Vec<_>>()});
        }
    }
    ctx.violation(&sig, d, Some(bytes));
}

/// Build, compile and check one font spec. Returns the compiled gvar bytes
/// when everything needed for the drawing oracle is available.
pub fn check_font_roundtrip(ctx: &mut Ctx, spec: &FontSpec) -> Option<Vec<u8>> {
    ctx.eval();
    ctx.count("gvar_fonts_built", 1);
    ctx.count(&format!("gvar_profile:{}", spec.profile), 1);
    let built = guard(|| build_gvar(spec).map(|g| write_fonts::dump_table(&g).map_err(|e| format!("{}", e))));
    let bytes = match built {
        Err(p) => {
            ctx.judge_panic(&p, "Gvar::new / dump_table", spec.summary(), None);
            return None;
        }
        Ok(Err(e)) => {
            // input rejected by the builder: outside the property's quantifier
            ctx.count("gvar_builder_rejected", 1);
            ctx.sample_by_kind("gvar_rejected", json!({"error": e, "case": spec.summary()}));
            return None;
        }
        Ok(Ok(Err(e))) => {
            ctx.count("gvar_dump_rejected", 1);
            ctx.sample_by_kind("gvar_dump_rejected", json!({"error": e, "case": spec.summary()}));
            return None;
        }
        Ok(Ok(Ok(b))) => b,
    };
    let raw = match RawGvar::parse(&bytes) {
        Ok(r) => r,
        Err(e) => {
            viol(ctx, spec, "undecodable-header", 0, 0, json!({"what": "compiled gvar header cannot be decoded per spec", "error": e}), &bytes);
            return None;
        }
    };
    ctx.count(if raw.long_offsets { "gvar_long_offsets" } else { "gvar_short_offsets" }, 1);
    ctx.label("gvar_offset_format", if raw.long_offsets { "long" } else { "short" });
    if raw.axis_count != spec.n_axes || raw.glyph_count != spec.glyphs.len() {
        viol(ctx, spec, "header-counts", 0, 0, json!({"what": "axis/glyph count differs", "axis_count": raw.axis_count, "glyph_count": raw.glyph_count}), &bytes);
        return None;
    }
    let rf = match write_read(&bytes) {
        Ok(g) => g,
        Err(e) => {
            viol(ctx, spec, "read-fonts-rejects", 0, 0, json!({"what": "read-fonts cannot read the compiled gvar", "error": e}), &bytes);
            return None;
        }
    };
    let mut ok = true;
    let mut nontrivial = false;
    for (gid, g) in spec.glyphs.iter().enumerate() {
        let n = g.coords.len();
        let rg = match raw.glyph(gid, n) {
            Ok(r) => r,
            Err(e) => {
                viol(ctx, spec, "undecodable-glyph", gid, 0,
                     json!({"what": "compiled glyph variation data cannot be decoded per spec", "error": e,
                            "all_optional_tuples": g.tuples.iter().map(|t| t.deltas.iter().all(|d| !d.2)).collect::<Vec<_>>()}), &bytes);
                ok = false;
                continue;
            }
        };
        if rg.tuples.len() != g.tuples.len() {
            viol(ctx, spec, "tuple-count", gid, 0, json!({"what": "tuple count differs", "got": rg.tuples.len(), "expected": g.tuples.len()}), &bytes);
            ok = false;
            continue;
        }
        for (ti, (t, rt)) in g.tuples.iter().zip(&rg.tuples).enumerate() {
            ctx.eval();
            ctx.count("gvar_tuples_checked", 1);
            // region
            if rt.tents != t.tents {
                viol(ctx, spec, "region-differs", gid, ti, json!({"what": "effective (start,peak,end) per axis differs", "got": rt.tents, "expected": t.tents, "shared_tuple_index": rt.shared_tuple_index}), &bytes);
                ok = false;
                continue;
            }
            if rt.data_used != rt.data_size {
                viol(ctx, spec, "tuple-data-size", gid, ti, json!({"what": "variationDataSize differs from the bytes the packed data occupies", "size": rt.data_size, "used": rt.data_used}), &bytes);
                ok = false;
                continue;
            }
            if !rt.private_points && !rg.shared_points_flag {
                viol(ctx, spec, "no-point-numbers", gid, ti, json!({"what": "tuple has neither private nor shared point numbers"}), &bytes);
                ok = false;
                continue;
            }
            ctx.count(if rt.shared_tuple_index.is_some() { "gvar_tuple_shared_peak" } else { "gvar_tuple_embedded_peak" }, 1);
            ctx.count(if rt.private_points { "gvar_tuple_private_points" } else { "gvar_tuple_shared_points" }, 1);
            ctx.count(if rt.has_intermediate { "gvar_tuple_with_intermediate" } else { "gvar_tuple_peak_only" }, 1);
            ctx.count(if rt.points.is_none() { "gvar_tuple_all_points" } else { "gvar_tuple_sparse_points" }, 1);
            for (k, l) in rt.x_runs.iter().chain(rt.y_runs.iter()) {
                if *l >= 63 {
                    ctx.label("delta_runs_kind_len_ge63", &format!("{}:{}", ["i8", "i16", "zero", "i32"][*k as usize], l));
                }
                ctx.count(&format!("delta_run_kind:{}", ["i8", "i16", "zero", "i32"][*k as usize]), 1);
            }
            if let Some(pts) = &rt.points {
                let mut prev = 0u16;
                for p in pts {
                    let gap = p - prev;
                    if matches!(gap, 127 | 128 | 129 | 255 | 256 | 257) {
                        ctx.label("point_number_gaps_at_boundary", &gap.to_string());
                    }
                    prev = *p;
                }
                if pts.len() >= 127 {
                    ctx.label("point_count_class", if pts.len() >= 128 { ">=128 (2-byte count)" } else { "127" });
                }
            }
            let explicit = match rt.explicit(n) {
                Ok(e) => e,
                Err(e) => {
                    viol(ctx, spec, "delta-count", gid, ti, json!({"what": e}), &bytes);
                    ok = false;
                    continue;
                }
            };
            // required deltas exactly
            let mut bad = None;
            for i in 0..n {
                let (x, y, req) = t.deltas[i];
                match explicit[i] {
                    Some((ex, ey)) => {
                        if ex != x as i32 || ey != y as i32 {
                            bad = Some((i, "explicit delta differs from input", json!([ex, ey]), json!([x, y, req])));
                            break;
                        }
                    }
                    None => {
                        if req {
                            bad = Some((i, "required delta is not present", json!(null), json!([x, y, req])));
                            break;
                        }
                    }
                }
            }
            if let Some((i, what, got, exp)) = bad {
                viol(ctx, spec, "required-delta", gid, ti, json!({"what": what, "point": i, "got": got, "input": exp, "points_decoded": rt.points.as_ref().map(|p| p.len())}), &bytes);
                ok = false;
                continue;
            }
            // optional deltas within tolerance after spec inference
            let n_omitted = explicit.iter().filter(|e| e.is_none()).count();
            if n_omitted > 0 {
                nontrivial = true;
                ctx.count("gvar_tuples_with_omitted_points", 1);
            }
            if let Some((orig, tol)) = &t.orig {
                let ex_frac: Vec<Option<(Frac, Frac)>> = explicit.iter().map(|e| e.map(|(x, y)| (Frac::int(x as i64), Frac::int(y as i64)))).collect();
                let inferred = infer::<Frac>(&g.coords, &g.ends, &ex_frac);
                let fractional = orig.iter().any(|d| d.0 % 4 != 0 || d.1 % 4 != 0);
                let allowed = tol + if fractional { 0.5f64.sqrt() } else { 0.0 };
                for i in 0..n {
                    if explicit[i].is_some() {
                        continue;
                    }
                    let ex = inferred[i].0 - Frac::new(orig[i].0 as i128, 4);
                    let ey = inferred[i].1 - Frac::new(orig[i].1 as i128, 4);
                    let err = (ex * ex + ey * ey).to_f64().sqrt();
                    if err > allowed + 1e-6 {
                        // same diagnosis as in wl_iup: is the miss caused by the
                        // rounding of retained non-integer deltas?
                        let unrounded: Vec<Option<(Frac, Frac)>> = explicit
                            .iter()
                            .enumerate()
                            .map(|(k, e)| e.map(|_| (Frac::new(orig[k].0 as i128, 4), Frac::new(orig[k].1 as i128, 4))))
                            .collect();
                        let inf_u = infer::<Frac>(&g.coords, &g.ends, &unrounded);
                        let ux = inf_u[i].0 - Frac::new(orig[i].0 as i128, 4);
                        let uy = inf_u[i].1 - Frac::new(orig[i].1 as i128, 4);
                        let unrounded_ok = (ux * ux + uy * uy).to_f64().sqrt() <= tol + 1e-6;
                        let detail = json!({"what": "omitted delta not reproduced by spec inference within the tolerance it was declared optional under",
                                    "point": i, "inferred": [inferred[i].0.to_f64(), inferred[i].1.to_f64()],
                                    "inferred_from_unrounded_neighbours": [inf_u[i].0.to_f64(), inf_u[i].1.to_f64()],
                                    "input": [orig[i].0 as f64 / 4.0, orig[i].1 as f64 / 4.0], "error": err, "allowed": allowed});
                        if fractional && unrounded_ok {
                            ctx.violation("iup:optional-exceeds-tolerance-after-rounding:fractional-input:same-coordinate-neighbours", detail, Some(&bytes));
                        } else {
                            viol(ctx, spec, "optional-delta", gid, ti, detail, &bytes);
                            ok = false;
                        }
                        break;
                    }
                }
                ctx.count("gvar_tuples_checked_against_iup_tolerance", 1);
            }
        }
        // the read-fonts view of the same bytes
        if !check_read_fonts_view(ctx, spec, gid, g, &rg, &rf, &bytes) {
            ok = false;
        }
        if rg.shared_points_flag {
            ctx.count("gvar_glyphs_with_shared_points", 1);
            nontrivial = true;
        }
        if rg.tuples.iter().any(|t| t.shared_tuple_index.is_some()) {
            nontrivial = true;
        }
    }
    if nontrivial {
        ctx.nontrivial(spec.digest());
    }
    ctx.sample_by_kind(&format!("gvar-{}", spec.profile), spec.summary());
    ok.then_some(bytes)
}

fn write_read(bytes: &[u8]) -> Result<read_fonts::tables::gvar::Gvar<'_>, String> {
    read_fonts::tables::gvar::Gvar::read(FontData::new(bytes)).map_err(|e| format!("{}", e))
}

fn check_read_fonts_view(
    ctx: &mut Ctx,
    spec: &FontSpec,
    gid: usize,
    g: &GlyphSpec,
    rg: &RawGlyphVar,
    rf: &read_fonts::tables::gvar::Gvar,
    bytes: &[u8],
) -> bool {
    type View = Vec<(Vec<i16>, Option<(Vec<i16>, Vec<i16>)>, bool, Vec<u16>, Vec<(u16, i32, i32)>)>;
    let n = g.coords.len();
    let r = guard(|| -> Result<View, String> {
        let Some(data) = rf.glyph_variation_data(GlyphId::new(gid as u32)).map_err(|e| format!("{}", e))? else {
            return Ok(vec![]);
        };
        let mut v = vec![];
        for t in data.tuples() {
            let peak: Vec<i16> = t.peak().values().iter().map(|x| x.get().to_bits()).collect();
            let inter = match (t.intermediate_start(), t.intermediate_end()) {
                (Some(s), Some(e)) => Some((
                    s.values().iter().map(|x| x.get().to_bits()).collect(),
                    e.values().iter().map(|x| x.get().to_bits()).collect(),
                )),
                _ => None,
            };
            let all = t.has_deltas_for_all_points();
            let pts: Vec<u16> = if all { vec![] } else { t.point_numbers().collect() };
            let deltas: Vec<(u16, i32, i32)> = t.deltas().take(n + 70000).map(|d| (d.position, d.x_delta, d.y_delta)).collect();
            v.push((peak, inter, all, pts, deltas));
        }
        Ok(v)
    });
    let view = match r {
        Err(p) => {
            ctx.judge_panic(&p, "read-fonts gvar tuples()/deltas()", spec.summary(), Some(bytes));
            return false;
        }
        Ok(Err(e)) => {
            viol(ctx, spec, "read-fonts-glyph-error", gid, 0, json!({"what": "read-fonts fails on compiled glyph variation data", "error": e}), bytes);
            return false;
        }
        Ok(Ok(v)) => v,
    };
    if view.len() != rg.tuples.len() {
        viol(ctx, spec, "read-fonts-tuple-count", gid, 0, json!({"what": "read-fonts yields a different number of tuples", "read_fonts": view.len(), "spec_decode": rg.tuples.len()}), bytes);
        return false;
    }
    for (ti, ((peak, inter, all, pts, deltas), rt)) in view.iter().zip(&rg.tuples).enumerate() {
        ctx.eval();
        let exp_peak: Vec<i16> = rt.tents.iter().map(|t| t.1).collect();
        let tents_rf: Vec<TentBits> = match inter {
            Some((s, e)) if s.len() == peak.len() && e.len() == peak.len() => (0..peak.len()).map(|a| (s[a], peak[a], e[a])).collect(),
            _ => peak.iter().map(|p| implied_tent(*p)).collect(),
        };
        if *peak != exp_peak || tents_rf != rt.tents {
            viol(ctx, spec, "read-fonts-region", gid, ti, json!({"what": "read-fonts peak/intermediate tuples differ from the spec decode", "read_fonts": tents_rf, "spec_decode": rt.tents}), bytes);
            return false;
        }
        if *all != rt.points.is_none() {
            viol(ctx, spec, "read-fonts-all-points", gid, ti, json!({"what": "has_deltas_for_all_points disagrees with the packed point count", "read_fonts": all, "spec_decode_all": rt.points.is_none()}), bytes);
            return false;
        }
        let exp: Vec<(u16, i32, i32)> = match &rt.points {
            None => (0..n).map(|i| (i as u16, rt.dx[i], rt.dy[i])).collect(),
            Some(p) => {
                if pts != p {
                    let first = pts.iter().zip(p.iter()).position(|(a, b)| a != b);
                    viol(ctx, spec, "read-fonts-point-numbers", gid, ti, json!({"what": "point_numbers() differs from the spec decode", "read_fonts_len": pts.len(), "spec_len": p.len(), "first_diff": first}), bytes);
                    return false;
                }
                p.iter().enumerate().map(|(k, pt)| (*pt, rt.dx[k], rt.dy[k])).collect()
            }
        };
        if *deltas != exp {
            let first = deltas.iter().zip(exp.iter()).position(|(a, b)| a != b);
            viol(ctx, spec, "read-fonts-deltas", gid, ti,
                 json!({"what": "deltas() differs from the spec decode", "read_fonts_len": deltas.len(), "spec_len": exp.len(), "first_diff": first,
                        "read_fonts_at": first.and_then(|i| deltas.get(i)), "spec_at": first.and_then(|i| exp.get(i))}), bytes);
            return false;
        }
        ctx.count("gvar_tuples_read_fonts_agrees", 1);
    }
    true
}

pub const PROFILES: [&str; 5] = ["small", "runs", "shared", "big", "long-offsets"];

// ------------------------------------------------------------------ all-optional tuples

/// A tuple whose deltas are all optional (what `iup_delta_optimize` returns
/// for an all-zero region) is a legitimate builder input. The property
/// demands that the compiled table, read back with spec inference, gives
/// zero deltas for that region and leaves the other regions intact.
pub fn probe_all_optional(ctx: &mut Ctx) {
    for variant in 0..4u64 {
        let mut rng = Rng::derive(ctx.seed, "c10-all-optional", variant);
        let n_real = [3usize, 5, 9, 1][variant as usize];
        let ppc = move |_: &mut Rng| n_real;
        let (coords, ends) = gen_outline(&mut rng, 1, &ppc, 300);
        let n = coords.len();
        // region A: all deltas zero, flags from the optimiser itself
        let case = IupCase { coords: coords.clone(), deltas_q: vec![(0, 0); n], ends: ends.clone(), tol: 0.5 };
        let Some(out) = check_iup(ctx, &case, "all-zero") else { continue };
        let a: Vec<(i16, i16, bool)> = out.iter().map(|d| (d.x, d.y, d.required)).collect();
        if a.iter().any(|d| d.2) {
            continue;
        }
        // region B: ordinary dense deltas
        let b: Vec<(i16, i16, bool)> = (0..n).map(|i| if i + 4 < n { (10 + i as i16, -20, true) } else { (0, 0, true) }).collect();
        let spec = FontSpec {
            n_axes: 1,
            glyphs: vec![GlyphSpec {
                coords: coords.clone(),
                on_curve: vec![true; n - 4],
                ends: ends.clone(),
                tuples: vec![
                    TupleSpec { tents: vec![(0, 16384, 16384)], explicit_intermediate: false, deltas: a, orig: Some((vec![(0, 0); n], 0.5)) },
                    TupleSpec { tents: vec![(0, 8192, 8192)], explicit_intermediate: false, deltas: b, orig: None },
                ],
                advance: 500,
            }],
            profile: "all-optional",
            case: variant,
        };
        ctx.eval();
        ctx.count("gvar_all_optional_probes", 1);
        let built = guard(|| build_gvar(&spec).map(|g| write_fonts::dump_table(&g).map_err(|e| format!("{}", e))));
        let bytes = match built {
            Ok(Ok(Ok(b))) => b,
            Ok(_) => {
                ctx.count("gvar_all_optional_rejected", 1);
                continue;
            }
            Err(p) => {
                ctx.judge_panic(&p, "Gvar::new / dump_table (all-optional tuple)", spec.summary(), None);
                continue;
            }
        };
        let decoded = RawGvar::parse(&bytes).and_then(|r| r.glyph(0, n));
        let fine = match &decoded {
            Ok(g) => g.tuples.len() == 2 && g.tuples[0].explicit(n).map(|e| e.iter().all(|d| d.is_none() || *d == Some((0, 0)))).unwrap_or(false),
            Err(_) => false,
        };
        if !fine {
            ctx.violation(
                "gvar:all-optional-tuple:compiled-as-all-points-without-delta-data",
                json!({"what": "a tuple whose deltas are all optional is compiled with packed point count 0 (= all points) but no deltas; the glyph's variation data is undecodable per spec",
                       "decode": decoded.as_ref().map(|g| g.tuples.len()).map_err(|e| e.clone()),
                       "coords": coords, "contour_ends": ends, "bytes_hex": vf_core::hex(&bytes)}),
                Some(&bytes),
            );
        } else {
            ctx.count("gvar_all_optional_probe_ok", 1);
        }
        // what a consumer sees: does skrifa still apply region B?
        if let Ok(Ok(font)) = guard(|| crate::wl_draw::build_font(&spec, &bytes)) {
            crate::wl_draw::probe_region_b_applied(ctx, &font, &coords);
        }
    }
}
