fn main() {
    vf_core::main_with("C15", vf_c15::run, vf_c15::REPLAY);
}
