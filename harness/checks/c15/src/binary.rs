//! Binary / ternary arithmetic of `Fixed` and `F26Dot6`: mul, div, mul_div equal
//! the exactly computed result rounded half away from zero whenever that result
//! is representable; division by zero saturates; add/sub family.
//!
//! `F26Dot6` shares the implementation macro of `Fixed`: its `*` and `/` scale by
//! 2^16 on the raw bits (FreeType's FT_MulFix / FT_DivFix, one operand being a
//! 16.16 factor). The oracle follows that documented mechanism on raw bits.

use crate::common::{bitlen, div_half_away, rounding_class, Acc};
use font_types::{F26Dot6, Fixed};
use serde_json::json;
use vf_core::{guard, Ctx, Rng};

#[derive(Clone, Copy, Debug, PartialEq, Eq)]
pub enum Op {
    Mul,
    Div,
    MulDiv,
    Add,
    Sub,
    SatAdd,
    SatSub,
    WrapAdd,
    WrapSub,
    CheckedAdd,
    MulAssign,
    DivAssign,
}

impl Op {
    fn name(self) -> &'static str {
        match self {
            Op::Mul => "mul",
            Op::Div => "div",
            Op::MulDiv => "mul_div",
            Op::Add => "add",
            Op::Sub => "sub",
            Op::SatAdd => "saturating_add",
            Op::SatSub => "saturating_sub",
            Op::WrapAdd => "wrapping_add",
            Op::WrapSub => "wrapping_sub",
            Op::CheckedAdd => "checked_add",
            Op::MulAssign => "mul_assign",
            Op::DivAssign => "div_assign",
        }
    }
}

const OPS: [Op; 12] = [
    Op::Mul,
    Op::Div,
    Op::MulDiv,
    Op::Add,
    Op::Sub,
    Op::SatAdd,
    Op::SatSub,
    Op::WrapAdd,
    Op::WrapSub,
    Op::CheckedAdd,
    Op::MulAssign,
    Op::DivAssign,
];

#[derive(Clone, Copy, Debug, PartialEq, Eq)]
pub enum Expect {
    /// the exact (rounded) result, representable
    Value(i64),
    /// exact result outside the type: nothing is required
    Unrepresentable,
    /// division by zero: saturated; sign of the numerator (None: zero numerator)
    Saturated(Option<bool>),
    /// checked_add overflowing: None expected (encoded separately)
    NoneExpected,
}

fn fits(v: i128) -> Expect {
    if v >= i32::MIN as i128 && v <= i32::MAX as i128 {
        Expect::Value(v as i64)
    } else {
        Expect::Unrepresentable
    }
}

pub fn expected(op: Op, a: i32, b: i32, c: i32) -> (Expect, u8) {
    let (a, b, c) = (a as i128, b as i128, c as i128);
    match op {
        Op::Mul | Op::MulAssign => (fits(div_half_away(a * b, 65536)), rounding_class(a * b, 65536)),
        Op::Div | Op::DivAssign => {
            if b == 0 {
                (Expect::Saturated(if a == 0 { None } else { Some(a < 0) }), 4)
            } else {
                (fits(div_half_away(a << 16, b)), rounding_class(a << 16, b))
            }
        }
        Op::MulDiv => {
            if c == 0 {
                let n = a * b;
                (Expect::Saturated(if n == 0 { None } else { Some(n < 0) }), 4)
            } else {
                (fits(div_half_away(a * b, c)), rounding_class(a * b, c))
            }
        }
        Op::Add => (fits(a + b), 0),
        Op::Sub => (fits(a - b), 0),
        Op::SatAdd => (Expect::Value((a + b).clamp(i32::MIN as i128, i32::MAX as i128) as i64), 0),
        Op::SatSub => (Expect::Value((a - b).clamp(i32::MIN as i128, i32::MAX as i128) as i64), 0),
        Op::WrapAdd => (Expect::Value((a + b) as i32 as i64), 0),
        Op::WrapSub => (Expect::Value((a - b) as i32 as i64), 0),
        Op::CheckedAdd => match fits(a + b) {
            Expect::Value(v) => (Expect::Value(v), 0),
            _ => (Expect::NoneExpected, 0),
        },
    }
}

macro_rules! lib_eval {
    ($fname:ident, $T:ident) => {
        /// Some(bits) or None (checked_add returning None)
        #[inline(always)]
        fn $fname(op: Op, a: i32, b: i32, c: i32) -> Option<i32> {
            let (x, y, z) = ($T::from_bits(a), $T::from_bits(b), $T::from_bits(c));
            Some(
                match op {
                    Op::Mul => x * y,
                    Op::Div => x / y,
                    Op::MulDiv => x.mul_div(y, z),
                    Op::Add => x + y,
                    Op::Sub => x - y,
                    Op::SatAdd => x.saturating_add(y),
                    Op::SatSub => x.saturating_sub(y),
                    Op::WrapAdd => x.wrapping_add(y),
                    Op::WrapSub => x.wrapping_sub(y),
                    Op::CheckedAdd => return x.checked_add(y).map(|v| v.to_bits()),
                    Op::MulAssign => {
                        let mut t = x;
                        t *= y;
                        t
                    }
                    Op::DivAssign => {
                        let mut t = x;
                        t /= y;
                        t
                    }
                }
                .to_bits(),
            )
        }
    };
}
lib_eval!(eval_fixed, Fixed);
lib_eval!(eval_f26dot6, F26Dot6);

fn agrees(e: Expect, got: Option<i32>) -> bool {
    match (e, got) {
        (Expect::Value(v), Some(g)) => g as i64 == v,
        (Expect::Unrepresentable, _) => true,
        (Expect::Saturated(sign), Some(g)) => match sign {
            Some(false) => g == i32::MAX,
            Some(true) => g == -i32::MAX || g == i32::MIN,
            None => g == i32::MAX || g == -i32::MAX || g == i32::MIN,
        },
        (Expect::NoneExpected, None) => true,
        _ => false,
    }
}

/// The operand classes with magnitude 2^31 (i32::MIN) somewhere in the computation.
fn min_class(op: Op, a: i32, b: i32, e: Expect) -> Option<&'static str> {
    match op {
        Op::Div | Op::DivAssign => {
            if a == i32::MIN {
                Some("lhs=MIN")
            } else if b == i32::MIN {
                Some("rhs=MIN")
            } else if e == Expect::Value(i32::MIN as i64) {
                Some("result=MIN")
            } else {
                None
            }
        }
        Op::MulDiv => (e == Expect::Value(i32::MIN as i64)).then_some("result=MIN"),
        _ => None,
    }
}

pub struct Bin {
    pub which: u8,
}

impl Bin {
    fn ty(&self) -> &'static str {
        if self.which == 0 {
            "Fixed"
        } else {
            "F26Dot6"
        }
    }
    #[inline(always)]
    fn eval(&self, op: Op, a: i32, b: i32, c: i32) -> Option<i32> {
        if self.which == 0 {
            eval_fixed(op, a, b, c)
        } else {
            eval_f26dot6(op, a, b, c)
        }
    }

    /// all operations on one operand triple
    pub fn case(&self, ctx: &mut Ctx, acc: &mut Acc, a: i32, b: i32, c: i32, ops: &[Op]) {
        acc.evals += ops.len() as u64;
        // fast path: everything under one panic guard
        let fast = guard(|| {
            let mut bad: Vec<(Op, Option<i32>, Expect)> = vec![];
            for &op in ops {
                let (e, _) = expected(op, a, b, c);
                let g = self.eval(op, a, b, c);
                if !agrees(e, g) {
                    bad.push((op, g, e));
                }
            }
            bad
        });
        let ty = self.ty();
        let operands = |op: Op| {
            if op == Op::MulDiv {
                format!("self={:#010x},a={:#010x},b={:#010x}", a as u32, b as u32, c as u32)
            } else {
                format!("lhs={:#010x},rhs={:#010x}", a as u32, b as u32)
            }
        };
        match fast {
            Ok(bad) => {
                for (op, g, e) in bad {
                    let class = min_class(op, a, b, e);
                    let opn = if op == Op::DivAssign { "div" } else { op.name() };
                    acc.mismatch(ctx, ty, opn, class, operands(op), json!({"got_bits": g, "expected": format!("{:?}", e)}));
                }
            }
            Err(_) => {
                for &op in ops {
                    let (e, _) = expected(op, a, b, c);
                    match guard(|| self.eval(op, a, b, c)) {
                        Ok(g) => {
                            if !agrees(e, g) {
                                let class = min_class(op, a, b, e);
                                acc.mismatch(ctx, ty, op.name(), class, operands(op), json!({"got_bits": g, "expected": format!("{:?}", e)}));
                            }
                        }
                        Err(p) => {
                            if e == Expect::Unrepresentable {
                                // nothing is promised about an unrepresentable result
                                acc.count("strict_panic_on_unrepresentable_result(not_this_property)", 1);
                                continue;
                            }
                            let class = if p.msg.contains("attempt to negate with overflow") { min_class(op, a, b, e) } else { None };
                            let opn = if op == Op::DivAssign { "div" } else { op.name() };
                            acc.panic(ctx, &p, ty, opn, class, operands(op), json!({"expected": format!("{:?}", e)}));
                        }
                    }
                }
            }
        }
        // evidence: operand shape of the three headline operations
        for &op in ops.iter().filter(|o| matches!(o, Op::Mul | Op::Div | Op::MulDiv)) {
            let (e, rc) = expected(op, a, b, c);
            let rep = match e {
                Expect::Value(_) => 0u64,
                Expect::Unrepresentable => 1,
                Expect::Saturated(_) => 2,
                Expect::NoneExpected => 3,
            };
            match (op, rep) {
                (Op::Mul, 0) => acc.count("mul:representable_compared", 1),
                (Op::Mul, _) => acc.count("mul:unrepresentable_skipped", 1),
                (Op::Div, 0) => acc.count("div:representable_compared", 1),
                (Op::Div, 2) => acc.count("div:by_zero_saturation_compared", 1),
                (Op::Div, _) => acc.count("div:unrepresentable_skipped", 1),
                (Op::MulDiv, 0) => acc.count("mul_div:representable_compared", 1),
                (Op::MulDiv, 2) => acc.count("mul_div:by_zero_saturation_compared", 1),
                (_, _) => acc.count("mul_div:unrepresentable_skipped", 1),
            }
            if rc == 2 && rep == 0 {
                acc.count("exact_ties_compared", 1);
                if a.unsigned_abs() > 0x10000 && b.unsigned_abs() > 0x100 {
                    let kind = match op {
                        Op::Mul => "tie:mul",
                        Op::Div => "tie:div",
                        _ => "tie:mul_div",
                    };
                    let got = self.eval(op, a, b, c);
                    acc.sample(ctx, kind, || json!({"type": self.ty(), "op": op.name(), "operands_bits": [a, b, c], "exact_result_is_a_tie": true, "expected": format!("{:?}", e), "library_bits": got}));
                }
            }
            if rep == 2 {
                let got = self.eval(op, a, b, c);
                acc.sample(ctx, if op == Op::Div { "div_by_zero" } else { "mul_div_by_zero" }, || json!({"type": self.ty(), "op": op.name(), "operands_bits": [a, b, c], "expected": format!("{:?}", e), "library_bits": got}));
            }
            if rep != 1 {
                let shape = (bitlen(a as i64).div_ceil(2) as u64) << 40
                    | (bitlen(b as i64).div_ceil(2) as u64) << 32
                    | (if op == Op::MulDiv { bitlen(c as i64).div_ceil(4) as u64 } else { 0 }) << 24
                    | ((a < 0) as u64) << 10
                    | ((b < 0) as u64) << 9
                    | ((c < 0 && op == Op::MulDiv) as u64) << 8
                    | (rc as u64) << 4
                    | rep;
                acc.class(20 + self.which, op as u8, shape);
            }
        }
    }
}

pub fn grid() -> Vec<i32> {
    let mut g: Vec<i64> = vec![0, 3, 5, 7, 10, 100, 1000, 0x5A82, 0xB505, 0x3243F, 0x1_8000, 0x7FFF_0000, 0x7FFF_8000, 0x0001_0001, 0xFFFF, 0x2_0000, 0x3_0000, 0x5_0000, 0xA_0000, 0x64_0000, 0x3E8_0000];
    for k in 0..=31u32 {
        let p = 1i64 << k;
        g.extend_from_slice(&[p, p - 1, p + 1]);
    }
    for h in [0x8000i64, 0x4000, 0xC000] {
        g.extend_from_slice(&[h - 1, h, h + 1, 0x10000 + h, 0x7FFF_0000 + h]);
    }
    let mut out: Vec<i32> = vec![];
    for v in g {
        for s in [v, -v] {
            if s >= i32::MIN as i64 && s <= i32::MAX as i64 {
                out.push(s as i32);
            }
        }
    }
    out.extend_from_slice(&[i32::MIN, i32::MIN + 1, i32::MIN + 2, i32::MAX, i32::MAX - 1]);
    out.sort_unstable();
    out.dedup();
    out
}

pub fn gen_operand(rng: &mut Rng, grid: &[i32]) -> i32 {
    match rng.below(20) {
        0..=2 => *rng.pick(grid),
        3..=13 => {
            let w = rng.below(32) as u32;
            let m = if w == 0 { 0 } else { (rng.u32() >> (32 - w)) | (1 << (w - 1)) };
            let m = m.min(i32::MAX as u32) as i32;
            if rng.bool() {
                -m
            } else {
                m
            }
        }
        14..=16 => {
            // integers and halves in 16.16
            let k = rng.range(-32768, 32767) as i32;
            let f = *rng.pick(&[0i32, 0, 0x8000, 0x4000, 1, 0xFFFF, 0x7FFF, 0x8001]);
            (k << 16) | f
        }
        _ => rng.u32() as i32,
    }
}

/// Miri slice: `n` operand triples per type (grid values and generated operands), every operation.
pub fn miri(ctx: &mut Ctx, acc: &mut Acc, n: usize) {
    let g = grid();
    for which in 0..2u8 {
        let bin = Bin { which };
        let mut rng = Rng::derive(ctx.seed, "c15-binary-miri", which as u64);
        for i in 0..n {
            let (a, b, c) = if i % 3 == 0 { (*rng.pick(&g), *rng.pick(&g), *rng.pick(&g)) } else { (gen_operand(&mut rng, &g), gen_operand(&mut rng, &g), gen_operand(&mut rng, &g)) };
            bin.case(ctx, acc, a, b, c, &OPS);
        }
    }
}

pub fn run(ctx: &mut Ctx, acc: &mut Acc) {
    let g = grid();
    ctx.count("binary:grid_values", if ctx.shard.0 == 0 { g.len() as u64 } else { 0 });
    let thirds: Vec<i32> = g.iter().copied().enumerate().filter(|(i, _)| i % 5 == 0).map(|(_, v)| v).chain([0, 1, -1, 0x10000, -0x10000, i32::MIN, i32::MAX, 2, 0x8000]).collect();
    for which in 0..2u8 {
        let bin = Bin { which };
        // ---- boundary-dense grid: all pairs, every operation; mul_div with a subset of third operands
        let mut idx = 0usize;
        for &a in &g {
            for &b in &g {
                idx += 1;
                if !ctx.mine(idx) {
                    continue;
                }
                bin.case(ctx, acc, a, b, 0x10000, &OPS);
                for &c in &thirds {
                    bin.case(ctx, acc, a, b, c, &[Op::MulDiv]);
                }
            }
            if acc.give_up() {
                return;
            }
        }
        acc.count(if which == 0 { "binary:Fixed:grid_pairs" } else { "binary:F26Dot6:grid_pairs" }, (g.len() * g.len() / ctx.shard.1) as u64);
        // ---- random operands
        let mut rng = Rng::derive(ctx.seed, "c15-binary", (ctx.shard.0 as u64) << 8 | which as u64);
        let n = ctx.tier.pick(4_000_000u32, 16_000_000);
        for i in 0..n {
            let (a, b, c) = (gen_operand(&mut rng, &g), gen_operand(&mut rng, &g), gen_operand(&mut rng, &g));
            if i % 4 == 0 {
                bin.case(ctx, acc, a, b, c, &OPS);
            } else {
                bin.case(ctx, acc, a, b, c, &[Op::Mul, Op::Div, Op::MulDiv]);
            }
            if i % 4096 == 0 && acc.give_up() {
                return;
            }
        }
    }
}
