//! Shared pieces: exact rounding helpers, reporting with precise signatures,
//! local evidence accumulation.

use serde_json::{json, Value};
use std::collections::{HashMap, HashSet};
use vf_core::{Ctx, Digest, PanicInfo};

/// Exact quotient n/d rounded half away from zero (d != 0).
pub fn div_half_away(n: i128, d: i128) -> i128 {
    let neg = (n < 0) != (d < 0);
    let (n, d) = (n.abs(), d.abs());
    let q = (2 * n + d) / (2 * d);
    if neg {
        -q
    } else {
        q
    }
}

/// How the exact quotient n/d sits relative to the rounding grid.
pub fn rounding_class(n: i128, d: i128) -> u8 {
    let (n, d) = (n.abs(), d.abs());
    let r = n % d;
    if r == 0 {
        0 // exact
    } else if 2 * r < d {
        1 // below half
    } else if 2 * r == d {
        2 // tie
    } else {
        3 // above half
    }
}

/// x * 2^frac_bits rounded to the nearest integer, ties away from zero,
/// computed exactly from the bits of the double. Returns (value, is_tie).
pub fn scale_round_exact(x: f64, frac_bits: u32) -> (i128, bool) {
    debug_assert!(x.is_finite());
    let bits = x.to_bits();
    let neg = bits >> 63 == 1;
    let e = ((bits >> 52) & 0x7FF) as i32;
    let frac = bits & ((1u64 << 52) - 1);
    let (mant, exp) = if e == 0 { (frac, -1074) } else { (frac | (1 << 52), e - 1075) };
    let shift = exp + frac_bits as i32;
    let (mag, tie) = if mant == 0 {
        (0i128, false)
    } else if shift >= 0 {
        if shift > 60 {
            (i128::MAX / 4, false)
        } else {
            ((mant as i128) << shift, false)
        }
    } else {
        let s = (-shift) as u32;
        if s > 54 {
            (0, false)
        } else {
            let q = (mant >> s) as i128;
            let rem = mant & ((1u64 << s) - 1);
            let half = 1u64 << (s - 1);
            if rem >= half {
                (q + 1, rem == half)
            } else {
                (q, false)
            }
        }
    };
    (if neg { -mag } else { mag }, tie)
}

pub fn bitlen(v: i64) -> u32 {
    64 - v.unsigned_abs().leading_zeros()
}

/// Evidence and violation bookkeeping local to one shard.
pub struct Acc {
    pub counts: HashMap<&'static str, u64>,
    pub classes: HashSet<u64>,
    pub evals: u64,
    /// number of distinct specific signatures already emitted per (type, op)
    specific: HashMap<String, u32>,
    sigs: HashSet<String>,
    sampled: HashSet<&'static str>,
    pub violations: u32,
}

impl Acc {
    pub fn new() -> Self {
        Acc { counts: HashMap::new(), classes: HashSet::new(), evals: 0, specific: HashMap::new(), sigs: HashSet::new(), sampled: HashSet::new(), violations: 0 }
    }
    #[inline]
    pub fn count(&mut self, k: &'static str, n: u64) {
        *self.counts.entry(k).or_insert(0) += n;
    }
    /// record a non-trivial (type, op, operand-shape) class
    #[inline]
    pub fn class(&mut self, ty: u8, op: u8, shape: u64) {
        if self.classes.len() >= 150_000 {
            return;
        }
        let mut d = Digest::new();
        d.bytes(&[ty, op]);
        d.u64(shape);
        self.classes.insert(d.finish());
    }
    pub fn flush(&mut self, ctx: &mut Ctx) {
        ctx.evals(self.evals);
        self.evals = 0;
        let mut keys: Vec<_> = self.counts.drain().collect();
        keys.sort();
        for (k, v) in keys {
            ctx.count(k, v);
        }
        for c in self.classes.drain() {
            ctx.nontrivial(c);
        }
    }

    /// A value mismatch. `class` is Some(name) when the operands fall into one of the
    /// precisely delimited operand classes; otherwise the signature carries the operands
    /// (at most 3 distinct per (type, op), then a counter only).
    pub fn mismatch(&mut self, ctx: &mut Ctx, ty: &str, op: &str, class: Option<&str>, operands: String, detail: Value) {
        let sig = match class {
            Some(c) => format!("value:{}:{}:{}", ty, op, c),
            None => {
                let k = format!("{}:{}", ty, op);
                let n = self.specific.entry(k).or_insert(0);
                *n += 1;
                if *n > 3 {
                    ctx.count("violations_beyond_three_per_type_op", 1);
                    return;
                }
                format!("value:{}:{}:{}", ty, op, operands)
            }
        };
        if ctx.violation(&sig, json!({"type": ty, "op": op, "operands": operands, "observation": detail, "profile": ctx.profile}), None) && self.sigs.insert(sig) {
            self.violations += 1;
        }
    }

    /// A panic on operands whose exact result is representable.
    pub fn panic(&mut self, ctx: &mut Ctx, p: &PanicInfo, ty: &str, op: &str, class: Option<&str>, operands: String, detail: Value) {
        if !p.in_repo() {
            ctx.inconclusive(format!("harness panic {}:{} {}", p.file, p.line, p.msg));
            return;
        }
        let sig = match class {
            Some(c) => format!("panic:{}:{}:{}", ty, op, c),
            None => {
                let k = format!("panic:{}:{}", ty, op);
                let n = self.specific.entry(k).or_insert(0);
                *n += 1;
                if *n > 3 {
                    ctx.count("violations_beyond_three_per_type_op", 1);
                    return;
                }
                format!("panic:{}:{}:{}:{}:{}", ty, op, p.file, p.line, operands)
            }
        };
        if ctx.violation(
            &sig,
            json!({"type": ty, "op": op, "operands": operands, "panic": {"file": p.file, "line": p.line, "msg": p.msg}, "observation": detail, "profile": ctx.profile}),
            None,
        ) && self.sigs.insert(sig)
        {
            self.violations += 1;
        }
    }
    /// record one real evaluated case per kind
    #[inline]
    pub fn sample(&mut self, ctx: &mut Ctx, kind: &'static str, v: impl FnOnce() -> Value) {
        if self.sampled.insert(kind) {
            ctx.sample_by_kind(kind, v());
        }
    }
    pub fn give_up(&self) -> bool {
        self.violations > 60
    }
}

#[cfg(test)]
mod tests {
    use super::*;
    #[test]
    fn exact_round() {
        assert_eq!(scale_round_exact(0.5, 0), (1, true));
        assert_eq!(scale_round_exact(-0.5, 0), (-1, true));
        assert_eq!(scale_round_exact(0.49999999999999994, 0), (0, false));
        assert_eq!(scale_round_exact(1.75, 2), (7, false));
        assert_eq!(scale_round_exact(1.0 / 65536.0 * 2.5, 16), (3, true));
        assert_eq!(scale_round_exact(-3.25, 0), (-3, false));
        assert_eq!(div_half_away(5, 2), 3);
        assert_eq!(div_half_away(-5, 2), -3);
        assert_eq!(div_half_away(7, -3), -2);
        assert_eq!(div_half_away(-1, 3), 0);
    }
}
