//! Typed views over font bytes (Miri slice, also cheap enough to run natively):
//! `FontData::read_array` / `read_ref_at` reinterpret `&[u8]` as `&[BigEndian<T>]`
//! / `&BigEndian<T>` through the `bytemuck` marker impls of font-types
//! (`unsafe impl AnyBitPattern for BigEndian<T>` and the derives on the scalar
//! newtypes). The oracle decodes the same bytes with plain shifts; every view is
//! taken from buffers placed at four different start misalignments, so that a
//! cast which silently assumed alignment is seen by Miri's symbolic alignment
//! check (and a value that depended on the placement by the value oracle).

use crate::common::Acc;
use font_types::{BigEndian, FixedSize, F2Dot14, FWord, Fixed, GlyphId16, Int24, LongDateTime, NameId, Offset16, Offset24, Offset32, Scalar, Tag, UfWord, Uint24, Version16Dot16};
use read_fonts::{FontData, ReadError};
use serde_json::json;
use vf_core::{gen, guard, hex, Ctx, Rng};

fn be(bytes: &[u8]) -> u64 {
    bytes.iter().fold(0u64, |a, b| a << 8 | *b as u64)
}

/// `T` viewed as array, as single reference and read by value at every element
/// position of `bytes[off..]`; `to_u64` is the harness' own decoding of the value.
fn view<T>(ctx: &mut Ctx, acc: &mut Acc, ty: &'static str, data: &[u8], off: usize, placement: usize, to_u64: fn(T) -> u64, width_mask: u64)
where
    T: Scalar + Copy + PartialEq + std::fmt::Debug + 'static,
{
    let n: usize = <T as FixedSize>::RAW_BYTE_LEN;
    let avail = data.len().saturating_sub(off);
    let whole = avail / n * n;
    acc.evals += 1;
    let r = guard(|| -> Result<u64, String> {
        let fd = FontData::new(data);
        let arr: &[BigEndian<T>] = fd.read_array(off..off + whole).map_err(|e| format!("read_array: {e:?}"))?;
        if arr.len() != whole / n {
            return Err(format!("read_array length {} expected {}", arr.len(), whole / n));
        }
        for (i, el) in arr.iter().enumerate() {
            let at = off + i * n;
            let exp = be(&data[at..at + n]) & width_mask;
            if to_u64(el.get()) & width_mask != exp {
                return Err(format!("read_array[{i}].get() = {:?}, bytes {}", el.get(), hex(&data[at..at + n])));
            }
            if el.be_bytes() != &data[at..at + n] {
                return Err(format!("read_array[{i}].be_bytes()"));
            }
            let one: &BigEndian<T> = fd.read_ref_at(at).map_err(|e| format!("read_ref_at: {e:?}"))?;
            if one.get() != el.get() {
                return Err(format!("read_ref_at({at}) differs from read_array[{i}]"));
            }
            let v: T = fd.read_at(at).map_err(|e| format!("read_at: {e:?}"))?;
            let b: BigEndian<T> = fd.read_be_at(at).map_err(|e| format!("read_be_at: {e:?}"))?;
            if v != el.get() || b.get() != v {
                return Err(format!("read_at/read_be_at({at}) differ from read_array[{i}]"));
            }
        }
        // a range whose length is not a multiple of the element size, and ranges past the end
        if n > 1 && whole + 1 <= avail && !matches!(fd.read_array::<BigEndian<T>>(off..off + whole + 1), Err(ReadError::InvalidArrayLen)) {
            return Err("read_array accepted a ragged range".into());
        }
        if fd.read_array::<BigEndian<T>>(off..data.len() + n).is_ok() || fd.read_ref_at::<BigEndian<T>>(data.len() - n + 1).is_ok() || fd.read_at::<T>(data.len() - n + 1).is_ok() {
            return Err("read past the end accepted".into());
        }
        if fd.read_ref_at::<BigEndian<T>>(usize::MAX - 1).is_ok() || fd.read_at::<T>(usize::MAX).is_ok() {
            return Err("offset near usize::MAX accepted".into());
        }
        Ok(arr.len() as u64)
    });
    match r {
        Ok(Ok(k)) => {
            acc.count("views:elements_compared", k);
            acc.count("views:typed_views", 1);
            acc.class(40, n as u8, (fnv(ty) & 0xFFFF) << 8 | (off as u64 & 3) << 2 | (placement as u64 & 3));
        }
        Ok(Err(what)) => acc.mismatch(ctx, ty, "typed_view", None, format!("off={off},placement={placement},bytes={}", hex(&data[..data.len().min(16)])), json!({"failed": what})),
        Err(p) => acc.panic(ctx, &p, ty, "typed_view", None, format!("off={off},placement={placement}"), json!(null)),
    }
}

fn fnv(s: &str) -> u64 {
    vf_core::fnv64(s.as_bytes())
}

pub fn run(ctx: &mut Ctx, acc: &mut Acc, buffers: usize) {
    let mut rng = Rng::derive(ctx.seed, "c15-views", 0);
    for bi in 0..buffers {
        let len = 17 + rng.usize(24);
        let mut bytes = rng.bytes(len);
        if bi % 2 == 0 {
            // boundary patterns
            for (i, b) in bytes.iter_mut().enumerate() {
                *b = [0x00, 0xFF, 0x80, 0x7F, 0x01][(i / 3 + bi) % 5];
            }
        }
        for placement in 0..4usize {
            let (owner, range) = gen::relocate(&bytes, placement, [0xA5u8, 0x00, 0xFF, 0x5A][placement]);
            let data = &owner[range];
            let off = (bi + placement) % 4;
            view::<u16>(ctx, acc, "u16", data, off, placement, |v| v as u64, 0xFFFF);
            view::<i16>(ctx, acc, "i16", data, off, placement, |v| v as u16 as u64, 0xFFFF);
            view::<FWord>(ctx, acc, "FWord", data, off, placement, |v| v.to_i16() as u16 as u64, 0xFFFF);
            view::<UfWord>(ctx, acc, "UfWord", data, off, placement, |v| v.to_u16() as u64, 0xFFFF);
            view::<F2Dot14>(ctx, acc, "F2Dot14", data, off, placement, |v| v.to_bits() as u16 as u64, 0xFFFF);
            view::<GlyphId16>(ctx, acc, "GlyphId16", data, off, placement, |v| v.to_u16() as u64, 0xFFFF);
            view::<NameId>(ctx, acc, "NameId", data, off, placement, |v| v.to_u16() as u64, 0xFFFF);
            view::<Offset16>(ctx, acc, "Offset16", data, off, placement, |v| v.to_u32() as u64, 0xFFFF);
            view::<Uint24>(ctx, acc, "Uint24", data, off, placement, |v| v.to_u32() as u64, 0xFF_FFFF);
            view::<Int24>(ctx, acc, "Int24", data, off, placement, |v| v.to_i32() as u32 as u64, 0xFF_FFFF);
            view::<Offset24>(ctx, acc, "Offset24", data, off, placement, |v| v.to_u32() as u64, 0xFF_FFFF);
            view::<u32>(ctx, acc, "u32", data, off, placement, |v| v as u64, 0xFFFF_FFFF);
            view::<i32>(ctx, acc, "i32", data, off, placement, |v| v as u32 as u64, 0xFFFF_FFFF);
            view::<Fixed>(ctx, acc, "Fixed", data, off, placement, |v| v.to_bits() as u32 as u64, 0xFFFF_FFFF);
            view::<Offset32>(ctx, acc, "Offset32", data, off, placement, |v| v.to_u32() as u64, 0xFFFF_FFFF);
            view::<Tag>(ctx, acc, "Tag", data, off, placement, |v| u32::from_be_bytes(v.to_be_bytes()) as u64, 0xFFFF_FFFF);
            view::<Version16Dot16>(ctx, acc, "Version16Dot16", data, off, placement, |v| be(&v.to_be_bytes()), 0xFFFF_FFFF);
            view::<LongDateTime>(ctx, acc, "LongDateTime", data, off, placement, |v| v.as_secs() as u64, u64::MAX);
            view::<i64>(ctx, acc, "i64", data, off, placement, |v| v as u64, u64::MAX);
            view::<u8>(ctx, acc, "u8", data, off, placement, |v| v as u64, 0xFF);
        }
    }
}
