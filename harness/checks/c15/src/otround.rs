//! `OtRound` (write-fonts): OpenType rounding floor(x + 0.5), on inputs for which
//! x + 0.5 is exact in the float type (multiples of 1/4 of moderate size), so the
//! reference is unambiguous: halves, negatives, the limits of the target type.

use crate::common::Acc;
use serde_json::json;
use vf_core::{guard, Ctx, Rng};
use write_fonts::OtRound;

fn exp_floor_half(n4: i64) -> i64 {
    // x = n4/4; floor(x + 0.5) = floor((n4 + 2) / 4)
    (n4 + 2).div_euclid(4)
}

/// every `OtRound` impl at the quarter n4/4
fn quarter_at(ctx: &mut Ctx, acc: &mut Acc, n4: i64) {
    acc.evals += 1;
    let e = exp_floor_half(n4);
    let (x64, x32) = (n4 as f64 / 4.0, n4 as f32 / 4.0);
    let r = guard(|| {
        let a: i16 = x64.ot_round();
        let b: i16 = x32.ot_round();
        let c: u16 = x64.ot_round();
        let d: u16 = x32.ot_round();
        let f: f64 = x64.ot_round();
        let g: f32 = x32.ot_round();
        let p: (i16, i16) = kurbo::Point::new(x64, -x64).ot_round();
        let v: kurbo::Vec2 = kurbo::Vec2::new(x64, -x64).ot_round();
        (a, b, c, d, f, g, p, v)
    });
    let (a, b, c, d, f, g, p, v) = match r {
        Ok(t) => t,
        Err(pi) => {
            acc.panic(ctx, &pi, "OtRound", "ot_round", None, format!("x={}", x64), json!(null));
            return;
        }
    };
    let en = exp_floor_half(-n4);
    let mut bad: Vec<&'static str> = vec![];
    if e >= i16::MIN as i64 && e <= i16::MAX as i64 {
        if a as i64 != e {
            bad.push("f64->i16");
        }
        if b as i64 != e {
            bad.push("f32->i16");
        }
        acc.count("otround:i16_compared", 2);
        if en >= i16::MIN as i64 && en <= i16::MAX as i64 && (p.0 as i64 != e || p.1 as i64 != en) {
            bad.push("Point->(i16,i16)");
        }
    }
    if e >= 0 && e <= u16::MAX as i64 {
        if c as i64 != e {
            bad.push("f64->u16");
        }
        if d as i64 != e {
            bad.push("f32->u16");
        }
        acc.count("otround:u16_compared", 2);
    }
    if f != e as f64 {
        bad.push("f64->f64");
    }
    if g != e as f32 {
        bad.push("f32->f32");
    }
    if v.x != e as f64 || v.y != en as f64 {
        bad.push("Vec2->Vec2");
    }
    let frac = n4.rem_euclid(4);
    if frac == 2 {
        acc.count("otround:halves", 1);
    }
    acc.class(30, frac as u8, ((n4 < 0) as u64) << 8 | crate::common::bitlen(n4) as u64);
    for w in bad {
        acc.mismatch(ctx, "OtRound", w, None, format!("x={}", x64), json!({"x": x64, "expected": e, "got": {"f64->i16": a, "f32->i16": b, "f64->u16": c, "f32->u16": d, "f64->f64": f, "f32->f32": g}}));
    }
}

/// Miri slice: quarters around zero, the i16/u16 range limits and a few random ones.
pub fn miri(ctx: &mut Ctx, acc: &mut Acc, n: usize) {
    let mut rng = Rng::derive(ctx.seed, "c15-otround-miri", 0);
    let mut qs: Vec<i64> = vec![-6, -2, -1, 0, 1, 2, 3, 6, 32767 * 4 + 1, 32767 * 4 + 2, -32768 * 4 - 2, -32768 * 4 - 3, 65535 * 4 + 1, 65535 * 4 + 2];
    while qs.len() < n.max(14) {
        qs.push(rng.range(-33_000 * 4, 66_000 * 4));
    }
    for n4 in qs {
        quarter_at(ctx, acc, n4);
    }
}

pub fn run(ctx: &mut Ctx, acc: &mut Acc) {
    let mut rng = Rng::derive(ctx.seed, "c15-otround", ctx.shard.0 as u64);
    // every quarter in [-33000, 66000]
    for n4 in (-33_000i64 * 4)..=(66_000 * 4) {
        if !ctx.mine((n4 + 200_000) as usize) {
            continue;
        }
        quarter_at(ctx, acc, n4);
    }
    // large magnitudes (float -> float), quarters up to 2^44 for f64 and 2^20 for f32
    for _ in 0..ctx.tier.pick(100_000, 2_000_000) {
        acc.evals += 1;
        let n4 = rng.range(-(1 << 46), 1 << 46) >> rng.below(40);
        let e = exp_floor_half(n4);
        let x = n4 as f64 / 4.0;
        let g: f64 = x.ot_round();
        if g != e as f64 {
            acc.mismatch(ctx, "OtRound", "f64->f64", None, format!("x={}", x), json!({"got": g, "expected": e}));
        }
        let m4 = n4 >> 26; // |m4| < 2^20: m4/4 + 0.5 exact in f32
        let y = m4 as f32 / 4.0;
        let g: f32 = y.ot_round();
        if g != exp_floor_half(m4) as f32 {
            acc.mismatch(ctx, "OtRound", "f32->f32", None, format!("x={}", y), json!({"got": g, "expected": exp_floor_half(m4)}));
        }
        acc.class(31, 0, ((n4 < 0) as u64) << 8 | crate::common::bitlen(n4) as u64);
    }
}
