//! C15 — scalar and fixed-point types encode, convert and round exactly as
//! specified. See /verif/DESIGN.md §3.
//!
//! Oracles are exact: integer arithmetic in i64/i128, rationals rounded half
//! away from zero, floats decomposed into mantissa and exponent. Runs under
//! both profiles: `rel` decides values with the shipping (wrapping) semantics,
//! `strict` additionally treats a panic on operands whose exact result is
//! representable as a failure.

pub mod binary;
pub mod common;
pub mod otround;
pub mod small;
pub mod unary32;
pub mod views;

use vf_core::{Args, Ctx, PanicPolicy};

pub const REPLAY: Option<fn(&mut Ctx, &Args, &serde_json::Value, Option<&[u8]>)> = None;

/// The slice run under Miri (extra stage "miri" of stages.json): the per-value
/// batteries of the full workload on boundary + a few random operands, plus the
/// typed views over relocated byte buffers (`views`). What Miri adds: undefined
/// behaviour in the `BigEndian` / `bytemuck` impls (reinterpreting `&[u8]`),
/// shifts and the overflow-checked arithmetic paths.
fn miri_slice(ctx: &mut Ctx, _args: &Args, acc: &mut common::Acc) {
    ctx.exhaustive = None;
    ctx.assumptions.push("Miri slice: a few hundred operand tuples through the per-value batteries of the full workload, interpreted with -Zmiri-symbolic-alignment-check (overflow checks and debug assertions on, as in the strict profile)".into());
    let n: usize = std::env::var("VF_MIRI_N").ok().and_then(|s| s.parse().ok()).unwrap_or(ctx.tier.pick(12, 60));
    let lap = |ctx: &mut Ctx, what: &str, t0: f64| {
        let dt = ctx.elapsed_s() - t0;
        ctx.count(&format!("wall_ms:miri:{}", what), (dt * 1000.0) as u64);
    };
    let t0 = ctx.elapsed_s();
    views::run(ctx, acc, (n / 6).max(2));
    acc.flush(ctx);
    lap(ctx, "views", t0);
    let t0 = ctx.elapsed_s();
    small::miri(ctx, acc, n);
    acc.flush(ctx);
    lap(ctx, "small", t0);
    let t0 = ctx.elapsed_s();
    unary32::miri(ctx, acc, 2 * n);
    acc.flush(ctx);
    lap(ctx, "unary32", t0);
    let t0 = ctx.elapsed_s();
    binary::miri(ctx, acc, 2 * n);
    acc.flush(ctx);
    lap(ctx, "binary", t0);
    let t0 = ctx.elapsed_s();
    otround::miri(ctx, acc, 2 * n);
    acc.flush(ctx);
    lap(ctx, "otround", t0);
}

pub fn run(ctx: &mut Ctx, args: &Args) {
    ctx.policy = PanicPolicy::Any;
    ctx.rule = "a case is one (type, operation, operand) evaluation decided by an exact oracle (cases whose exact result is not \
                representable are not compared and not counted as non-trivial); distinct = distinct (type, operation, operand shape) \
                classes, shape = signs and bit lengths of the operands, position of the exact result relative to the rounding grid \
                (exact / below half / tie / above half) and kind of expectation (value / saturation); at most 150000 per shard"
        .into();
    ctx.level = "exhaustive sub-spaces + exploration".into();
    ctx.assumptions = vec![
        "F26Dot6 `*` and `/` are FreeType-style FT_MulFix/FT_DivFix on raw bits (scale 2^16), as the shared implementation macro documents; the oracle follows that on raw bits".into(),
        "At exact ties float->fixed conversions may return either neighbour (the property says 'round to nearest'); everywhere else the nearest value is required".into(),
        "Division by zero: MAX for a positive numerator, -MAX or MIN for a negative one, any of them for 0/0".into(),
        "OtRound is checked on inputs for which x + 0.5 is exact in the float type".into(),
        "Results that are not representable in the target type (e.g. -MIN, round() beyond MAX) are outside the property".into(),
    ];
    ctx.exhaustive = Some(true);
    ctx.extra.insert(
        "exhaustive_part".into(),
        serde_json::json!("every 8/16/24-bit pattern of every scalar type; thorough: every 32-bit pattern of Fixed and F26Dot6 for the unary conversions"),
    );
    let mut acc = common::Acc::new();
    if cfg!(miri) || args.profile == "miri" {
        return miri_slice(ctx, args, &mut acc);
    }
    let only = std::env::var("VF_C15_ONLY").unwrap_or_default();
    let t = |ctx: &mut Ctx, what: &str, t0: f64| {
        let dt = ctx.elapsed_s() - t0;
        if std::env::var("VF_TIMING").is_ok() {
            eprintln!("c15 timing: {:<12} {:8.2}s", what, dt);
        }
        ctx.count(&format!("wall_ms:{}", what), (dt * 1000.0) as u64);
    };
    if only.is_empty() || only == "small" {
        let t0 = ctx.elapsed_s();
        small::run(ctx, &mut acc);
        acc.flush(ctx);
        t(ctx, "small", t0);
    }
    if only.is_empty() || only == "unary32" {
        let t0 = ctx.elapsed_s();
        unary32::run(ctx, &mut acc);
        acc.flush(ctx);
        t(ctx, "unary32", t0);
    }
    if only.is_empty() || only == "binary" {
        let t0 = ctx.elapsed_s();
        binary::run(ctx, &mut acc);
        acc.flush(ctx);
        t(ctx, "binary", t0);
    }
    if only.is_empty() || only == "otround" {
        let t0 = ctx.elapsed_s();
        otround::run(ctx, &mut acc);
        acc.flush(ctx);
        t(ctx, "otround", t0);
    }
}
