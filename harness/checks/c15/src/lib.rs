//! C15 — see /verif/DESIGN.md §3.
use vf_core::{Args, Ctx};

pub const REPLAY: Option<fn(&mut Ctx, &Args, &serde_json::Value, Option<&[u8]>)> = None;

pub fn run(ctx: &mut Ctx, _args: &Args) {
    ctx.rule = "pipeline smoke test".into();
    use font_types::{BigEndian, F2Dot14};
    for v in 0..=u16::MAX {
        if !ctx.mine(v as usize) {
            continue;
        }
        ctx.eval();
        let be: BigEndian<u16> = v.into();
        if be.get() != v {
            ctx.violation("be-u16", serde_json::json!({"v": v}), None);
        }
        let f = F2Dot14::from_bits(v as i16);
        if F2Dot14::from_f32(f.to_f32()) != f {
            ctx.violation("f2dot14-f32", serde_json::json!({"v": v}), None);
        }
        ctx.nontrivial(v as u64);
    }
    ctx.sample(serde_json::json!({"type": "u16", "value": 0x1234}));
}
