//! Unary conversions of the 32-bit fixed-point types over (thorough: all 2^32;
//! quick: a stratified sample + boundary neighbourhoods of) the bit patterns.

use crate::common::{bitlen, scale_round_exact, Acc};
use font_types::{BigEndian, F26Dot6, Fixed, Scalar};
use serde_json::json;
use vf_core::{guard, Ctx, Rng};

/// (operation, got, expected)
type Miss = (&'static str, i64, i64);

#[inline(always)]
fn fixed_at(x: i32) -> Result<(), Miss> {
    let xi = x as i64;
    let t = Fixed::from_bits(x);
    if t.to_bits() != x {
        return Err(("to_bits", t.to_bits() as i64, xi));
    }
    // float round trip (exact reference: bits / 65536 is exact in f64)
    let f = t.to_f64();
    if f != x as f64 / 65536.0 {
        return Err(("to_f64", f.to_bits() as i64, (x as f64 / 65536.0).to_bits() as i64));
    }
    let back = Fixed::from_f64(f).to_bits();
    if back != x {
        return Err(("from_f64(to_f64)", back as i64, xi));
    }
    // big-endian
    let raw = t.to_raw();
    if raw != [(x >> 24) as u8, (x >> 16) as u8, (x >> 8) as u8, x as u8] || Fixed::from_raw(raw) != t || BigEndian::<Fixed>::from(t).get() != t {
        return Err(("be_roundtrip", 0, 0));
    }
    // 16.16 -> 26.6: add half of 2^10, arithmetic shift
    let e = (xi + 0x200).div_euclid(1024);
    let g = t.to_f26dot6().to_bits() as i64;
    if g != e {
        return Err(("to_f26dot6", g, e));
    }
    // 16.16 -> 2.14: "add 0x00000002, and sign-extend shift to the right by 2"
    let e = (xi + 2).div_euclid(4);
    if e >= i16::MIN as i64 && e <= i16::MAX as i64 {
        let g = t.to_f2dot14().to_bits() as i64;
        if g != e {
            return Err(("to_f2dot14", g, e));
        }
    }
    // -> integer, rounding
    let e = (xi + 0x8000).div_euclid(65536);
    let g = t.to_i32() as i64;
    if g != e {
        return Err(("to_i32", g, e));
    }
    let fl = xi.div_euclid(65536) * 65536;
    if t.floor().to_bits() as i64 != fl {
        return Err(("floor", t.floor().to_bits() as i64, fl));
    }
    if t.fract().to_bits() as i64 != xi - fl {
        return Err(("fract", t.fract().to_bits() as i64, xi - fl));
    }
    let rd = (xi + 0x8000).div_euclid(65536) * 65536;
    if rd <= i32::MAX as i64 && t.round().to_bits() as i64 != rd {
        return Err(("round", t.round().to_bits() as i64, rd));
    }
    if x != i32::MIN {
        if t.abs().to_bits() as i64 != xi.abs() {
            return Err(("abs", t.abs().to_bits() as i64, xi.abs()));
        }
        if (-t).to_bits() as i64 != -xi {
            return Err(("neg", (-t).to_bits() as i64, -xi));
        }
    }
    Ok(())
}

#[inline(always)]
fn f26dot6_at(x: i32) -> Result<(), Miss> {
    let xi = x as i64;
    let t = F26Dot6::from_bits(x);
    if t.to_bits() != x {
        return Err(("to_bits", t.to_bits() as i64, xi));
    }
    let f = t.to_f64();
    if f != x as f64 / 64.0 {
        return Err(("to_f64", f.to_bits() as i64, (x as f64 / 64.0).to_bits() as i64));
    }
    let back = F26Dot6::from_f64(f).to_bits();
    if back != x {
        return Err(("from_f64(to_f64)", back as i64, xi));
    }
    let e = (xi + 32).div_euclid(64);
    let g = t.to_i32() as i64;
    if g != e {
        return Err(("to_i32", g, e));
    }
    let fl = xi.div_euclid(64) * 64;
    if t.floor().to_bits() as i64 != fl {
        return Err(("floor", t.floor().to_bits() as i64, fl));
    }
    if t.fract().to_bits() as i64 != xi - fl {
        return Err(("fract", t.fract().to_bits() as i64, xi - fl));
    }
    let rd = (xi + 32).div_euclid(64) * 64;
    if rd <= i32::MAX as i64 && t.round().to_bits() as i64 != rd {
        return Err(("round", t.round().to_bits() as i64, rd));
    }
    if x != i32::MIN {
        if t.abs().to_bits() as i64 != xi.abs() {
            return Err(("abs", t.abs().to_bits() as i64, xi.abs()));
        }
        if (-t).to_bits() as i64 != -xi {
            return Err(("neg", (-t).to_bits() as i64, -xi));
        }
    }
    if x.unsigned_abs() < (1 << 25) {
        // from_i32 where the result is representable
        let i = x >> 6;
        if F26Dot6::from_i32(i).to_bits() as i64 != (i as i64) << 6 {
            return Err(("from_i32", F26Dot6::from_i32(i).to_bits() as i64, (i as i64) << 6));
        }
    }
    Ok(())
}

/// Operand class of a mismatch, when it falls in one of the precisely delimited classes.
/// (the class also requires the observed value to be the wrapped computation, so that any
/// other wrong value in the same operand range is still reported individually)
fn class_of(ty: &str, op: &str, x: i32, got: i64) -> Option<&'static str> {
    match (ty, op) {
        ("Fixed", "to_f26dot6") if x > i32::MAX - 0x200 && got == (x.wrapping_add(0x200) >> 10) as i64 => Some("bits+0x200 overflows i32"),
        ("Fixed", "to_i32") if x > i32::MAX - 0x8000 && got == (x.wrapping_add(0x8000) >> 16) as i64 => Some("bits+0x8000 overflows i32"),
        ("F26Dot6", "to_i32") if x > i32::MAX - 32 && got == (x.wrapping_add(32) >> 6) as i64 => Some("bits+32 overflows i32"),
        _ => None,
    }
}

fn report(ctx: &mut Ctx, acc: &mut Acc, ty: &'static str, x: i32, m: Miss) {
    let class = class_of(ty, m.0, x, m.1);
    acc.mismatch(ctx, ty, m.0, class, format!("bits={:#010x}", x as u32), json!({"bits": x, "got": m.1, "expected": m.2}));
}

/// Run one block of values; a panic inside the block is attributed by re-running value by value.
fn block(ctx: &mut Ctx, acc: &mut Acc, xs: &mut dyn Iterator<Item = i32>, which: u8) {
    let v: Vec<i32> = xs.collect();
    acc.evals += v.len() as u64;
    let f: fn(i32) -> Result<(), Miss> = if which == 0 { fixed_at } else { f26dot6_at };
    let ty = if which == 0 { "Fixed" } else { "F26Dot6" };
    let r = guard(|| {
        let mut misses: Vec<(i32, Miss)> = vec![];
        for &x in &v {
            if let Err(m) = f(x) {
                if misses.len() < 64 {
                    misses.push((x, m));
                }
            }
        }
        misses
    });
    match r {
        Ok(misses) => {
            for (x, m) in misses {
                report(ctx, acc, ty, x, m);
            }
        }
        Err(_) => {
            for &x in &v {
                match guard(|| f(x)) {
                    Ok(Ok(())) => {}
                    Ok(Err(m)) => report(ctx, acc, ty, x, m),
                    Err(p) => acc.panic(ctx, &p, ty, "unary", None, format!("bits={:#010x}", x as u32), json!(null)),
                }
            }
        }
    }
    // shape classes of this block (first, middle, last value are enough for the evidence)
    for &x in [v.first(), v.get(v.len() / 2), v.last()].into_iter().flatten() {
        let frac_bits = if which == 0 { 16 } else { 6 };
        let fr = (x as i64).rem_euclid(1 << frac_bits);
        let half = 1i64 << (frac_bits - 1);
        let fc = if fr == 0 { 0 } else if fr < half { 1 } else if fr == half { 2 } else { 3 };
        acc.class(10 + which, 0, ((x < 0) as u64) << 16 | (bitlen(x as i64) as u64) << 4 | fc);
    }
}

fn from_f64_random(ctx: &mut Ctx, acc: &mut Acc, rng: &mut Rng, n: u32) {
    for _ in 0..n {
        for (ty, fb) in [("Fixed", 16u32), ("F26Dot6", 6)] {
            let one = (1u64 << fb) as f64;
            let (x, cls): (f64, &'static str) = match if rng.chance(1, 200) { 5 } else { rng.below(5) } {
                0 => (f64::from_bits(rng.u64()), "from_f64:random_bits"),
                1 => ((rng.f64() - 0.5) * 2.1 * (2147483648.0 / one), "from_f64:uniform_in_range"),
                2 => {
                    let k = rng.range(-(1 << 31) - 3, (1 << 31) + 3) as f64 + if rng.bool() { 0.5 } else { 0.0 };
                    let x = k / one;
                    (f64::from_bits((x.to_bits() as i128 + rng.range(-2, 2) as i128).clamp(0, u64::MAX as i128) as u64), "from_f64:near_midpoint_or_integer")
                }
                3 => ((rng.f64() - 0.5) * 4.0 / one, "from_f64:tiny"),
                4 => (*rng.pick(&[2147483647.0, 2147483647.4, 2147483647.5, 2147483648.0, -2147483648.0, -2147483648.5, -2147483649.0, 1e300, -1e300, 0.0, -0.0]) / one, "from_f64:range_limits"),
                _ => {
                    let hb = f64::from_bits((0.5 / one).to_bits() - 1);
                    (if rng.bool() { hb } else { -hb }, "from_f64:largest_below_half_epsilon")
                }
            };
            if !x.is_finite() {
                continue;
            }
            acc.evals += 1;
            acc.count(cls, 1);
            let (e, tie) = scale_round_exact(x, fb);
            let exp = e.clamp(i32::MIN as i128, i32::MAX as i128) as i64;
            let got = guard(|| if fb == 16 { Fixed::from_f64(x).to_bits() } else { F26Dot6::from_f64(x).to_bits() });
            let got = match got {
                Ok(g) => g as i64,
                Err(p) => {
                    acc.panic(ctx, &p, ty, "from_f64", None, format!("x={:#018x}", x.to_bits()), json!(null));
                    continue;
                }
            };
            let toward_zero = exp - exp.signum();
            if !(got == exp || (tie && got == toward_zero)) {
                let hb = f64::from_bits((0.5 / one).to_bits() - 1);
                let class = (x.abs() == hb && exp == 0 && got == if x < 0.0 { -1 } else { 1 }).then_some("largest float below half an epsilon");
                acc.mismatch(ctx, ty, "from_f64", class, format!("x={:#018x}", x.to_bits()), json!({"x": x, "got_bits": got, "nearest_bits": exp, "tie": tie}));
            }
            acc.class(12, fb as u8, ((x < 0.0) as u64) << 12 | ((x.abs().log2().clamp(-40.0, 40.0) as i64 + 64) as u64) << 1 | tie as u64);
        }
    }
}

/// Miri slice: boundary neighbourhoods and a few random patterns of both types, a few float conversions.
pub fn miri(ctx: &mut Ctx, acc: &mut Acc, n: usize) {
    let mut rng = Rng::derive(ctx.seed, "c15-unary32-miri", 0);
    let mut xs: Vec<i32> = vec![0, 1, -1, 0x7FFF, 0x8000, 0x8001, -0x8000, 0xFFFF, 0x1_0000, -0x1_0000, 31, 32, 33, 63, 64, 0x1FF, 0x200, i32::MAX - 0x8000, i32::MAX - 0x200, i32::MIN, i32::MIN + 1, 0x7FFF_0000];
    while xs.len() < n.max(22) {
        xs.push(rng.u32() as i32 >> rng.below(31));
    }
    for which in 0..2u8 {
        // blocks of 8: a panic in a block is attributed value by value
        for c in xs.chunks(8) {
            block(ctx, acc, &mut c.iter().copied(), which);
        }
    }
    from_f64_random(ctx, acc, &mut rng, (n / 2) as u32);
}

pub fn run(ctx: &mut Ctx, acc: &mut Acc) {
    let (shard, n) = ctx.shard;
    let mut rng = Rng::derive(ctx.seed, "c15-unary32", shard as u64);
    const BLOCK: u64 = 4096;
    let blocks = (1u64 << 32) / BLOCK;
    if ctx.tier.is_thorough() {
        for which in 0..2u8 {
            for b in 0..blocks {
                if b as usize % n != shard {
                    continue;
                }
                let lo = b * BLOCK;
                block(ctx, acc, &mut (lo..lo + BLOCK).map(|u| u as u32 as i32), which);
                if acc.give_up() {
                    return;
                }
            }
        }
        acc.count("exhaustive:fixed32_values_x_2_types", (blocks / n as u64) * BLOCK);
        ctx.extra.insert("unary32".into(), json!("every 32-bit pattern of Fixed and F26Dot6"));
    } else {
        // 16 pseudo-random values out of every 4096-value block (seeded), both types
        for which in 0..2u8 {
            let mut buf: Vec<i32> = Vec::with_capacity(4096);
            for b in 0..blocks {
                if b as usize % n != shard {
                    continue;
                }
                let lo = b * BLOCK;
                let r = rng.u64();
                for k in 0..16 {
                    let off = k * 256 + ((r >> (k * 4)) & 0xF) * 16 + (((r >> 60) ^ k.wrapping_mul(r >> 33)) & 0xF);
                    buf.push((lo + (off & (BLOCK - 1))) as u32 as i32);
                }
                if buf.len() >= 4096 {
                    block(ctx, acc, &mut buf.drain(..), which);
                }
            }
            block(ctx, acc, &mut buf.drain(..), which);
            if acc.give_up() {
                return;
            }
        }
        acc.count("sampled:fixed32_values_x_2_types", (blocks / n as u64) * 16);
        ctx.extra.insert("unary32".into(), json!("stratified sample: 16 of every 4096 consecutive patterns (seeded) + boundary neighbourhoods"));
    }
    // boundary neighbourhoods (both tiers): around 0, MIN, MAX, every multiple of 2^16 (+-3, +-half), 2^k
    let mut bounds: Vec<i32> = vec![];
    if ctx.mine(0) {
        for d in 0..(1 << 17) {
            bounds.extend_from_slice(&[i32::MIN + d, i32::MAX - d, d, -d]);
        }
        for k in 0..32u32 {
            for d in -40i64..=40 {
                bounds.push(((1i64 << k) + d) as i32);
                bounds.push((-(1i64 << k) + d) as i32);
            }
        }
    }
    for k in 0..65536u32 {
        if !ctx.mine(k as usize) {
            continue;
        }
        let base = (k << 16) as i32;
        for d in [-3i32, -2, -1, 0, 1, 2, 3, 0x1FE, 0x1FF, 0x200, 0x201, 0x7FFE, 0x7FFF, 0x8000, 0x8001, 0xFFFD, 0xFFFE] {
            bounds.push(base.wrapping_add(d));
        }
    }
    acc.count("boundary:fixed32_values_x_2_types", bounds.len() as u64);
    for which in 0..2u8 {
        for ch in bounds.chunks(4096) {
            block(ctx, acc, &mut ch.iter().copied(), which);
        }
    }
    from_f64_random(ctx, acc, &mut rng, ctx.tier.pick(500_000, 3_000_000));
}
