//! Exhaustive checks of the 8/16/24-bit scalar types (and grids for the
//! 32/64-bit ones): big-endian round trips, 24-bit saturation, 2.14/4.12/6.10
//! <-> f32, ordering, small conversions.

use crate::common::{scale_round_exact, Acc};
use font_types::{
    BigEndian, F2Dot14, F4Dot12, F6Dot10, FWord, Fixed, GlyphId16, Int24, LongDateTime, MajorMinor, NameId, Nullable,
    Offset16, Offset24, Offset32, Scalar, Tag, UfWord, Uint24, Version16Dot16,
};
use serde_json::json;
use std::fmt::Debug;
use vf_core::{guard, hex, Ctx, Rng};

/// value <-> bytes in every direction the API offers. `bytes` is the expected
/// big-endian encoding computed by the caller with plain shifts.
fn scalar_rt<T>(ctx: &mut Ctx, acc: &mut Acc, ty: &'static str, v: T, bytes: &[u8]) -> bool
where
    T: Scalar + Copy + PartialEq + Debug,
{
    acc.evals += 1;
    let n = bytes.len();
    let r = guard(|| -> Result<(), &'static str> {
        let raw = v.to_raw();
        if raw.as_ref() != bytes {
            return Err("to_raw");
        }
        match T::read(bytes) {
            Some(x) if x == v => {}
            _ => return Err("read"),
        }
        if T::from_raw(raw) != v {
            return Err("from_raw(to_raw)");
        }
        let Some(be) = BigEndian::<T>::from_slice(bytes) else {
            return Err("BigEndian::from_slice");
        };
        if be.get() != v || be.be_bytes() != bytes {
            return Err("BigEndian::get/be_bytes");
        }
        let be2: BigEndian<T> = v.into();
        if be2.be_bytes() != bytes || be2.get() != v {
            return Err("BigEndian::from(value)");
        }
        if !(be2 == v) {
            return Err("BigEndian == value");
        }
        let mut be3 = BigEndian::<T>::new(raw);
        be3.set(v);
        if be3.be_bytes() != bytes {
            return Err("BigEndian::set");
        }
        // wrong lengths are rejected
        if T::read(&bytes[..n - 1]).is_some() || BigEndian::<T>::from_slice(&bytes[..n - 1]).is_some() {
            return Err("short slice accepted");
        }
        let mut longer = bytes.to_vec();
        longer.push(0);
        if T::read(&longer).is_some() || BigEndian::<T>::from_slice(&longer).is_some() {
            return Err("long slice accepted");
        }
        if <T as font_types::FixedSize>::RAW_BYTE_LEN != n {
            return Err("RAW_BYTE_LEN");
        }
        Ok(())
    });
    match r {
        Ok(Ok(())) => true,
        Ok(Err(what)) => {
            acc.mismatch(ctx, ty, "be_roundtrip", None, format!("bytes={}", hex(bytes)), json!({"failed": what, "value": format!("{:?}", v)}));
            false
        }
        Err(p) => {
            acc.panic(ctx, &p, ty, "be_roundtrip", None, format!("bytes={}", hex(bytes)), json!(null));
            false
        }
    }
}

fn be16(v: u16) -> [u8; 2] {
    [(v >> 8) as u8, v as u8]
}
fn be24(v: u32) -> [u8; 3] {
    [(v >> 16) as u8, (v >> 8) as u8, v as u8]
}
fn be32(v: u32) -> [u8; 4] {
    [(v >> 24) as u8, (v >> 16) as u8, (v >> 8) as u8, v as u8]
}
fn be64(v: u64) -> [u8; 8] {
    let mut o = [0u8; 8];
    for (i, b) in o.iter_mut().enumerate() {
        *b = (v >> (56 - 8 * i)) as u8;
    }
    o
}

macro_rules! f16_checks {
    ($fname:ident, $T:ident, $name:literal, $fb:literal) => {
        /// float conversions, rounding helpers and ordering of one 16-bit fixed type at one value
        fn $fname(ctx: &mut Ctx, acc: &mut Acc, v: i16, other: i16) {
            const ONE: f64 = (1u32 << $fb) as f64;
            let t = $T::from_bits(v);
            acc.evals += 1;
            let r = guard(|| -> Result<(), (&'static str, String)> {
                if t.to_bits() != v {
                    return Err(("to_bits", String::new()));
                }
                let f = t.to_f32();
                if f as f64 != v as f64 / ONE {
                    return Err(("to_f32", format!("got {}", f)));
                }
                let back = $T::from_f32(f);
                if back != t {
                    return Err(("from_f32(to_f32)", format!("got bits {}", back.to_bits())));
                }
                // quarter points: exactly representable, unambiguous nearest
                for (q, up) in [(0.25f32, 0i32), (0.75, 1)] {
                    let x = (v as f32 + q) / ONE as f32;
                    let exp = (v as i32 + up).min(i16::MAX as i32) as i16;
                    let got = $T::from_f32(x).to_bits();
                    if got != exp {
                        return Err(("from_f32 quarter point", format!("x={:e} got {} expected {}", x, got, exp)));
                    }
                }
                // midpoint: either neighbour is a nearest value
                let x = (v as f32 + 0.5) / ONE as f32;
                let got = $T::from_f32(x).to_bits() as i32;
                let hi = (v as i32 + 1).min(i16::MAX as i32);
                if got != v as i32 && got != hi {
                    return Err(("from_f32 midpoint", format!("x={:e} got {}", x, got)));
                }
                // round / floor / fract / abs against exact integer arithmetic
                let one = 1i32 << $fb;
                let vi = v as i32;
                let fl = vi.div_euclid(one) * one;
                if t.floor().to_bits() as i32 != fl {
                    return Err(("floor", format!("got {}", t.floor().to_bits())));
                }
                if t.fract().to_bits() as i32 != vi - fl {
                    return Err(("fract", format!("got {}", t.fract().to_bits())));
                }
                let rd = (vi + one / 2).div_euclid(one) * one;
                if rd <= i16::MAX as i32 && t.round().to_bits() as i32 != rd {
                    return Err(("round", format!("got {} expected {}", t.round().to_bits(), rd)));
                }
                if v != i16::MIN && t.abs().to_bits() as i32 != vi.abs() {
                    return Err(("abs", format!("got {}", t.abs().to_bits())));
                }
                // ordering == ordering of raw bits
                let o = $T::from_bits(other);
                if t.cmp(&o) != v.cmp(&other) || t.partial_cmp(&o) != Some(v.cmp(&other)) || (t == o) != (v == other) {
                    return Err(("ordering", format!("other bits {}", other)));
                }
                let (bt, bo): (BigEndian<$T>, BigEndian<$T>) = (t.into(), o.into());
                if bt.cmp(&bo) != v.cmp(&other) {
                    return Err(("BigEndian ordering", format!("other bits {}", other)));
                }
                // add / sub where representable
                let s = vi + other as i32;
                if s >= i16::MIN as i32 && s <= i16::MAX as i32 && (t + o).to_bits() as i32 != s {
                    return Err(("add", format!("other bits {}", other)));
                }
                let d = vi - other as i32;
                if d >= i16::MIN as i32 && d <= i16::MAX as i32 && (t - o).to_bits() as i32 != d {
                    return Err(("sub", format!("other bits {}", other)));
                }
                Ok(())
            });
            match r {
                Ok(Ok(())) => {
                    acc.class(1, $fb, ((v < 0) as u64) << 32 | (crate::common::bitlen(v as i64) as u64) << 8 | ((v as u16 & ((1 << $fb) - 1)) != 0) as u64);
                }
                Ok(Err((what, d))) => acc.mismatch(ctx, $name, what, None, format!("bits={:#06x}", v as u16), json!({"detail": d})),
                Err(p) => {
                    // abs(MIN) is unrepresentable: only the other operations count
                    acc.panic(ctx, &p, $name, "unary", None, format!("bits={:#06x}", v as u16), json!(null))
                }
            }
        }
    };
}

f16_checks!(f2dot14_at, F2Dot14, "F2Dot14", 14);
f16_checks!(f4dot12_at, F4Dot12, "F4Dot12", 12);
f16_checks!(f6dot10_at, F6Dot10, "F6Dot10", 10);

macro_rules! from_f32_random {
    ($fname:ident, $T:ident, $name:literal, $fb:literal) => {
        /// arbitrary floats: nearest representable value (exact reference from the float's bits)
        fn $fname(ctx: &mut Ctx, acc: &mut Acc, x: f32, cls: &'static str) {
            if !x.is_finite() {
                return;
            }
            acc.evals += 1;
            acc.count(cls, 1);
            let (e, tie) = scale_round_exact(x as f64, $fb);
            let exp = e.clamp(i16::MIN as i128, i16::MAX as i128) as i32;
            let got = match guard(|| $T::from_f32(x).to_bits() as i32) {
                Ok(g) => g,
                Err(p) => return acc.panic(ctx, &p, $name, "from_f32", None, format!("x={:#010x}", x.to_bits()), json!(null)),
            };
            let toward_zero = exp - exp.signum();
            let ok = got == exp || (tie && got == toward_zero);
            if tie && ok && exp.abs() > 100 {
                acc.sample(ctx, concat!("from_f32_midpoint:", $name), || json!({"type": $name, "x": x, "x_bits": format!("{:#010x}", x.to_bits()), "library_bits": got, "away_from_zero_neighbour": exp}));
            }
            if !ok {
                // one float per sign is known to be mis-rounded: the largest float below half an epsilon
                let half_below = f32::from_bits((0.5f32 / (1u32 << $fb) as f32).to_bits() - 1);
                let class = (x.abs() == half_below && exp == 0 && got == if x < 0.0 { -1 } else { 1 }).then_some("largest float below half an epsilon");
                acc.mismatch(ctx, $name, "from_f32", class, format!("x={:#010x}", x.to_bits()), json!({"x": x, "got_bits": got, "nearest_bits": exp, "tie": tie}));
            }
        }
    };
}
from_f32_random!(f2dot14_from, F2Dot14, "F2Dot14", 14);
from_f32_random!(f4dot12_from, F4Dot12, "F4Dot12", 12);
from_f32_random!(f6dot10_from, F6Dot10, "F6Dot10", 10);

fn gen_f32(rng: &mut Rng, fb: u32) -> (f32, &'static str) {
    let one = (1u32 << fb) as f32;
    match if rng.chance(1, 200) { 5 } else { rng.below(5) } {
        0 => (f32::from_bits(rng.u32()), "from_f32:random_bits"),
        1 => ((rng.f64() * 4.2 - 2.1) as f32 * (32768.0 / one) / 2.0, "from_f32:uniform_in_range"),
        2 => {
            // just off a midpoint or an integer, in ulps of the float
            let k = rng.range(-32770, 32770) as f32 + if rng.bool() { 0.5 } else { 0.0 };
            let x = k / one;
            let d = rng.range(-2, 2);
            (f32::from_bits((x.to_bits() as i64 + d).clamp(0, u32::MAX as i64) as u32), "from_f32:near_midpoint_or_integer")
        }
        3 => ((rng.f64() - 0.5) as f32 * 4.0 / one, "from_f32:tiny"),
        4 => (*rng.pick(&[32767.0f32, 32767.4, 32767.5, 32768.0, -32768.0, -32768.5, -32769.0, 1e9, -1e9, f32::MAX, f32::MIN, 0.0, -0.0, f32::MIN_POSITIVE]) / one, "from_f32:range_limits"),
        _ => {
            let half_below = f32::from_bits((0.5f32 / one).to_bits() - 1);
            (if rng.bool() { half_below } else { -half_below }, "from_f32:largest_below_half_epsilon")
        }
    }
}

/// every check of one 16-bit pattern (all 16-bit types)
fn pattern16(ctx: &mut Ctx, acc: &mut Acc, rng: &mut Rng, p: u16) {
    let b = be16(p);
    let s = p as i16;
    scalar_rt::<u16>(ctx, acc, "u16", p, &b);
    scalar_rt::<i16>(ctx, acc, "i16", s, &b);
    scalar_rt::<FWord>(ctx, acc, "FWord", FWord::new(s), &b);
    scalar_rt::<UfWord>(ctx, acc, "UfWord", UfWord::new(p), &b);
    scalar_rt::<F2Dot14>(ctx, acc, "F2Dot14", F2Dot14::from_bits(s), &b);
    scalar_rt::<F4Dot12>(ctx, acc, "F4Dot12", F4Dot12::from_bits(s), &b);
    scalar_rt::<F6Dot10>(ctx, acc, "F6Dot10", F6Dot10::from_bits(s), &b);
    scalar_rt::<Offset16>(ctx, acc, "Offset16", Offset16::new(p), &b);
    scalar_rt::<GlyphId16>(ctx, acc, "GlyphId16", GlyphId16::new(p), &b);
    scalar_rt::<NameId>(ctx, acc, "NameId", NameId::new(p), &b);
    if let Some(n) = <Nullable<Offset16> as Scalar>::read(&b) {
        scalar_rt::<Nullable<Offset16>>(ctx, acc, "Nullable<Offset16>", n, &b);
        if n.is_null() != (p == 0) || n.offset().to_u32() != p as u32 || Offset16::new(p).is_null() != (p == 0) {
            acc.mismatch(ctx, "Offset16", "is_null/to_u32", None, format!("bits={:#06x}", p), json!(null));
        }
    }
    // accessors
    if FWord::new(s).to_i16() != s || UfWord::new(p).to_u16() != p || GlyphId16::new(p).to_u16() != p || NameId::new(p).to_u16() != p
        || FWord::new(s).to_be_bytes() != b || UfWord::new(p).to_be_bytes() != b || F2Dot14::from_bits(s).to_be_bytes() != b
        || GlyphId16::new(p).to_be_bytes() != b || NameId::new(p).to_be_bytes() != b || GlyphId16::new(p).to_u32() != p as u32
    {
        acc.mismatch(ctx, "16-bit newtypes", "accessors", None, format!("bits={:#06x}", p), json!(null));
    }
    // ordering of the integer newtypes == ordering of raw
    let o = match p % 3 {
        0 => p.wrapping_add(1),
        1 => p ^ 0x8000,
        _ => rng.u32() as u16,
    };
    if FWord::new(s).cmp(&FWord::new(o as i16)) != s.cmp(&(o as i16))
        || UfWord::new(p).cmp(&UfWord::new(o)) != p.cmp(&o)
        || GlyphId16::new(p).cmp(&GlyphId16::new(o)) != p.cmp(&o)
        || NameId::new(p).cmp(&NameId::new(o)) != p.cmp(&o)
        || Offset16::new(p).cmp(&Offset16::new(o)) != p.cmp(&o)
    {
        acc.mismatch(ctx, "16-bit newtypes", "ordering", None, format!("bits={:#06x},{:#06x}", p, o), json!(null));
    }
    acc.evals += 2;
    f2dot14_at(ctx, acc, s, o as i16);
    f4dot12_at(ctx, acc, s, o as i16);
    f6dot10_at(ctx, acc, s, o as i16);
    // conversions to 16.16
    let fx = F2Dot14::from_bits(s).to_fixed().to_bits();
    if fx != s as i32 * 4 {
        acc.mismatch(ctx, "F2Dot14", "to_fixed", None, format!("bits={:#06x}", p), json!({"got": fx}));
    }
    if FWord::new(s).to_fixed().to_bits() as i64 != (s as i64) << 16 {
        acc.mismatch(ctx, "FWord", "to_fixed", None, format!("bits={:#06x}", p), json!(null));
    }
    if p < 0x8000 && UfWord::new(p).to_fixed().to_bits() as i64 != (p as i64) << 16 {
        acc.mismatch(ctx, "UfWord", "to_fixed", None, format!("bits={:#06x}", p), json!(null));
    }
    if Fixed::from_i32(s as i32).to_bits() as i64 != (s as i64) << 16 || Fixed::from(s as i32).to_bits() as i64 != (s as i64) << 16 {
        acc.mismatch(ctx, "Fixed", "from_i32", None, format!("i={}", s), json!(null));
    }
    // 16.16 -> 2.14 on every value that is representable in 2.14 (+- the two low bits)
    for low in 0..4i32 {
        let x = (s as i32) * 4 + low;
        let e = (x as i64 + 2).div_euclid(4);
        if e >= i16::MIN as i64 && e <= i16::MAX as i64 {
            let got = Fixed::from_bits(x).to_f2dot14().to_bits();
            if got as i64 != e {
                acc.mismatch(ctx, "Fixed", "to_f2dot14", None, format!("bits={:#010x}", x as u32), json!({"got": got, "expected": e}));
            }
            acc.evals += 1;
        }
    }
    // MajorMinor / Version16Dot16 with this pattern as major and a derived minor
    let minor = (p as u32 * 7 % 10) as u16;
    let v = Version16Dot16::new(p, minor);
    let vb = [b[0], b[1], (minor << 4) as u8, 0];
    scalar_rt::<Version16Dot16>(ctx, acc, "Version16Dot16", v, &vb);
    if v.to_major_minor() != (p, minor) || v.to_be_bytes() != vb {
        acc.mismatch(ctx, "Version16Dot16", "to_major_minor", None, format!("major={},minor={}", p, minor), json!(null));
    }
    let mm = MajorMinor::new(p, o);
    let mb = [b[0], b[1], (o >> 8) as u8, o as u8];
    scalar_rt::<MajorMinor>(ctx, acc, "MajorMinor", mm, &mb);
    if MajorMinor::new(p, o).cmp(&MajorMinor::new(o, p)) != (p, o).cmp(&(o, p)) {
        acc.mismatch(ctx, "MajorMinor", "ordering", None, format!("{},{}", p, o), json!(null));
    }
}

/// every check of one 24-bit pattern; the complete battery when `full`
fn pattern24(ctx: &mut Ctx, acc: &mut Acc, rng: &mut Rng, p: u32, full: bool) {
    let b = be24(p);
    let sv = ((p << 8) as i32) >> 8; // sign-extended
    acc.evals += 3;
    let ok = guard(|| {
        let u = Uint24::from_be_bytes(b);
        let i = Int24::from_be_bytes(b);
        u.to_u32() == p
            && u.to_be_bytes() == b
            && Uint24::new(p) == u
            && Uint24::checked_new(p) == Some(u)
            && u32::from(u) == p
            && usize::from(u) == p as usize
            && Uint24::try_from(p as usize).ok() == Some(u)
            && i.to_i32() == sv
            && i.to_be_bytes() == b
            && Int24::new(sv) == i
            && Int24::checked_new(sv) == Some(i)
            && i32::from(i) == sv
            && <Uint24 as Scalar>::read(&b) == Some(u)
            && <Int24 as Scalar>::read(&b) == Some(i)
            && u.to_raw() == b
            && i.to_raw() == b
            && <Offset24 as Scalar>::read(&b).map(|o| o.to_u32()) == Some(p)
            && Offset24::new(u).to_raw() == b
            && Offset24::new(u).is_null() == (p == 0)
            && BigEndian::<Int24>::from(i).get() == i
            && BigEndian::<Uint24>::from(u).be_bytes() == b
    });
    match ok {
        Ok(true) => {}
        Ok(false) => acc.mismatch(ctx, "Uint24/Int24/Offset24", "be_roundtrip", None, format!("bytes={}", hex(&b)), json!(null)),
        Err(pi) => acc.panic(ctx, &pi, "Uint24/Int24/Offset24", "be_roundtrip", None, format!("bytes={}", hex(&b)), json!(null)),
    }
    if full {
        // the complete battery (incl. wrong lengths, BigEndian::set) on a subset; ordering
        scalar_rt::<Uint24>(ctx, acc, "Uint24", Uint24::new(p), &b);
        scalar_rt::<Int24>(ctx, acc, "Int24", Int24::new(sv), &b);
        scalar_rt::<Offset24>(ctx, acc, "Offset24", Offset24::new(Uint24::new(p)), &b);
        if let Some(nl) = <Nullable<Offset24> as Scalar>::read(&b) {
            scalar_rt::<Nullable<Offset24>>(ctx, acc, "Nullable<Offset24>", nl, &b);
        }
        let o = rng.u32() & 0xFF_FFFF;
        let so = ((o << 8) as i32) >> 8;
        if Uint24::new(p).cmp(&Uint24::new(o)) != p.cmp(&o) || Int24::new(sv).cmp(&Int24::new(so)) != sv.cmp(&so) {
            acc.mismatch(ctx, "Uint24/Int24", "ordering", None, format!("{:#x},{:#x}", p, o), json!(null));
        }
    }
}

/// every check of the 32- and 64-bit scalars at `vals[i]`
fn pattern32_64(ctx: &mut Ctx, acc: &mut Acc, vals: &[u64], i: usize) {
    let v = &vals[i];
    let w = *v as u32;
    let b = be32(w);
    scalar_rt::<u32>(ctx, acc, "u32", w, &b);
    scalar_rt::<i32>(ctx, acc, "i32", w as i32, &b);
    scalar_rt::<Fixed>(ctx, acc, "Fixed", Fixed::from_bits(w as i32), &b);
    scalar_rt::<Offset32>(ctx, acc, "Offset32", Offset32::new(w), &b);
    scalar_rt::<Tag>(ctx, acc, "Tag", Tag::from_be_bytes(b), &b);
    if let Some(x) = <Version16Dot16 as Scalar>::read(&b) {
        scalar_rt::<Version16Dot16>(ctx, acc, "Version16Dot16", x, &b);
    }
    if let Some(x) = <Nullable<Offset32> as Scalar>::read(&b) {
        scalar_rt::<Nullable<Offset32>>(ctx, acc, "Nullable<Offset32>", x, &b);
    }
    scalar_rt::<MajorMinor>(ctx, acc, "MajorMinor", MajorMinor::new((w >> 16) as u16, w as u16), &b);
    let tg = Tag::from_u32(w);
    let o = (vals[(i * 31 + 7) % vals.len()]) as u32;
    if tg.to_be_bytes() != b || tg.into_bytes() != b || tg != Tag::from_be_bytes(b) || Fixed::from_bits(w as i32).to_be_bytes() != b
        || tg.cmp(&Tag::from_u32(o)) != w.cmp(&o)
        || Fixed::from_bits(w as i32).cmp(&Fixed::from_bits(o as i32)) != (w as i32).cmp(&(o as i32))
        || Offset32::new(w).cmp(&Offset32::new(o)) != w.cmp(&o)
        || Offset32::new(w).to_u32() != w
    {
        acc.mismatch(ctx, "Tag/Fixed/Offset32", "bytes/ordering", None, format!("{:#010x},{:#010x}", w, o), json!(null));
    }
    let b8 = be64(*v);
    scalar_rt::<i64>(ctx, acc, "i64", *v as i64, &b8);
    scalar_rt::<LongDateTime>(ctx, acc, "LongDateTime", LongDateTime::new(*v as i64), &b8);
    let o64 = vals[(i * 17 + 3) % vals.len()] as i64;
    if LongDateTime::new(*v as i64).as_secs() != *v as i64
        || LongDateTime::new(*v as i64).to_be_bytes() != b8
        || LongDateTime::new(*v as i64).cmp(&LongDateTime::new(o64)) != (*v as i64).cmp(&o64)
    {
        acc.mismatch(ctx, "LongDateTime", "as_secs/bytes/ordering", None, format!("{:#x}", v), json!(null));
    }
    acc.class(3, 0, (crate::common::bitlen(*v as i64) as u64) << 1 | ((*v as i64) < 0) as u64);
}

/// Int24 / Uint24 construction from an out-of-range (or in-range) integer
fn saturate_at(ctx: &mut Ctx, acc: &mut Acc, x: i64) {
    acc.evals += 1;
    if x >= i32::MIN as i64 && x <= i32::MAX as i64 {
        let xi = x as i32;
        let exp = xi.clamp(-0x80_0000, 0x7F_FFFF);
        let (g, c) = (Int24::new(xi).to_i32(), Int24::checked_new(xi).map(|v| v.to_i32()));
        let in_range = exp == xi;
        if g != exp || c != in_range.then_some(xi) {
            acc.mismatch(ctx, "Int24", "new/checked_new", None, format!("x={}", xi), json!({"new": g, "checked_new": c, "expected_saturated": exp}));
        }
        acc.count(if in_range { "int24:new_in_range" } else { "int24:new_saturating" }, 1);
        if !in_range {
            acc.sample(ctx, "int24_saturation", || json!({"Int24::new": xi, "to_i32": g, "checked_new": c}));
        }
        acc.class(2, 0, (in_range as u64) << 1 | (xi < 0) as u64);
    }
    if x >= 0 {
        let xu = x as u32;
        let exp = xu.min(0xFF_FFFF);
        let in_range = exp == xu;
        let (g, c) = (Uint24::new(xu).to_u32(), Uint24::checked_new(xu).map(|v| v.to_u32()));
        let t = Uint24::try_from(xu as usize).ok().map(|v| v.to_u32());
        if g != exp || c != in_range.then_some(xu) || t != c {
            acc.mismatch(ctx, "Uint24", "new/checked_new/try_from", None, format!("x={}", xu), json!({"new": g, "checked_new": c, "try_from": t, "expected_saturated": exp}));
        }
        acc.count(if in_range { "uint24:new_in_range" } else { "uint24:new_saturating" }, 1);
        acc.class(2, 1, in_range as u64);
    }
}

/// Miri slice: boundary patterns plus `n` random ones per width through the same per-pattern batteries.
pub fn miri(ctx: &mut Ctx, acc: &mut Acc, n: usize) {
    let mut rng = Rng::derive(ctx.seed, "c15-small-miri", 0);
    for v in [0u8, 1, 0x7F, 0x80, 0xFF, rng.u32() as u8] {
        scalar_rt::<u8>(ctx, acc, "u8", v, &[v]);
        scalar_rt::<i8>(ctx, acc, "i8", v as i8, &[v]);
    }
    let mut p16: Vec<u16> = vec![0, 1, 0x3FFF, 0x4000, 0x7FFF, 0x8000, 0x8001, 0xC000, 0xFFFE, 0xFFFF];
    while p16.len() < 10 + n {
        p16.push(rng.u32() as u16);
    }
    for p in p16 {
        pattern16(ctx, acc, &mut rng, p);
    }
    for _ in 0..n {
        let (x, c) = gen_f32(&mut rng, 14);
        f2dot14_from(ctx, acc, x, c);
        let (x, c) = gen_f32(&mut rng, 12);
        f4dot12_from(ctx, acc, x, c);
        let (x, c) = gen_f32(&mut rng, 10);
        f6dot10_from(ctx, acc, x, c);
    }
    let mut p24: Vec<u32> = vec![0, 1, 0x7F_FFFF, 0x80_0000, 0x80_0001, 0xFF_FFFF, 0x00_FF00, 0x01_0000];
    while p24.len() < 8 + n {
        p24.push(rng.u32() & 0xFF_FFFF);
    }
    for (i, p) in p24.into_iter().enumerate() {
        pattern24(ctx, acc, &mut rng, p, i % 2 == 0);
    }
    let mut outs: Vec<i64> = vec![0x7F_FFFF, 0x80_0000, -0x80_0000, -0x80_0001, 0xFF_FFFF, 0x100_0000, i32::MAX as i64, i32::MIN as i64, u32::MAX as i64];
    while outs.len() < 9 + n {
        outs.push(rng.range(i32::MIN as i64, u32::MAX as i64));
    }
    for x in outs {
        saturate_at(ctx, acc, x);
    }
    let mut vals: Vec<u64> = vec![0, 1, 0x7FFF_FFFF, 0x8000_0000, 0xFFFF_FFFF, 0x1_0000_0000, u64::MAX, 1 << 63, 0x0001_0000, 0x0000_5000];
    while vals.len() < 10 + n {
        vals.push(rng.u64() >> rng.below(64));
    }
    for i in 0..vals.len() {
        pattern32_64(ctx, acc, &vals, i);
    }
}

pub fn run(ctx: &mut Ctx, acc: &mut Acc) {
    let mut rng = Rng::derive(ctx.seed, "c15-small", ctx.shard.0 as u64);

    // ---- 8-bit
    if ctx.mine(0) {
        for v in 0..=255u8 {
            scalar_rt::<u8>(ctx, acc, "u8", v, &[v]);
            scalar_rt::<i8>(ctx, acc, "i8", v as i8, &[v]);
        }
        acc.count("exhaustive:8bit_values", 256);
    }

    // ---- 16-bit: every pattern of every type
    for p in 0..=u16::MAX {
        if !ctx.mine(p as usize) {
            continue;
        }
        pattern16(ctx, acc, &mut rng, p);
    }
    acc.count("exhaustive:16bit_patterns_x_13_types", if ctx.shard.0 == 0 { 65536 } else { 0 });

    // ---- arbitrary floats -> 16-bit fixed
    let n = ctx.tier.pick(500_000u32, 4_000_000);
    for _ in 0..n {
        let (x, c) = gen_f32(&mut rng, 14);
        f2dot14_from(ctx, acc, x, c);
        let (x, c) = gen_f32(&mut rng, 12);
        f4dot12_from(ctx, acc, x, c);
        let (x, c) = gen_f32(&mut rng, 10);
        f6dot10_from(ctx, acc, x, c);
        if acc.give_up() {
            return;
        }
    }

    // ---- 24-bit: every pattern
    for p in 0..(1u32 << 24) {
        if !ctx.mine((p >> 8) as usize) {
            continue;
        }
        pattern24(ctx, acc, &mut rng, p, p % 4099 == 0);
        if acc.give_up() {
            return;
        }
    }
    acc.count("exhaustive:24bit_patterns_x_3_types", if ctx.shard.0 == 0 { 1 << 24 } else { 0 });

    // ---- 24-bit saturation on construction
    if ctx.mine(1) {
        let mut outs: Vec<i64> = vec![];
        for d in 0..70i64 {
            outs.extend_from_slice(&[0x7F_FFFF + d, -0x80_0000 - d, 0xFF_FFFF + d, i32::MAX as i64 - d, i32::MIN as i64 + d, u32::MAX as i64 - d, (1 << 24) + d * 65537, -(1 << 24) - d * 65537]);
        }
        for _ in 0..200_000 {
            outs.push(rng.range(i32::MIN as i64, u32::MAX as i64));
        }
        for x in outs {
            saturate_at(ctx, acc, x);
        }
        if Int24::MAX.to_i32() != 0x7F_FFFF || Int24::MIN.to_i32() != -0x80_0000 || Uint24::MAX.to_u32() != 0xFF_FFFF || Uint24::MIN.to_u32() != 0 {
            acc.mismatch(ctx, "Int24/Uint24", "MIN/MAX", None, String::new(), json!(null));
        }
        if Uint24::try_from(usize::MAX).is_ok() || Uint24::try_from(1usize << 32).is_ok() {
            acc.mismatch(ctx, "Uint24", "try_from", None, "usize beyond u32".into(), json!(null));
        }
    }

    // ---- 32/64-bit scalars over a boundary set x grid + random
    let mut vals: Vec<u64> = vec![];
    for k in 0..64u32 {
        let p = 1u64 << k;
        vals.extend_from_slice(&[p, p.wrapping_sub(1), p.wrapping_add(1), !p, 0u64.wrapping_sub(p)]);
    }
    for b in [0x00u64, 0x01, 0x7F, 0x80, 0xFF, 0x20, 0x7E] {
        vals.push(b * 0x0101_0101_0101_0101);
        vals.push(b << 24 | 0x00_1234_56);
        vals.push(b | 0xABCD_EF00);
    }
    for _ in 0..ctx.tier.pick(20_000, 400_000) {
        vals.push(rng.u64() >> rng.below(64));
    }
    for i in 0..vals.len() {
        if !ctx.mine(i) {
            continue;
        }
        pattern32_64(ctx, acc, &vals, i);
    }
    acc.count("scalar32_64:values", vals.len() as u64 / ctx.shard.1 as u64);
}
