use font_types::{Fixed, F26Dot6};
fn main() {
    let h = |s: &str, f: &dyn Fn() -> i32| {
        let r = vf_core::guard(f);
        match r { Ok(v) => println!("{s}: {:#010x} ({})", v as u32, v), Err(p) => println!("{s}: PANIC {}:{} {}", p.file, p.line, p.msg) }
    };
    let min = Fixed::from_bits(i32::MIN);
    let one = Fixed::from_bits(0x10000);
    let two = Fixed::from_bits(0x20000);
    h("MIN/1", &|| (std::hint::black_box(min) / std::hint::black_box(one)).to_bits());
    h("MIN/2 (exact -16384.0 = 0xc0000000)", &|| (std::hint::black_box(min) / std::hint::black_box(two)).to_bits());
    h("MIN/-2 (exact 0x40000000)", &|| (std::hint::black_box(min) / std::hint::black_box(Fixed::from_bits(-0x20000))).to_bits());
    h("1/MIN (exact -2)", &|| (std::hint::black_box(one) / std::hint::black_box(min)).to_bits());
    h("0x8000/-1ulp (exact MIN)", &|| (std::hint::black_box(Fixed::from_bits(0x8000)) / std::hint::black_box(Fixed::from_bits(-1))).to_bits());
    h("-MIN", &|| (-std::hint::black_box(min)).to_bits());
    h("abs MIN", &|| std::hint::black_box(min).abs().to_bits());
    h("mul_div(-0x8000, 0x10000, 1) exact MIN", &|| std::hint::black_box(Fixed::from_bits(-0x8000)).mul_div(Fixed::from_bits(0x10000), Fixed::from_bits(1)).to_bits());
    h("mul_div(MIN, 1.0, 1.0)", &|| std::hint::black_box(min).mul_div(one, one).to_bits());
    h("MIN*1.0", &|| (std::hint::black_box(min) * one).to_bits());
    h("F26Dot6 MIN/0x10000", &|| (std::hint::black_box(F26Dot6::from_bits(i32::MIN)) / F26Dot6::from_bits(0x10000)).to_bits());
    h("Fixed(0x7fffffff).to_f26dot6", &|| std::hint::black_box(Fixed::from_bits(i32::MAX)).to_f26dot6().to_bits());
    h("Fixed(0x7fff8000).to_i32", &|| std::hint::black_box(Fixed::from_bits(0x7fff8000)).to_i32());
    println!("debug_assertions={}", cfg!(debug_assertions));
}
