//! Reference model of COLR paint graphs + generators + conversion to
//! write-fonts owned types.
//!
//! The model keeps the graph in the form the table has it: base glyph roots,
//! a layer list (referenced by index ranges) and inline children. Everything
//! the oracle expects is derived from the model alone (never from skrifa).
use std::collections::BTreeMap;
use vf_core::{Digest, Rng};
use write_fonts::tables::colr as wf;
use write_fonts::tables::variations as wv;
use write_fonts::types::{F2Dot14, FWord, Fixed, GlyphId16, UfWord};

pub const FAMILIES: [&str; 9] = ["tree", "tree-var", "dag-wild", "cyclic-wild", "deep-mixed", "v0-and-v1", "glyph-nest", "dangling", "cache-refs"];
pub const CHAIN_KINDS: [&str; 6] = ["colrglyph", "layers", "transform", "composite-source", "composite-backdrop", "mixed"];

/// cap on the unfolded size of a generated (non-family) graph
const GEN_CAP: u64 = 60_000;
const GEN_CAP_CYCLIC: u64 = 6_000;
const WALK_CAP: u64 = 4_000_000;

#[derive(Clone, Debug)]
pub enum P {
    Layers { first: u32, n: u8 },
    /// formats 2..=9
    Leaf(u8),
    Glyph(Box<P>, u16),
    ColrGlyph(u16),
    /// formats 12..=31
    Xform(u8, Box<P>),
    /// source, mode, backdrop
    Composite(Box<P>, u8, Box<P>),
}

#[derive(Clone, Debug, Default)]
pub struct Model {
    pub glyphs: BTreeMap<u16, P>,
    pub layers: Vec<P>,
    pub v0: BTreeMap<u16, Vec<(u16, u16)>>,
    /// (start, end, variable)
    pub clips: Vec<(u16, u16, bool)>,
    pub axes: usize,
    pub var_store: bool,
    pub index_map: bool,
    pub nglyphs: u16,
}

#[derive(Clone, Debug, Default)]
pub struct Analysis {
    /// size of the graph unfolded into a tree, PaintGlyph counted twice
    /// (optimiser pass + real pass): an upper bound of the nodes a traversal
    /// may enter. Saturating.
    pub unfolded: u64,
    pub cut: bool,
    pub cyclic: bool,
    /// nodes on the longest path from the root (root = 1)
    pub longest_path: usize,
    pub dangling: bool,
    pub colr_glyph_edges_to_existing: bool,
    pub shape_digest: u64,
}

struct Walk<'a> {
    m: &'a Model,
    descend: bool,
    layer_on_path: Vec<bool>,
    glyph_on_path: BTreeMap<u16, bool>,
    count: u64,
    a: Analysis,
    shape: Digest,
}

impl Walk<'_> {
    fn walk(&mut self, p: &P, depth: usize) -> u64 {
        if self.a.cut {
            return 0;
        }
        self.count += 1;
        if self.count > WALK_CAP {
            self.a.cut = true;
            return 0;
        }
        self.a.longest_path = self.a.longest_path.max(depth);
        if self.count < 4000 {
            self.shape.bytes(&[match p {
                P::Layers { n, .. } => 100 + (*n).min(50),
                P::Leaf(f) => *f,
                P::Glyph(..) => 10,
                P::ColrGlyph(_) => 11,
                P::Xform(f, _) => *f,
                P::Composite(..) => 32,
            }]);
        }
        if depth > 90 {
            // far beyond the limit already; do not unfold further
            return 1;
        }
        match p {
            P::Leaf(_) => 1,
            P::Layers { first, n } => {
                let mut s = 1u64;
                for i in *first as u64..*first as u64 + *n as u64 {
                    let Some(l) = self.m.layers.get(i as usize) else {
                        self.a.dangling = true;
                        continue;
                    };
                    if self.layer_on_path[i as usize] {
                        self.a.cyclic = true;
                        continue;
                    }
                    self.layer_on_path[i as usize] = true;
                    s = s.saturating_add(self.walk(l, depth + 1));
                    self.layer_on_path[i as usize] = false;
                }
                s
            }
            P::Glyph(c, _) => 1u64.saturating_add(self.walk(c, depth + 1).saturating_mul(2)),
            P::ColrGlyph(g) => {
                let Some(root) = self.m.glyphs.get(g) else {
                    self.a.dangling = true;
                    return 1;
                };
                self.a.colr_glyph_edges_to_existing = true;
                if !self.descend {
                    return 1;
                }
                if *self.glyph_on_path.get(g).unwrap_or(&false) {
                    self.a.cyclic = true;
                    return 1;
                }
                self.glyph_on_path.insert(*g, true);
                let s = self.walk(root, depth + 1);
                self.glyph_on_path.insert(*g, false);
                s.saturating_add(1)
            }
            P::Xform(_, c) => self.walk(c, depth + 1).saturating_add(1),
            P::Composite(s, _, b) => {
                let x = self.walk(b, depth + 1);
                let y = self.walk(s, depth + 1);
                x.saturating_add(y).saturating_add(1)
            }
        }
    }
}

fn fw(rng: &mut Rng) -> FWord {
    FWord::new(*rng.pick(&[0i16, 0, 100, -100, 500, 1000, -32768, 32767, 1]))
}
fn f214(rng: &mut Rng) -> F2Dot14 {
    F2Dot14::from_bits(*rng.pick(&[0i16, 0x4000, -0x4000, 0x2000, 0x7fff, -0x8000, 1, 0x1000, -0x2000, 0x0800]))
}
fn fx(rng: &mut Rng) -> Fixed {
    Fixed::from_bits(*rng.pick(&[0i32, 0x10000, -0x10000, 0x8000, 0x20000, 0x7fffffff, i32::MIN, 1, 0x18000]))
}

impl Model {
    pub fn analyze(&self, gid: u32, descend: bool) -> Option<Analysis> {
        let gid16 = u16::try_from(gid).ok()?;
        let root = self.glyphs.get(&gid16)?;
        let mut w = Walk {
            m: self,
            descend,
            layer_on_path: vec![false; self.layers.len()],
            glyph_on_path: BTreeMap::new(),
            count: 0,
            a: Analysis::default(),
            shape: Digest::new(),
        };
        w.glyph_on_path.insert(gid16, true);
        let s = w.walk(root, 1);
        w.a.unfolded = s;
        if s > WALK_CAP {
            w.a.cut = true;
        }
        w.a.shape_digest = w.shape.finish();
        Some(w.a)
    }

    pub fn glyph_ids_to_try(&self) -> Vec<u32> {
        let mut v: Vec<u32> = self.glyphs.keys().map(|g| *g as u32).collect();
        v.extend(self.v0.keys().map(|g| *g as u32));
        // a glyph that is no colour glyph, and one beyond 16 bits
        v.push(self.nglyphs as u32 + 1);
        v.push(0x1_0005);
        v.sort_unstable();
        v.dedup();
        v
    }

    pub fn formats_used(&self) -> Vec<u8> {
        fn rec(p: &P, out: &mut Vec<u8>) {
            match p {
                P::Layers { .. } => out.push(1),
                P::Leaf(f) => out.push(*f),
                P::Glyph(c, _) => {
                    out.push(10);
                    rec(c, out)
                }
                P::ColrGlyph(_) => out.push(11),
                P::Xform(f, c) => {
                    out.push(*f);
                    rec(c, out)
                }
                P::Composite(s, _, b) => {
                    out.push(32);
                    rec(s, out);
                    rec(b, out)
                }
            }
        }
        let mut v = vec![];
        for p in self.glyphs.values().chain(self.layers.iter()) {
            rec(p, &mut v);
        }
        v.sort_unstable();
        v.dedup();
        v
    }

    // ---------------------------------------------------------- serialisation

    fn vib(&self, rng: &mut Rng) -> u32 {
        match rng.usize(8) {
            0 => 0xFFFF_FFFF,
            1 => 0xFFFF_FFF0 + rng.u32() % 15,
            2 => 40 + rng.u32() % 100_000,
            _ => rng.u32() % 40,
        }
    }

    fn color_line(&self, rng: &mut Rng) -> wf::ColorLine {
        let n = *rng.pick(&[0usize, 1, 2, 2, 3, 5, 33]);
        let same = rng.chance(1, 4);
        let stops: Vec<wf::ColorStop> = (0..n)
            .map(|i| wf::ColorStop::new(if same { F2Dot14::from_bits(0x2000) } else { F2Dot14::from_bits((rng.range(-0x6000, 0x6000) as i16).wrapping_add(i as i16)) }, rng.u32() as u16 % 6, f214(rng)))
            .collect();
        wf::ColorLine::new(self.extend(rng), n as u16, stops)
    }
    fn var_color_line(&self, rng: &mut Rng) -> wf::VarColorLine {
        let n = *rng.pick(&[0usize, 1, 2, 2, 3, 5, 33]);
        let same = rng.chance(1, 4);
        let stops: Vec<wf::VarColorStop> = (0..n)
            .map(|i| {
                wf::VarColorStop::new(
                    if same { F2Dot14::from_bits(0x2000) } else { F2Dot14::from_bits((rng.range(-0x6000, 0x6000) as i16).wrapping_add(i as i16)) },
                    rng.u32() as u16 % 6,
                    f214(rng),
                    self.vib(rng),
                )
            })
            .collect();
        wf::VarColorLine::new(self.extend(rng), n as u16, stops)
    }
    fn extend(&self, rng: &mut Rng) -> wf::Extend {
        *rng.pick(&[wf::Extend::Pad, wf::Extend::Repeat, wf::Extend::Reflect])
    }

    fn to_wf(&self, p: &P, rng: &mut Rng) -> wf::Paint {
        use wf::Paint as W;
        match p {
            P::Layers { first, n } => W::colr_layers(*n, *first),
            P::Leaf(f) => match f {
                2 => W::solid(rng.u32() as u16 % 8, f214(rng)),
                3 => W::var_solid(rng.u32() as u16 % 8, f214(rng), self.vib(rng)),
                4 => {
                    // sometimes degenerate (p0 == p1, parallel)
                    let (x0, y0) = (fw(rng), fw(rng));
                    let (x1, y1) = if rng.chance(1, 4) { (x0, y0) } else { (fw(rng), fw(rng)) };
                    W::linear_gradient(self.color_line(rng), x0, y0, x1, y1, fw(rng), fw(rng))
                }
                5 => W::var_linear_gradient(self.var_color_line(rng), fw(rng), fw(rng), fw(rng), fw(rng), fw(rng), fw(rng), self.vib(rng)),
                6 => W::radial_gradient(self.color_line(rng), fw(rng), fw(rng), UfWord::new(rng.u32() as u16 % 2000), fw(rng), fw(rng), UfWord::new(rng.u32() as u16)),
                7 => W::var_radial_gradient(self.var_color_line(rng), fw(rng), fw(rng), UfWord::new(rng.u32() as u16 % 2000), fw(rng), fw(rng), UfWord::new(rng.u32() as u16), self.vib(rng)),
                8 => {
                    let a = f214(rng);
                    let b = if rng.chance(1, 3) { a } else { f214(rng) };
                    W::sweep_gradient(self.color_line(rng), fw(rng), fw(rng), a, b)
                }
                _ => W::var_sweep_gradient(self.var_color_line(rng), fw(rng), fw(rng), f214(rng), f214(rng), self.vib(rng)),
            },
            P::Glyph(c, g) => W::glyph(self.to_wf(c, rng), GlyphId16::new(*g)),
            P::ColrGlyph(g) => W::colr_glyph(GlyphId16::new(*g)),
            P::Composite(s, mode, b) => {
                let mode = COMPOSITE_MODES[*mode as usize % COMPOSITE_MODES.len()];
                let sp = self.to_wf(s, rng);
                let bp = self.to_wf(b, rng);
                W::composite(sp, mode, bp)
            }
            P::Xform(f, c) => {
                let c = self.to_wf(c, rng);
                match f {
                    12 => W::transform(c, wf::Affine2x3::new(fx(rng), fx(rng), fx(rng), fx(rng), fx(rng), fx(rng))),
                    13 => W::var_transform(c, wf::VarAffine2x3::new(fx(rng), fx(rng), fx(rng), fx(rng), fx(rng), fx(rng), self.vib(rng))),
                    14 => W::translate(c, fw(rng), fw(rng)),
                    15 => W::var_translate(c, fw(rng), fw(rng), self.vib(rng)),
                    16 => W::scale(c, f214(rng), f214(rng)),
                    17 => W::var_scale(c, f214(rng), f214(rng), self.vib(rng)),
                    18 => W::scale_around_center(c, f214(rng), f214(rng), fw(rng), fw(rng)),
                    19 => W::var_scale_around_center(c, f214(rng), f214(rng), fw(rng), fw(rng), self.vib(rng)),
                    20 => W::scale_uniform(c, f214(rng)),
                    21 => W::var_scale_uniform(c, f214(rng), self.vib(rng)),
                    22 => W::scale_uniform_around_center(c, f214(rng), fw(rng), fw(rng)),
                    23 => W::var_scale_uniform_around_center(c, f214(rng), fw(rng), fw(rng), self.vib(rng)),
                    24 => W::rotate(c, f214(rng)),
                    25 => W::var_rotate(c, f214(rng), self.vib(rng)),
                    26 => W::rotate_around_center(c, f214(rng), fw(rng), fw(rng)),
                    27 => W::var_rotate_around_center(c, f214(rng), fw(rng), fw(rng), self.vib(rng)),
                    28 => W::skew(c, f214(rng), f214(rng)),
                    29 => W::var_skew(c, f214(rng), f214(rng), self.vib(rng)),
                    30 => W::skew_around_center(c, f214(rng), f214(rng), fw(rng), fw(rng)),
                    _ => W::var_skew_around_center(c, f214(rng), f214(rng), fw(rng), fw(rng), self.vib(rng)),
                }
            }
        }
    }

    pub fn to_colr(&self, rng: &mut Rng) -> wf::Colr {
        let mut base = vec![];
        let mut lay = vec![];
        for (g, ls) in &self.v0 {
            base.push(wf::BaseGlyph::new(GlyphId16::new(*g), lay.len() as u16, ls.len() as u16));
            for (lg, pal) in ls {
                lay.push(wf::Layer::new(GlyphId16::new(*lg), *pal));
            }
        }
        let has_v0 = !base.is_empty();
        let mut colr = wf::Colr::new(base.len() as u16, has_v0.then_some(base), has_v0.then_some(lay.clone()), lay.len() as u16);
        if !self.glyphs.is_empty() || !self.layers.is_empty() {
            let recs: Vec<wf::BaseGlyphPaint> = self.glyphs.iter().map(|(g, p)| wf::BaseGlyphPaint::new(GlyphId16::new(*g), self.to_wf(p, rng))).collect();
            colr.base_glyph_list = Some(wf::BaseGlyphList::new(recs.len() as u32, recs)).into();
            let paints: Vec<wf::Paint> = self.layers.iter().map(|p| self.to_wf(p, rng)).collect();
            colr.layer_list = Some(wf::LayerList::new(paints.len() as u32, paints)).into();
        }
        if !self.clips.is_empty() {
            let clips: Vec<wf::Clip> = self
                .clips
                .iter()
                .map(|(s, e, var)| {
                    let b = if *var { wf::ClipBox::format_2(fw(rng), fw(rng), fw(rng), fw(rng), self.vib(rng)) } else { wf::ClipBox::format_1(fw(rng), fw(rng), fw(rng), fw(rng)) };
                    wf::Clip::new(GlyphId16::new(*s), GlyphId16::new(*e), b)
                })
                .collect();
            colr.clip_list = Some(wf::ClipList::new(1, clips.len() as u32, clips)).into();
        }
        if self.var_store {
            let axes = self.axes.max(1);
            let nregions = 1 + rng.usize(3);
            let regions: Vec<wv::VariationRegion> = (0..nregions)
                .map(|_| {
                    wv::VariationRegion::new(
                        (0..axes)
                            .map(|_| {
                                let (s, p, e) = *rng.pick(&[(0i16, 0x4000i16, 0x4000i16), (-0x4000, -0x4000, 0), (0, 0x2000, 0x4000), (0, 0, 0), (-0x4000, 0, 0x4000)]);
                                wv::RegionAxisCoordinates::new(F2Dot14::from_bits(s), F2Dot14::from_bits(p), F2Dot14::from_bits(e))
                            })
                            .collect(),
                    )
                })
                .collect();
            let items = 40usize;
            let mut deltas = vec![];
            for _ in 0..items * nregions {
                deltas.extend_from_slice(&(rng.range(-600, 600) as i16).to_be_bytes());
            }
            let data = wv::ItemVariationData::new(items as u16, nregions as u16, (0..nregions as u16).collect(), deltas);
            let second = rng.chance(1, 2).then(|| wv::ItemVariationData::new(2, 0, vec![0], vec![5u8, 0xfb]));
            let mut subtables = vec![Some(data)];
            if let Some(s) = second {
                subtables.push(Some(s));
            }
            colr.item_variation_store = Some(wv::ItemVariationStore::new(wv::VariationRegionList::new(axes as u16, regions), subtables)).into();
            if self.index_map {
                // 2-byte entries, 8 inner bits: (outer << 8) | inner
                let n = 48usize;
                let mut data = vec![];
                for _ in 0..n {
                    let outer = if rng.chance(1, 6) { 1 + rng.usize(2) as u16 } else { 0 };
                    let inner = rng.usize(44) as u16;
                    data.extend_from_slice(&((outer << 8) | inner).to_be_bytes());
                }
                colr.var_index_map = Some(wv::DeltaSetIndexMap::format_0(wv::EntryFormat::from_bits_truncate(0x17), n as u16, data)).into();
            }
        }
        colr
    }

    pub fn to_font(&self, rng: &mut Rng) -> Option<Vec<u8>> {
        let colr = self.to_colr(rng);
        let bytes = write_fonts::dump_table(&colr).ok()?;
        Some(vf_core::gen::build_sfnt(0x0001_0000, &[(*b"COLR", bytes)]))
    }

    // ---------------------------------------------------------- generators

    fn leaf(&self, rng: &mut Rng, var: bool) -> P {
        let f = 2 + 2 * rng.usize(4) as u8;
        P::Leaf(if var && rng.chance(2, 3) { f + 1 } else { f })
    }

    /// Random paint tree. `glyph_budget`: PaintGlyph nodes still allowed on this path.
    #[allow(clippy::too_many_arguments)]
    fn gen(&mut self, rng: &mut Rng, depth: usize, nodes: &mut i32, var: bool, own_gid: u16, glyph_budget: usize) -> P {
        *nodes -= 1;
        if depth == 0 || *nodes <= 0 {
            return self.leaf(rng, var);
        }
        match rng.usize(12) {
            0 | 1 => self.leaf(rng, var),
            2 | 3 | 4 => {
                let f = 12 + rng.usize(20) as u8;
                let f = if var { f | 1 } else { f };
                P::Xform(f, Box::new(self.gen(rng, depth - 1, nodes, var, own_gid, glyph_budget)))
            }
            5 | 6 => {
                if glyph_budget == 0 {
                    return self.leaf(rng, var);
                }
                P::Glyph(Box::new(self.gen(rng, depth - 1, nodes, var, own_gid, glyph_budget - 1)), rng.usize(self.nglyphs as usize + 1) as u16)
            }
            7 | 8 => {
                let n = *rng.pick(&[0usize, 1, 2, 2, 3, 4]);
                let kids: Vec<P> = (0..n).map(|_| self.gen(rng, depth - 1, nodes, var, own_gid, glyph_budget)).collect();
                let first = self.layers.len() as u32;
                self.layers.extend(kids);
                P::Layers { first, n: n as u8 }
            }
            9 => {
                let s = self.gen(rng, depth - 1, nodes, var, own_gid, glyph_budget);
                let b = self.gen(rng, depth - 1, nodes, var, own_gid, glyph_budget);
                P::Composite(Box::new(s), rng.usize(28) as u8, Box::new(b))
            }
            _ => {
                // acyclic reference: only to higher glyph ids
                if own_gid + 1 < self.nglyphs {
                    P::ColrGlyph(own_gid + 1 + rng.usize((self.nglyphs - own_gid - 1) as usize) as u16)
                } else {
                    self.leaf(rng, var)
                }
            }
        }
    }

    fn random_clips(&mut self, rng: &mut Rng, var: bool) {
        let mut g = 0u16;
        while g < self.nglyphs + 2 {
            if rng.chance(1, 2) {
                let e = g + rng.usize(2) as u16;
                self.clips.push((g, e, var && rng.chance(1, 2)));
                g = e + 1;
            } else {
                g += 1;
            }
        }
    }

    fn accept(self) -> Option<Model> {
        for g in self.glyphs.keys() {
            let a = self.analyze(*g as u32, true)?;
            if a.cut || a.unfolded > GEN_CAP || (a.cyclic && a.unfolded > GEN_CAP_CYCLIC) {
                return None;
            }
        }
        Some(self)
    }

    fn rewire(&mut self, rng: &mut Rng, how_many: usize, allow_cycles: bool) {
        // rewrite some references in place
        fn refs<'a>(p: &'a mut P, out: &mut Vec<&'a mut P>) {
            match p {
                P::Layers { .. } | P::ColrGlyph(_) => out.push(p),
                P::Leaf(_) => {}
                P::Glyph(c, _) | P::Xform(_, c) => refs(c, out),
                P::Composite(s, _, b) => {
                    refs(s, out);
                    refs(b, out);
                }
            }
        }
        let nl = self.layers.len() as u32;
        let ng = self.nglyphs;
        let mut all: Vec<&mut P> = vec![];
        for p in self.glyphs.values_mut() {
            refs(p, &mut all);
        }
        let split = all.len();
        for p in self.layers.iter_mut() {
            refs(p, &mut all);
        }
        if all.is_empty() {
            return;
        }
        for _ in 0..how_many {
            let i = rng.usize(all.len());
            match &mut *all[i] {
                P::Layers { first, n } => {
                    if nl == 0 {
                        continue;
                    }
                    if allow_cycles || i < split {
                        *first = rng.u32() % nl;
                        *n = 1 + rng.usize(3) as u8;
                    }
                }
                P::ColrGlyph(g) => {
                    if allow_cycles {
                        *g = rng.usize(ng as usize) as u16;
                    }
                }
                _ => {}
            }
        }
    }

    pub fn generate(fam: &str, rng: &mut Rng) -> Option<Model> {
        let mut m = Model { nglyphs: 2 + rng.usize(5) as u16, ..Default::default() };
        let var = matches!(fam, "tree-var") || (fam != "tree" && rng.chance(1, 3));
        if var {
            m.axes = 1 + rng.usize(3);
            m.var_store = rng.chance(7, 8);
            m.index_map = rng.chance(1, 2);
        }
        match fam {
            "tree" | "tree-var" | "dag-wild" | "cyclic-wild" | "dangling" | "cache-refs" => {
                for g in (0..m.nglyphs).rev() {
                    if fam == "cache-refs" && g + 1 < m.nglyphs {
                        // every root reaches a ColrGlyph quickly, wrapped in pushes
                        let inner = P::ColrGlyph(g + 1);
                        let wrapped = match rng.usize(4) {
                            0 => P::Xform(12 + rng.usize(20) as u8, Box::new(inner)),
                            1 => P::Glyph(Box::new(inner), g),
                            2 => P::Composite(Box::new(inner), 3, Box::new(P::Leaf(2))),
                            _ => P::Composite(Box::new(P::Leaf(2)), 5, Box::new(inner)),
                        };
                        let first = m.layers.len() as u32;
                        m.layers.push(P::Leaf(2));
                        m.layers.push(wrapped);
                        m.layers.push(P::Leaf(4));
                        m.glyphs.insert(g, P::Layers { first, n: 3 });
                        continue;
                    }
                    let mut nodes = 6 + rng.usize(40) as i32;
                    let depth = 1 + rng.usize(9);
                    let p = m.gen(rng, depth, &mut nodes, var, g, 4);
                    if rng.chance(5, 6) {
                        m.glyphs.insert(g, p);
                    }
                }
                if rng.chance(2, 3) {
                    m.random_clips(rng, var);
                }
                match fam {
                    "dag-wild" => {
                        let k = 1 + rng.usize(4);
                        m.rewire(rng, k, false)
                    }
                    "cyclic-wild" => {
                        let k = 1 + rng.usize(4);
                        m.rewire(rng, k, true)
                    }
                    "dangling" => {
                        // references to nothing, after some pushes
                        let keys: Vec<u16> = m.glyphs.keys().copied().collect();
                        let tgt: u16 = if keys.is_empty() { 0 } else { *rng.pick(&keys) };
                        let bad = match rng.usize(3) {
                            0 => P::ColrGlyph(m.nglyphs + 7),
                            1 => P::Layers { first: m.layers.len() as u32 + rng.u32() % 3, n: 1 + rng.usize(2) as u8 },
                            _ => P::Layers { first: u32::MAX - 1, n: 3 },
                        };
                        let wrapped = match rng.usize(4) {
                            0 => P::Xform(14, Box::new(bad)),
                            1 => P::Glyph(Box::new(bad), 1),
                            2 => P::Composite(Box::new(bad), 3, Box::new(P::Leaf(2))),
                            _ => P::Composite(Box::new(P::Leaf(2)), 3, Box::new(bad)),
                        };
                        if let Some(old) = m.glyphs.remove(&tgt) {
                            let first = m.layers.len() as u32;
                            m.layers.push(old);
                            m.layers.push(wrapped);
                            m.glyphs.insert(tgt, P::Xform(16, Box::new(P::Layers { first, n: 2 })));
                        } else {
                            m.glyphs.insert(0, wrapped);
                        }
                    }
                    _ => {}
                }
            }
            "deep-mixed" => {
                let target = 56 + rng.usize(15);
                let mut p = m.leaf(rng, var);
                let mut glyphs_left = 5usize;
                // build bottom-up; guarded and unguarded edges mixed
                let mut gid_next = m.nglyphs;
                for _ in 1..target {
                    p = match rng.usize(7) {
                        0 | 1 => P::Xform(12 + rng.usize(20) as u8, Box::new(p)),
                        2 => {
                            let first = m.layers.len() as u32;
                            let side = rng.chance(1, 3);
                            if side {
                                m.layers.push(P::Leaf(2));
                            }
                            m.layers.push(p);
                            P::Layers { first, n: 1 + side as u8 }
                        }
                        3 => {
                            m.glyphs.insert(gid_next, p);
                            gid_next += 1;
                            P::ColrGlyph(gid_next - 1)
                        }
                        4 => P::Composite(Box::new(p), rng.usize(28) as u8, Box::new(P::Leaf(2))),
                        5 => P::Composite(Box::new(P::Leaf(6)), rng.usize(28) as u8, Box::new(p)),
                        _ => {
                            if glyphs_left > 0 {
                                glyphs_left -= 1;
                                P::Glyph(Box::new(p), 3)
                            } else {
                                P::Xform(14, Box::new(p))
                            }
                        }
                    };
                }
                m.glyphs.insert(0, p);
                m.nglyphs = gid_next;
                if rng.chance(1, 2) {
                    m.random_clips(rng, var);
                }
            }
            "v0-and-v1" => {
                for g in 0..m.nglyphs {
                    if rng.chance(2, 3) {
                        let n = rng.usize(5);
                        m.v0.insert(g, (0..n).map(|_| (rng.usize(m.nglyphs as usize + 2) as u16, *rng.pick(&[0u16, 1, 5, 0xFFFF]))).collect());
                    }
                    if rng.chance(1, 2) {
                        let mut nodes = 12;
                        let p = m.gen(rng, 3, &mut nodes, var, g, 2);
                        m.glyphs.insert(g, p);
                    }
                }
                if m.glyphs.is_empty() && rng.chance(1, 2) {
                    m.glyphs.insert(0, P::Leaf(2));
                }
            }
            "glyph-nest" => {
                // nested PaintGlyph (at most 9) with different kinds of bottoms
                let k = 1 + rng.usize(9);
                let mut p = match rng.usize(6) {
                    0 => P::Leaf(2),
                    1 => P::Leaf(4 + 2 * rng.usize(3) as u8),
                    2 => P::Xform(12 + rng.usize(20) as u8, Box::new(P::Leaf(2))),
                    3 => {
                        let first = m.layers.len() as u32;
                        m.layers.push(P::Leaf(2));
                        m.layers.push(P::Xform(14, Box::new(P::Leaf(8))));
                        P::Layers { first, n: 2 }
                    }
                    4 => P::Composite(Box::new(P::Leaf(2)), 3, Box::new(P::Leaf(2))),
                    _ => {
                        m.glyphs.insert(1, P::Leaf(2));
                        P::ColrGlyph(1)
                    }
                };
                for i in 0..k {
                    p = P::Glyph(Box::new(p), i as u16);
                    if rng.chance(1, 3) {
                        p = P::Xform(12 + rng.usize(20) as u8, Box::new(p));
                    }
                }
                m.glyphs.insert(0, p);
                if rng.chance(1, 2) {
                    m.random_clips(rng, var);
                }
            }
            _ => return None,
        }
        m.accept()
    }

    /// A chain of `len` nodes of one kind above a solid leaf; `closing`:
    /// 0 = leaf, 1 = back to the root (cycle), 2 = self reference of the last
    /// element, 3 = back to the middle.
    pub fn chain(kind: &str, len: usize, closing: usize, rng: &mut Rng) -> Model {
        let mut m = Model { nglyphs: len as u16 + 2, ..Default::default() };
        match kind {
            "colrglyph" => {
                // glyph i -> ColrGlyph(i+1); `len` ColrGlyph edges
                for i in 0..len {
                    m.glyphs.insert(i as u16, P::ColrGlyph(i as u16 + 1));
                }
                let last = match closing {
                    0 => P::Leaf(2),
                    1 => P::ColrGlyph(0),
                    2 => P::ColrGlyph(len as u16),
                    _ => P::ColrGlyph(len as u16 / 2),
                };
                m.glyphs.insert(len as u16, last);
            }
            "layers" => {
                // layer i -> Layers[i+1]
                for i in 0..len {
                    m.layers.push(P::Layers { first: i as u32 + 1, n: 1 });
                }
                let last = match closing {
                    0 => P::Leaf(2),
                    1 => P::Layers { first: 0, n: 1 },
                    2 => P::Layers { first: len as u32, n: 1 + rng.usize(3) as u8 },
                    _ => P::Layers { first: len as u32 / 2, n: 1 },
                };
                m.layers.push(last);
                m.glyphs.insert(0, P::Layers { first: 0, n: 1 });
            }
            _ => {
                // offset-linked chains cannot be cyclic by themselves: the closing goes
                // through a layer / glyph reference at the bottom
                let bottom = match closing {
                    0 => P::Leaf(2),
                    1 => P::ColrGlyph(0),
                    2 => {
                        m.layers.push(P::Layers { first: 0, n: 1 });
                        P::Layers { first: 0, n: 1 }
                    }
                    _ => {
                        m.glyphs.insert(1, P::Leaf(8));
                        P::ColrGlyph(1)
                    }
                };
                let mut p = bottom;
                let mut glyphs_left = 6usize;
                for i in 0..len {
                    p = match kind {
                        "transform" => P::Xform(12 + ((i + closing) % 20) as u8, Box::new(p)),
                        "composite-source" => P::Composite(Box::new(p), (i % 28) as u8, Box::new(P::Leaf(2))),
                        "composite-backdrop" => P::Composite(Box::new(P::Leaf(2)), (i % 28) as u8, Box::new(p)),
                        _ => match rng.usize(5) {
                            0 => P::Xform(12 + rng.usize(20) as u8, Box::new(p)),
                            1 => {
                                let first = m.layers.len() as u32;
                                m.layers.push(p);
                                P::Layers { first, n: 1 }
                            }
                            2 => P::Composite(Box::new(p), 3, Box::new(P::Leaf(2))),
                            3 => P::Composite(Box::new(P::Leaf(2)), 3, Box::new(p)),
                            _ => {
                                if glyphs_left > 0 {
                                    glyphs_left -= 1;
                                    P::Glyph(Box::new(p), 2)
                                } else {
                                    P::Xform(24, Box::new(p))
                                }
                            }
                        },
                    };
                }
                m.glyphs.insert(0, p);
            }
        }
        if closing == 3 || rng.chance(1, 3) {
            m.clips.push((0, m.nglyphs, false));
        }
        m
    }

    // ---------------------------------------------------------- exponential families

    /// layer i = PaintColrLayers[i-2, i-1]; layers 0 and 1 are solid.
    pub fn fibonacci_layers(n: usize) -> Model {
        let mut m = Model { nglyphs: 1, ..Default::default() };
        m.layers.push(P::Leaf(2));
        m.layers.push(P::Leaf(2));
        for i in 2..n {
            m.layers.push(P::Layers { first: i as u32 - 2, n: 2 });
        }
        m.glyphs.insert(0, P::Layers { first: n as u32 - 2, n: 2 });
        m
    }

    /// layer i = PaintComposite(source = Layers[i-1], backdrop = Layers[i-1]).
    pub fn shared_child_composite(n: usize) -> Model {
        let mut m = Model { nglyphs: 1, ..Default::default() };
        m.layers.push(P::Leaf(2));
        for i in 1..n {
            let r = P::Layers { first: i as u32 - 1, n: 1 };
            m.layers.push(P::Composite(Box::new(r.clone()), 3, Box::new(r)));
        }
        m.glyphs.insert(0, P::Layers { first: n as u32 - 1, n: 1 });
        m
    }

    /// PaintGlyph(PaintGlyph(... PaintSolid)) nested n times: every level runs
    /// its child once for the fill-glyph optimisation and once for real.
    pub fn nested_glyph_chain(n: usize) -> Model {
        let mut m = Model { nglyphs: 1, ..Default::default() };
        let mut p = P::Leaf(2);
        for i in 0..n {
            p = P::Glyph(Box::new(p), i as u16 + 1);
        }
        m.glyphs.insert(0, p);
        m
    }
}

const COMPOSITE_MODES: [wf::CompositeMode; 28] = [
    wf::CompositeMode::Clear,
    wf::CompositeMode::Src,
    wf::CompositeMode::Dest,
    wf::CompositeMode::SrcOver,
    wf::CompositeMode::DestOver,
    wf::CompositeMode::SrcIn,
    wf::CompositeMode::DestIn,
    wf::CompositeMode::SrcOut,
    wf::CompositeMode::DestOut,
    wf::CompositeMode::SrcAtop,
    wf::CompositeMode::DestAtop,
    wf::CompositeMode::Xor,
    wf::CompositeMode::Plus,
    wf::CompositeMode::Screen,
    wf::CompositeMode::Overlay,
    wf::CompositeMode::Darken,
    wf::CompositeMode::Lighten,
    wf::CompositeMode::ColorDodge,
    wf::CompositeMode::ColorBurn,
    wf::CompositeMode::HardLight,
    wf::CompositeMode::SoftLight,
    wf::CompositeMode::Difference,
    wf::CompositeMode::Exclusion,
    wf::CompositeMode::Multiply,
    wf::CompositeMode::HslHue,
    wf::CompositeMode::HslSaturation,
    wf::CompositeMode::HslColor,
    wf::CompositeMode::HslLuminosity,
];
