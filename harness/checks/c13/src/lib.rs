//! C13 — colour glyph painting terminates with balanced, correctly nested
//! callbacks. See /verif/DESIGN.md §3 "C13".
//!
//! Oracles
//! * [`Mon`], a `ColorPainter` that runs a pushdown checker online
//!   (transform / clip / layer must nest LIFO with matching kinds, no pop on
//!   empty) and digests the event stream. `paint` returning `Ok` with a
//!   non-empty stack or a nesting error is a violation; errors may leave
//!   pushes open.
//! * the traversal hook `skrifa::color::verif_traversal_hooks::take_visits()`
//!   gives (paint nodes entered, max recursion depth) per paint call:
//!   visits <= 2^20 (budget), depth <= 64, depth == 64 ⇒ `Err`.
//! * a reference model of every generated paint graph (unfolded size upper
//!   bound, reachable cycles, longest path, dangling references): a graph
//!   with a reachable cycle / a path of >= 65 nodes / a dangling reference
//!   must give `Err`; an acyclic graph may not be visited more often than its
//!   unfolded size.
//! * the painter aborts a runaway traversal (callback budget) by a harness
//!   panic so that every run stays bounded.
mod model;

use model::*;
use serde_json::{json, Value};
use skrifa::color::{Brush, ColorGlyphFormat, ColorPainter, CompositeMode, PaintCachedColorGlyph, PaintError, Transform};
use skrifa::raw::types::BoundingBox;
use skrifa::raw::{FontRef, TableProvider};
use skrifa::{GlyphId, MetadataProvider};
use std::cell::RefCell;
use vf_core::{fnv64, Args, Ctx, Digest, HarnessAbort, PanicPolicy, Rng};

pub const REPLAY: Option<fn(&mut Ctx, &Args, &serde_json::Value, Option<&[u8]>)> = Some(replay);

/// Paint nodes a single paint call may enter (DESIGN §3 C13; real fonts < 10^4).
pub const VISIT_BUDGET: u64 = 1 << 20;
/// Every visited node issues at most 5 callbacks (PaintGlyph through the
/// default `fill_glyph`), so exceeding this many callbacks implies that the
/// visit budget is exceeded as well.
pub const CALLBACK_BUDGET: u64 = 6 * VISIT_BUDGET;
pub const MAX_DEPTH: usize = 64;

// ------------------------------------------------------------------ painter

#[derive(Clone, Copy, PartialEq, Eq, Debug)]
enum K {
    Transform,
    Clip,
    Layer,
}

#[derive(Clone, Copy, Debug, PartialEq, Eq)]
pub enum Cache {
    /// the default: ask skrifa to traverse the sub graph
    Unimplemented,
    /// every referenced colour glyph was painted from the client's cache
    OkAll,
    /// the client fails
    ErrAll,
    /// per glyph id: hash decides between the three
    Mixed(u64),
}

#[derive(Clone, Copy, Debug, PartialEq, Eq)]
pub struct Policy {
    pub cache: Cache,
    /// override `fill_glyph` (atomic event) instead of the default expansion
    pub own_fill_glyph: bool,
    /// override `pop_layer_with_mode`
    pub own_pop_mode: bool,
}

impl Policy {
    pub fn all(seed: u64) -> [Policy; 5] {
        [
            Policy { cache: Cache::Unimplemented, own_fill_glyph: false, own_pop_mode: false },
            Policy { cache: Cache::Unimplemented, own_fill_glyph: true, own_pop_mode: true },
            Policy { cache: Cache::OkAll, own_fill_glyph: true, own_pop_mode: false },
            Policy { cache: Cache::ErrAll, own_fill_glyph: false, own_pop_mode: true },
            Policy { cache: Cache::Mixed(seed), own_fill_glyph: seed & 1 == 0, own_pop_mode: seed & 2 == 0 },
        ]
    }
    fn code(&self) -> String {
        let c = match self.cache {
            Cache::Unimplemented => "unimpl".to_string(),
            Cache::OkAll => "ok".to_string(),
            Cache::ErrAll => "err".to_string(),
            Cache::Mixed(s) => format!("mixed{:x}", s & 0xffff),
        };
        format!("{}{}{}", c, if self.own_fill_glyph { "+fg" } else { "" }, if self.own_pop_mode { "+pm" } else { "" })
    }
    fn to_json(&self) -> Value {
        let (c, s) = match self.cache {
            Cache::Unimplemented => ("unimpl", 0),
            Cache::OkAll => ("ok", 0),
            Cache::ErrAll => ("err", 0),
            Cache::Mixed(s) => ("mixed", s),
        };
        json!({"cache": c, "mix_seed": s, "own_fill_glyph": self.own_fill_glyph, "own_pop_mode": self.own_pop_mode})
    }
    fn from_json(v: &Value) -> Policy {
        let cache = match v["cache"].as_str().unwrap_or("unimpl") {
            "ok" => Cache::OkAll,
            "err" => Cache::ErrAll,
            "mixed" => Cache::Mixed(v["mix_seed"].as_u64().unwrap_or(0)),
            _ => Cache::Unimplemented,
        };
        Policy { cache, own_fill_glyph: v["own_fill_glyph"].as_bool().unwrap_or(false), own_pop_mode: v["own_pop_mode"].as_bool().unwrap_or(false) }
    }
}

const EV_NAMES: [&str; 11] = [
    "push_transform",
    "pop_transform",
    "push_clip_glyph",
    "push_clip_box",
    "pop_clip",
    "fill",
    "fill_glyph",
    "cached_glyph",
    "push_layer",
    "pop_layer",
    "pop_layer_with_mode",
];

pub struct Mon {
    policy: Policy,
    stack: Vec<K>,
    modes: Vec<CompositeMode>,
    callbacks: u64,
    budget: u64,
    ev: [u64; 11],
    digest: Digest,
    nest_error: Option<(String, u64)>,
    max_stack: usize,
    mode_mismatch: u64,
    non_finite: u64,
    log: Vec<u8>,
}

impl Mon {
    pub fn new(policy: Policy) -> Mon {
        Mon {
            policy,
            stack: Vec::new(),
            modes: Vec::new(),
            callbacks: 0,
            budget: CALLBACK_BUDGET,
            ev: [0; 11],
            digest: Digest::new(),
            nest_error: None,
            max_stack: 0,
            mode_mismatch: 0,
            non_finite: 0,
            log: Vec::new(),
        }
    }
    fn tick(&mut self, ev: usize) {
        self.callbacks += 1;
        self.ev[ev] += 1;
        self.digest.bytes(&[ev as u8]);
        if self.log.len() < 48 {
            self.log.push(ev as u8);
        }
        if self.callbacks > self.budget {
            // keep the run bounded; never attributed to the library as a panic
            std::panic::panic_any(HarnessAbort("budget"));
        }
    }
    fn push(&mut self, k: K) {
        self.stack.push(k);
        self.max_stack = self.max_stack.max(self.stack.len());
    }
    fn pop(&mut self, k: K) {
        match self.stack.pop() {
            None => {
                if self.nest_error.is_none() {
                    self.nest_error = Some((format!("pop-{:?}-on-empty", k), self.callbacks));
                }
            }
            Some(top) if top != k => {
                if self.nest_error.is_none() {
                    self.nest_error = Some((format!("pop-{:?}-but-top-is-{:?}", k, top), self.callbacks));
                }
            }
            _ => {}
        }
    }
    fn log_string(&self) -> String {
        self.log.iter().map(|e| EV_NAMES[*e as usize]).collect::<Vec<_>>().join(" ")
    }
}

/// A painter that forwards everything to a [`Mon`] but does NOT override
/// `fill_glyph`: the trait's provided default (in skrifa) expands it into
/// push_clip_glyph / push_transform / fill / pop_transform / pop_clip, and that
/// expansion is then checked by the monitor like any other callback stream.
pub struct DefaultFill<'a>(pub &'a mut Mon);

impl ColorPainter for DefaultFill<'_> {
    fn push_transform(&mut self, t: Transform) {
        self.0.push_transform(t)
    }
    fn pop_transform(&mut self) {
        self.0.pop_transform()
    }
    fn push_clip_glyph(&mut self, g: GlyphId) {
        self.0.push_clip_glyph(g)
    }
    fn push_clip_box(&mut self, b: BoundingBox<f32>) {
        self.0.push_clip_box(b)
    }
    fn pop_clip(&mut self) {
        self.0.pop_clip()
    }
    fn fill(&mut self, brush: Brush<'_>) {
        self.0.fill(brush)
    }
    fn paint_cached_color_glyph(&mut self, glyph: GlyphId) -> Result<PaintCachedColorGlyph, PaintError> {
        self.0.paint_cached_color_glyph(glyph)
    }
    fn push_layer(&mut self, mode: CompositeMode) {
        self.0.push_layer(mode)
    }
    fn pop_layer(&mut self) {
        self.0.pop_layer()
    }
    fn pop_layer_with_mode(&mut self, mode: CompositeMode) {
        self.0.pop_layer_with_mode(mode)
    }
}

/// Paints through the monitor, honouring `policy.own_fill_glyph`.
pub fn paint_with(glyph: &skrifa::color::ColorGlyph<'_>, loc: skrifa::instance::LocationRef<'_>, m: &mut Mon) -> Result<(), PaintError> {
    if m.policy.own_fill_glyph {
        glyph.paint(loc, m)
    } else {
        glyph.paint(loc, &mut DefaultFill(m))
    }
}

impl ColorPainter for Mon {
    fn push_transform(&mut self, t: Transform) {
        self.tick(0);
        for v in [t.xx, t.yx, t.xy, t.yy, t.dx, t.dy] {
            self.digest.f32(v);
            if !v.is_finite() {
                self.non_finite += 1;
            }
        }
        self.push(K::Transform);
    }
    fn pop_transform(&mut self) {
        self.tick(1);
        self.pop(K::Transform);
    }
    fn push_clip_glyph(&mut self, g: GlyphId) {
        self.tick(2);
        self.digest.u32(g.to_u32());
        self.push(K::Clip);
    }
    fn push_clip_box(&mut self, b: BoundingBox<f32>) {
        self.tick(3);
        for v in [b.x_min, b.y_min, b.x_max, b.y_max] {
            self.digest.f32(v);
        }
        self.push(K::Clip);
    }
    fn pop_clip(&mut self) {
        self.tick(4);
        self.pop(K::Clip);
    }
    fn fill(&mut self, brush: Brush<'_>) {
        self.tick(5);
        match brush {
            Brush::Solid { palette_index, alpha } => {
                self.digest.u32(palette_index as u32);
                self.digest.f32(alpha);
            }
            Brush::LinearGradient { color_stops, .. } | Brush::RadialGradient { color_stops, .. } | Brush::SweepGradient { color_stops, .. } => {
                self.digest.u64(color_stops.len() as u64);
                for s in color_stops {
                    self.digest.f32(s.offset);
                }
            }
        }
    }
    fn fill_glyph(&mut self, glyph_id: GlyphId, brush_transform: Option<Transform>, brush: Brush<'_>) {
        // (painters with policy.own_fill_glyph == false are driven through `DefaultFill`,
        // which does not override this method, so the LIBRARY's default expansion runs)
        self.tick(6);
        self.digest.u32(glyph_id.to_u32());
        self.digest.u32(brush_transform.is_some() as u32);
        let _ = brush;
    }
    fn paint_cached_color_glyph(&mut self, glyph: GlyphId) -> Result<PaintCachedColorGlyph, PaintError> {
        self.tick(7);
        self.digest.u32(glyph.to_u32());
        let sel = match self.policy.cache {
            Cache::Unimplemented => 0,
            Cache::OkAll => 1,
            Cache::ErrAll => 2,
            Cache::Mixed(s) => {
                let mut d = Digest::new();
                d.u64(s);
                d.u32(glyph.to_u32());
                // half unimplemented, 3/8 ok, 1/8 err
                match d.finish() >> 7 & 7 {
                    0..=3 => 0,
                    4..=6 => 1,
                    _ => 2,
                }
            }
        };
        match sel {
            0 => Ok(PaintCachedColorGlyph::Unimplemented),
            1 => Ok(PaintCachedColorGlyph::Ok),
            _ => Err(PaintError::GlyphNotFound(glyph)),
        }
    }
    fn push_layer(&mut self, mode: CompositeMode) {
        self.tick(8);
        self.digest.u32(mode as u32);
        self.modes.push(mode);
        self.push(K::Layer);
    }
    fn pop_layer(&mut self) {
        self.tick(9);
        self.modes.pop();
        self.pop(K::Layer);
    }
    fn pop_layer_with_mode(&mut self, mode: CompositeMode) {
        if self.policy.own_pop_mode {
            self.tick(10);
            if let Some(m) = self.modes.pop() {
                if m != mode {
                    self.mode_mismatch += 1;
                }
            }
            self.pop(K::Layer);
        } else {
            self.pop_layer();
        }
    }
}

// ------------------------------------------------------------------ one paint call

#[derive(Clone, Debug)]
pub struct Outcome {
    /// None: v1/v0 glyph not present
    pub present: bool,
    pub v1: bool,
    pub ok: bool,
    pub err: String,
    pub visits: u64,
    pub max_depth: usize,
    pub callbacks: u64,
    pub open: usize,
    pub nest_error: Option<(String, u64)>,
    pub aborted: bool,
    /// the paint call did not return within the wall-clock deadline
    pub timed_out: bool,
    pub pushes: u64,
    pub digest: u64,
    pub log: String,
    pub ev: [u64; 11],
    pub mode_mismatch: u64,
}

fn err_kind(e: &PaintError) -> String {
    match e {
        PaintError::ParseError(r) => {
            let d = format!("{:?}", r);
            format!("ParseError({})", d.split(|c: char| !c.is_alphanumeric()).next().unwrap_or(""))
        }
        PaintError::GlyphNotFound(_) => "GlyphNotFound".into(),
        PaintError::PaintCycleDetected => "PaintCycleDetected".into(),
        PaintError::DepthLimitExceeded => "DepthLimitExceeded".into(),
    }
}

/// Which table version to ask for.
#[derive(Clone, Copy, Debug, PartialEq, Eq)]
pub enum Want {
    Any,
    V0,
    V1,
}

// ---- the paint worker
//
// `ColorGlyph::paint` runs on a persistent worker thread; the calling thread
// waits with a wall-clock deadline. A traversal that does not come back (the
// fill-glyph optimisation pass issues no callbacks, so the painter's own
// budget cannot stop it) is reported as a violation at once and the shard
// stops: the property *is* termination, so the check must not rely on the
// driver's hang handling to decide it.

struct Job {
    /// shared ownership: a worker that never comes back keeps its input alive
    font: std::sync::Arc<Vec<u8>>,
    gid: u32,
    coords: Vec<i16>,
    policy: Policy,
    want: Want,
}

struct Reply {
    res: Result<Option<(bool, Result<(), PaintError>)>, vf_core::PanicInfo>,
    visits: u64,
    depth: usize,
    mon: Mon,
}

struct Worker {
    tx: std::sync::mpsc::Sender<Job>,
    rx: std::sync::mpsc::Receiver<Reply>,
}

thread_local! {
    static WORKER: RefCell<Option<Worker>> = const { RefCell::new(None) };
}
/// Set once a paint call missed its deadline: the rest of the workload is skipped.
pub static STUCK: std::sync::atomic::AtomicBool = std::sync::atomic::AtomicBool::new(false);

fn stuck() -> bool {
    STUCK.load(std::sync::atomic::Ordering::Relaxed)
}

fn paint_deadline() -> std::time::Duration {
    let s = std::env::var("C13_PAINT_WALL_LIMIT_S").ok().and_then(|s| s.parse().ok()).unwrap_or(25u64);
    std::time::Duration::from_secs(s)
}

fn worker_main(rx: std::sync::mpsc::Receiver<Job>, tx: std::sync::mpsc::Sender<Reply>) {
    while let Ok(job) = rx.recv() {
        let font: &[u8] = &job.font[..];
        let mon = RefCell::new(Mon::new(job.policy));
        let ncoords: Vec<skrifa::instance::NormalizedCoord> = job.coords.iter().map(|c| skrifa::instance::NormalizedCoord::from_bits(*c)).collect();
        let _ = skrifa::color::verif_traversal_hooks::take_visits();
        let res = vf_core::guard(|| -> Option<(bool, Result<(), PaintError>)> {
            let fr = FontRef::new(font).ok()?;
            let coll = fr.color_glyphs();
            let g = GlyphId::new(job.gid);
            let glyph = match job.want {
                Want::Any => coll.get(g),
                Want::V0 => coll.get_with_format(g, ColorGlyphFormat::ColrV0),
                Want::V1 => coll.get_with_format(g, ColorGlyphFormat::ColrV1),
            }?;
            let v1 = matches!(glyph.format(), ColorGlyphFormat::ColrV1);
            let mut m = mon.borrow_mut();
            let r = paint_with(&glyph, skrifa::instance::LocationRef::new(&ncoords), &mut m);
            Some((v1, r))
        });
        // (after a panic the counters of the interrupted traversal are still in the hook's thread-locals)
        let (visits, depth) = skrifa::color::verif_traversal_hooks::take_visits();
        if tx.send(Reply { res, visits, depth, mon: mon.into_inner() }).is_err() {
            return;
        }
    }
}

fn with_worker<R>(f: impl FnOnce(&Worker) -> R) -> R {
    WORKER.with(|w| {
        let mut w = w.borrow_mut();
        if w.is_none() {
            let (jtx, jrx) = std::sync::mpsc::channel::<Job>();
            let (rtx, rrx) = std::sync::mpsc::channel::<Reply>();
            std::thread::Builder::new().name("c13-paint".into()).stack_size(16 << 20).spawn(move || worker_main(jrx, rtx)).expect("spawn paint worker");
            *w = Some(Worker { tx: jtx, rx: rrx });
        }
        f(w.as_ref().unwrap())
    })
}

/// Paint one glyph under the monitors. Returns None when a panic was caught
/// and judged (or a harness problem was noted).
pub fn paint_one(ctx: &mut Ctx, font: &std::sync::Arc<Vec<u8>>, gid: u32, coords: &[i16], policy: Policy, want: Want, what: &str) -> Option<Outcome> {
    if stuck() {
        return None;
    }
    let label = || format!("{} gid={} coords={:?} policy={}", what, gid, coords, policy.code());
    let deadline = paint_deadline();
    let run = || -> Option<Reply> {
        with_worker(|w| {
            w.tx.send(Job { font: font.clone(), gid, coords: coords.to_vec(), policy, want }).ok()?;
            w.rx.recv_timeout(deadline).ok()
        })
    };
    let reply = match ctx.run_case(&label, Some(&font[..]), &run) {
        Ok(r) => r,
        Err(p) => {
            ctx.inconclusive(format!("harness panic around the paint worker {}:{} {}", p.file, p.line, p.msg));
            return None;
        }
    };
    let Some(reply) = reply else {
        // deadline missed: the worker is still inside ColorGlyph::paint
        STUCK.store(true, std::sync::atomic::Ordering::Relaxed);
        let m = Mon::new(policy);
        return Some(Outcome {
            present: true,
            v1: true,
            ok: false,
            err: "no-result-within-deadline".into(),
            visits: 0,
            max_depth: 0,
            callbacks: 0,
            open: 0,
            nest_error: None,
            aborted: false,
            timed_out: true,
            pushes: 0,
            digest: 0,
            log: m.log_string(),
            ev: [0; 11],
            mode_mismatch: 0,
        });
    };
    let m = reply.mon;
    let (visits, depth) = (reply.visits, reply.depth);
    let mk = |present: bool, v1: bool, ok: bool, err: String, aborted: bool| Outcome {
        present,
        v1,
        ok,
        err,
        visits,
        max_depth: depth,
        callbacks: m.callbacks,
        open: m.stack.len(),
        nest_error: m.nest_error.clone(),
        aborted,
        timed_out: false,
        pushes: m.ev[0] + m.ev[2] + m.ev[3] + m.ev[8],
        digest: m.digest.finish(),
        log: m.log_string(),
        ev: m.ev,
        mode_mismatch: m.mode_mismatch,
    };
    match reply.res {
        Ok(None) => Some(mk(false, false, false, String::new(), false)),
        Ok(Some((v1, r))) => {
            let (ok, err) = match &r {
                Ok(()) => (true, String::new()),
                Err(e) => (false, err_kind(e)),
            };
            Some(mk(true, v1, ok, err, false))
        }
        Err(p) => {
            if p.class == vf_core::PanicClass::Harness {
                // our own budget abort
                Some(mk(true, true, false, "aborted-by-painter".into(), true))
            } else {
                ctx.judge_panic(
                    &p,
                    "ColorGlyph::paint",
                    json!({"what": what, "gid": gid, "coords": coords, "policy": policy.to_json(), "font_hash": format!("{:016x}", fnv64(font))}),
                    Some(&font[..]),
                );
                None
            }
        }
    }
}

/// What the reference model says about the case (None for fonts we did not build).
#[derive(Clone, Debug, Default)]
pub struct Expect {
    pub must_err: Option<String>,
    /// upper bound of visits (unfolded size); None if not known
    pub visits_ub: Option<u64>,
    /// signature stem (input identity)
    pub family: String,
    /// identity used for an over-budget traversal of an input the harness has no model of (byte-patched tables):
    /// the class of input rather than the individual mutant
    pub budget_family: Option<String>,
}

/// Apply the generic oracles (+ model expectations) to one outcome.
#[allow(clippy::too_many_arguments)]
pub fn judge(ctx: &mut Ctx, o: &Outcome, font: &[u8], gid: u32, coords: &[i16], policy: Policy, what: &str, exp: &Expect) {
    ctx.eval();
    if !o.present {
        ctx.count("glyph_not_colour", 1);
        return;
    }
    ctx.count(if o.v1 { "paint_v1" } else { "paint_v0" }, 1);
    ctx.count(if o.ok { "result_ok" } else { "result_err" }, 1);
    if !o.ok {
        ctx.count(&format!("err:{}", o.err), 1);
        if o.open > 0 {
            ctx.count("err_with_open_pushes(allowed)", 1);
        }
        if o.nest_error.is_some() {
            ctx.count("err_with_nesting_error(not judged)", 1);
        }
    }
    for (i, n) in o.ev.iter().enumerate() {
        if *n > 0 {
            ctx.count(&format!("cb:{}", EV_NAMES[i]), *n);
        }
    }
    ctx.count("visits_total", o.visits);
    if o.mode_mismatch > 0 && o.ok {
        ctx.count("ok_stream:pop_layer_mode_differs_from_push(not judged)", o.mode_mismatch);
    }
    let hist = match o.visits {
        0 => "visits:0",
        1..=9 => "visits:1-9",
        10..=99 => "visits:10-99",
        100..=999 => "visits:100-999",
        1000..=9999 => "visits:1e3-1e4",
        10000..=99999 => "visits:1e4-1e5",
        100000..=1048576 => "visits:1e5-2^20",
        _ => "visits:>2^20",
    };
    ctx.count(hist, 1);
    ctx.count(&format!("max_depth_bucket:{}", (o.max_depth / 8) * 8), 1);
    let detail = |extra: Value| {
        json!({"what": what, "gid": gid, "coords": coords, "policy": policy.to_json(), "result": if o.ok {"Ok".to_string()} else {format!("Err({})", o.err)},
               "visits": o.visits, "max_depth": o.max_depth, "callbacks": o.callbacks, "open_pushes": o.open, "first_events": o.log,
               "font_len": font.len(), "font_hash": format!("{:016x}", fnv64(font)), "info": extra})
    };
    let fam = if exp.family.is_empty() { format!("{}:gid={}", what, gid) } else { exp.family.clone() };
    if o.timed_out {
        ctx.count("paint_calls_without_result_within_deadline", 1);
        ctx.violation(
            &format!("no-termination-within-deadline:{}", exp.budget_family.as_ref().unwrap_or(&fam)),
            json!({"what": what, "gid": gid, "coords": coords, "policy": policy.to_json(), "deadline_s": paint_deadline().as_secs(), "font_len": font.len(),
                   "font_hash": format!("{:016x}", fnv64(font)), "note": "the worker thread was still inside ColorGlyph::paint; the rest of this shard's workload was skipped"}),
            Some(font),
        );
        return;
    }
    // ---- termination / boundedness
    if o.aborted || o.visits > VISIT_BUDGET {
        ctx.count("over_budget", 1);
        ctx.violation(
            &format!("unbounded-traversal:{}", exp.budget_family.as_ref().unwrap_or(&fam)),
            detail(json!({"budget_visits": VISIT_BUDGET, "aborted_by_painter": o.aborted, "unfolded_size_bound": exp.visits_ub})),
            Some(font),
        );
    }
    if o.max_depth > MAX_DEPTH {
        ctx.violation(&format!("depth-limit-exceeded:{}:depth={}", fam, o.max_depth), detail(json!({"limit": MAX_DEPTH})), Some(font));
    } else if o.max_depth == MAX_DEPTH && o.ok && policy.cache == Cache::Unimplemented {
        // (with a caching client the fill-glyph optimisation pass may run into the limit inside a
        // sub graph that the real pass then takes from the client's cache: that error is dropped)
        ctx.violation(&format!("too-deep-graph-painted-ok:{}", fam), detail(json!({"limit": MAX_DEPTH})), Some(font));
    }
    if let (Some(ub), false) = (exp.visits_ub, o.aborted) {
        if o.visits > ub {
            ctx.violation(&format!("visits-exceed-unfolded-graph:{}", fam), detail(json!({"unfolded_size_bound": ub})), Some(font));
        }
    }
    // ---- balance
    if o.ok {
        if let Some((e, at)) = &o.nest_error {
            ctx.violation(&format!("ok-but-misnested:{}:{}", e, fam), detail(json!({"nesting_error": e, "at_callback": at})), Some(font));
        } else if o.open > 0 {
            ctx.violation(&format!("ok-but-unbalanced:open={}:{}", o.open, fam), detail(json!({"open": o.open})), Some(font));
        }
        if let Some(why) = &exp.must_err {
            ctx.violation(&format!("bad-graph-painted-ok:{}:{}", why, fam), detail(json!({"model": why})), Some(font));
        }
    } else if exp.must_err.is_some() {
        ctx.count("model_expected_err_and_got_err", 1);
    }
    // ---- non-triviality
    let nontrivial = o.v1 && ((o.visits >= 3 && o.pushes >= 1) || (!o.ok && o.visits >= 2));
    if nontrivial {
        let mut d = Digest::new();
        d.u64(fnv64(font));
        d.u32(gid);
        ctx.nontrivial(d.finish());
        if o.ok {
            ctx.count("nontrivial_ok_balanced", 1);
        }
    }
    ctx.label("error_kinds", if o.ok { "Ok" } else { &o.err });
}

// ------------------------------------------------------------------ workloads

fn run_model_case(ctx: &mut Ctx, family: &str, idx: u64, m: &Model, rng: &mut Rng, keyed_family: Option<&str>) {
    let Some(font) = m.to_font(rng).map(std::sync::Arc::new) else {
        ctx.count("model_not_serialisable", 1);
        return;
    };
    ctx.count(&format!("family:{}", family), 1);
    for f in m.formats_used() {
        ctx.label("paint_formats_built", &format!("{:02}", f));
    }
    let what = format!("gen:{}#{}", family, idx);
    let gids = m.glyph_ids_to_try();
    let pol_seed = rng.u64();
    let policies = Policy::all(pol_seed);
    for gid in gids {
        let an_desc = m.analyze(gid, true);
        let an_leaf = m.analyze(gid, false);
        for (pi, policy) in policies.iter().enumerate() {
            // locations: default, random, extremes
            let coords: Vec<i16> = match (pi + gid as usize) % 4 {
                0 => vec![],
                1 => (0..m.axes).map(|_| rng.range(-16384, 16384) as i16).collect(),
                2 => (0..m.axes).map(|_| *rng.pick(&[-16384i16, 0, 16384, 8192])).collect(),
                _ => (0..m.axes + 1).map(|_| rng.range(-20000, 20000) as i16).collect(),
            };
            let mut exp = Expect { family: String::new(), ..Default::default() };
            if let Some(k) = keyed_family {
                exp.family = k.to_string();
            } else {
                exp.family = format!("{}:gid={}", what, gid);
            }
            if let Some(an) = &an_desc {
                // unfolded size bounds every policy
                if !an.cyclic && !an.cut {
                    exp.visits_ub = Some(an.unfolded);
                }
                let a = match policy.cache {
                    Cache::Unimplemented => Some(an),
                    Cache::OkAll | Cache::ErrAll => an_leaf.as_ref(),
                    Cache::Mixed(_) => None,
                };
                if let Some(a) = a {
                    if !a.cut {
                        if a.cyclic {
                            exp.must_err = Some("reachable-cycle".into());
                        } else if a.longest_path >= MAX_DEPTH + 1 {
                            exp.must_err = Some("path-of-65-or-more-nodes".into());
                        } else if a.dangling {
                            exp.must_err = Some("dangling-reference".into());
                        }
                    }
                }
            }
            if let Some(o) = paint_one(ctx, &font, gid, &coords, *policy, Want::Any, &what) {
                judge(ctx, &o, &font, gid, &coords, *policy, &what, &exp);
                if let Some(an) = &an_desc {
                    if o.present && o.v1 {
                        ctx.distinct("graph_shapes", an.shape_digest);
                        if an.cyclic {
                            ctx.count("model:cyclic_graph_painted", 1);
                        }
                        if an.longest_path >= MAX_DEPTH + 1 {
                            ctx.count("model:too_deep_graph_painted", 1);
                        }
                        if !an.cyclic && !an.dangling && an.longest_path <= MAX_DEPTH && !o.ok && policy.cache == Cache::Unimplemented {
                            ctx.count("model:wellformed_graph_returned_err(not judged)", 1);
                        }
                        if pi == 0 {
                            ctx.sample_by_kind(
                                family,
                                json!({"case": what, "gid": gid, "nodes_unfolded": an.unfolded, "longest_path": an.longest_path, "cyclic": an.cyclic,
                                       "result": if o.ok {"Ok".into()} else {o.err.clone()}, "visits": o.visits, "max_depth": o.max_depth, "first_events": o.log}),
                            );
                        }
                    }
                }
            }
        }
    }
    // raw byte patches of the generated table: generic oracles only
    if rng.chance(1, 3) {
        let mut b: Vec<u8> = font.to_vec();
        let dir = vf_core::gen::parse_dir(&b, 0);
        if let Some(rec) = dir.iter().find(|r| &r.tag == b"COLR") {
            let r = rec.range(b.len());
            if r.len() > 4 {
                let n = 1 + rng.usize(3);
                for _ in 0..n {
                    let p = r.start + rng.usize(r.len());
                    b[p] = match rng.usize(4) {
                        0 => b[p] ^ (1 << rng.usize(8)),
                        1 => 0,
                        2 => 0xff,
                        _ => rng.u32() as u8,
                    };
                }
                ctx.count("raw_patched_generated_tables", 1);
                let b = std::sync::Arc::new(b);
                let what = format!("{}:patched", what);
                for gid in m.glyph_ids_to_try() {
                    let policy = policies[(gid as usize) % policies.len()];
                    let coords: Vec<i16> = (0..m.axes).map(|_| rng.range(-16384, 16384) as i16).collect();
                    if let Some(o) = paint_one(ctx, &b, gid, &coords, policy, Want::Any, &what) {
                        let exp = Expect { family: format!("{}:gid={}", what, gid), budget_family: Some(format!("patched:gen:{}", family)), ..Default::default() };
                        judge(ctx, &o, &b, gid, &coords, policy, &what, &exp);
                    }
                }
            }
        }
    }
}

/// The bounded reproducers of the missing visit budget, and their growth curves.
fn fanout_families(ctx: &mut Ctx) {
    let mut rng = Rng::derive(ctx.seed, "c13-fanout", 0);
    // (family key, builder, sizes used for the growth curve, size that must exceed the budget, size that the painter aborts)
    type B = fn(usize) -> Model;
    let fams: [(&str, B, [usize; 4], usize, usize); 3] = [
        ("fanout-dag:PaintColrLayers-fibonacci", Model::fibonacci_layers, [12, 16, 20, 24], 30, 36),
        ("fanout-dag:PaintComposite-shared-child", Model::shared_child_composite, [6, 10, 14, 17], 20, 26),
        ("nested-PaintGlyph-chain", Model::nested_glyph_chain, [6, 10, 14, 17], 20, 0),
    ];
    let mut growth = serde_json::Map::new();
    for (key, build, sizes, over, abort_size) in fams {
        let mut curve = vec![];
        for n in sizes {
            let m = build(n);
            let Some(font) = m.to_font(&mut rng).map(std::sync::Arc::new) else { continue };
            let table_len = vf_core::gen::parse_dir(&font, 0).iter().find(|r| &r.tag == b"COLR").map(|r| r.len).unwrap_or(0);
            let policy = Policy::all(0)[0];
            let what = format!("gen:{}:n={}", key, n);
            if let Some(o) = paint_one(ctx, &font, 0, &[], policy, Want::V1, &what) {
                let an = m.analyze(0, true);
                let exp = Expect { family: key.to_string(), visits_ub: an.filter(|a| !a.cut && !a.cyclic).map(|a| a.unfolded), must_err: None, budget_family: None };
                judge(ctx, &o, &font, 0, &[], policy, &what, &exp);
                curve.push(json!({"n": n, "colr_table_bytes": table_len, "visits": o.visits, "callbacks": o.callbacks, "result": if o.ok {"Ok"} else {"Err"}}));
            }
        }
        growth.insert(key.to_string(), json!(curve));
        for n in [over, abort_size] {
            if n == 0 {
                continue;
            }
            let m = build(n);
            let Some(font) = m.to_font(&mut rng).map(std::sync::Arc::new) else { continue };
            let policy = Policy::all(0)[0];
            let what = format!("gen:{}:n={}", key, n);
            if let Some(o) = paint_one(ctx, &font, 0, &[], policy, Want::V1, &what) {
                let exp = Expect { family: key.to_string(), visits_ub: None, must_err: None, budget_family: None };
                judge(ctx, &o, &font, 0, &[], policy, &what, &exp);
                ctx.count(if o.aborted { "fanout_probe_aborted_by_painter" } else if o.ok { "fanout_probe_completed_ok" } else { "fanout_probe_returned_err" }, 1);
            }
        }
    }
    ctx.extra.insert("fanout_growth".into(), Value::Object(growth));
}

fn corpus_colr_fonts() -> Vec<vf_core::CorpusFont> {
    vf_core::corpus_fonts()
        .into_iter()
        .filter(|f| FontRef::new(&f.data).map(|fr| fr.colr().is_ok()).unwrap_or(false))
        .collect()
}

fn axis_count(font: &[u8]) -> usize {
    FontRef::new(font).ok().and_then(|f| f.fvar().ok()).map(|f| f.axis_count() as usize).unwrap_or(0)
}

fn num_glyphs(font: &[u8]) -> u32 {
    FontRef::new(font).ok().and_then(|f| f.maxp().ok()).map(|m| m.num_glyphs() as u32).unwrap_or(0)
}

fn corpus_pass(ctx: &mut Ctx, fonts: &[vf_core::CorpusFont], item0: &mut usize) {
    for f in fonts {
        let n = num_glyphs(&f.data);
        let axes = axis_count(&f.data);
        ctx.label("corpus_colr_fonts", &f.name);
        for gid in 0..n + 2 {
            if stuck() {
                return;
            }
            let it = *item0;
            *item0 += 1;
            if !ctx.mine(it) {
                continue;
            }
            let mut rng = Rng::derive(ctx.seed, "c13-corpus", it as u64);
            let nloc = ctx.tier.pick(2, 6);
            for li in 0..nloc {
                let coords: Vec<i16> = match li {
                    0 => vec![],
                    1 => (0..axes).map(|_| rng.range(-16384, 16384) as i16).collect(),
                    2 => (0..axes).map(|_| 16384).collect(),
                    3 => (0..axes).map(|_| -16384).collect(),
                    _ => (0..axes).map(|_| if rng.chance(1, 4) { rng.range(-16384, 16384) as i16 } else { 0 }).collect(),
                };
                for policy in Policy::all(rng.u64()) {
                    for want in [Want::V1, Want::V0] {
                        let what = format!("corpus:{}", f.name);
                        if let Some(o) = paint_one(ctx, &f.data, gid, &coords, policy, want, &what) {
                            if !o.present {
                                continue;
                            }
                            let exp = Expect { family: format!("{}:gid={}", what, gid), ..Default::default() };
                            judge(ctx, &o, &f.data, gid, &coords, policy, &what, &exp);
                            if o.visits > 10_000 {
                                ctx.count("corpus_glyph_over_1e4_visits", 1);
                            }
                        }
                    }
                }
            }
        }
    }
}

fn mutant_pass(ctx: &mut Ctx, fonts: &[vf_core::CorpusFont], item0: &mut usize, per_font: usize) {
    for f in fonts {
        let dir = vf_core::gen::parse_dir(&f.data, 0);
        let Some(rec) = dir.iter().find(|r| &r.tag == b"COLR").cloned() else { continue };
        let colr_range = rec.range(f.data.len());
        if colr_range.len() < 16 {
            continue;
        }
        let n = num_glyphs(&f.data);
        let axes = axis_count(&f.data);
        // colour glyph ids of the pristine font (mutants mostly keep them)
        let colour_gids: Vec<u32> = {
            let fr = FontRef::new(&f.data).unwrap();
            let c = fr.color_glyphs();
            (0..n).filter(|g| c.get(GlyphId::new(*g)).is_some()).collect()
        };
        if colour_gids.is_empty() {
            continue;
        }
        let mut buf: Vec<u8> = f.data.to_vec();
        for k in 0..per_font {
            if stuck() {
                return;
            }
            let it = *item0;
            *item0 += 1;
            if !ctx.mine(it) {
                continue;
            }
            let mut rng = Rng::derive(ctx.seed, "c13-mutant", it as u64);
            let mut patcher = vf_core::gen::Patcher::new();
            let kinds: Vec<&'static str> = if k % 2 == 0 {
                vf_core::gen::mutate_random(&mut buf, &dir, &mut rng, &mut patcher, Some(b"COLR"))
            } else {
                // uniform positions inside the COLR table: paint records dominate
                let n = 1 + rng.usize(3);
                for _ in 0..n {
                    let p = colr_range.start + rng.usize(colr_range.len());
                    match rng.usize(5) {
                        0 => {
                            let b = buf[p] ^ (1 << rng.usize(8));
                            patcher.set(&mut buf, p, &[b]);
                        }
                        1 => {
                            // a paint format byte
                            let b = 1 + rng.usize(33) as u8;
                            patcher.set(&mut buf, p, &[b]);
                        }
                        2 => {
                            if p + 3 <= colr_range.end {
                                // a 24-bit offset
                                let v = rng.usize(colr_range.len()) as u32;
                                patcher.set(&mut buf, p, &v.to_be_bytes()[1..]);
                            }
                        }
                        3 => patcher.set(&mut buf, p, &[0]),
                        _ => {
                            let b = rng.u32() as u8;
                            patcher.set(&mut buf, p, &[b]);
                        }
                    }
                }
                vec!["colr-uniform"]
            };
            for kd in &kinds {
                ctx.count(&format!("mutation:{}", kd), 1);
            }
            let what = format!("mutant:{}:{}", f.name, patcher.describe());
            let mutant = std::sync::Arc::new(buf.clone());
            let tries = ctx.tier.pick(6, 12).min(colour_gids.len());
            for t in 0..tries {
                let gid = if t < 2 { colour_gids[rng.usize(colour_gids.len())] } else { *rng.pick(&colour_gids) };
                let coords: Vec<i16> = if t % 2 == 0 { vec![] } else { (0..axes).map(|_| rng.range(-16384, 16384) as i16).collect() };
                let policy = Policy::all(rng.u64())[t % 5];
                if let Some(o) = paint_one(ctx, &mutant, gid, &coords, policy, Want::Any, &what) {
                    let exp = Expect { family: format!("{}:gid={}", what, gid), budget_family: Some(format!("mutant:{}", f.name)), ..Default::default() };
                    judge(ctx, &o, &mutant, gid, &coords, policy, &what, &exp);
                }
            }
            patcher.undo(&mut buf);
        }
    }
}

pub fn run(ctx: &mut Ctx, _args: &Args) {
    ctx.policy = PanicPolicy::Totality;
    ctx.rule = "a ColorGlyph::paint call on a COLRv1 glyph whose traversal entered >= 3 paint nodes and issued >= 1 push callback, or which returned an \
                error after entering >= 2 nodes; digest = (font bytes hash, glyph id) (locations and painter policies are not counted as distinct cases)"
        .into();
    ctx.assumptions = vec![
        "the painter's own callbacks terminate and do not re-enter paint".into(),
        format!("bounded = at most 2^20 paint nodes entered per paint call (hook counter); the painter aborts after {} callbacks", CALLBACK_BUDGET),
        "too deep = a node at recursion depth 64 (MAX_TRAVERSAL_DEPTH) is entered; errors may leave pushes open".into(),
        "expectations 'must be Err' come from a reference model of graphs the harness built itself; corpus fonts and byte mutants are judged by the generic oracles only".into(),
    ];
    let mut item = 0usize;

    // ---- 1. the known exponential shapes (shard 0)
    if ctx.shard.0 == 0 {
        fanout_families(ctx);
    }

    // ---- 2. generated graphs
    let n_random = ctx.tier.pick(160_000usize, 2_400_000);
    for i in 0..n_random {
        if stuck() {
            break;
        }
        let it = item;
        item += 1;
        if !ctx.mine(it) {
            continue;
        }
        let mut rng = Rng::derive(ctx.seed, "c13-gen", i as u64);
        let fam = FAMILIES[i % FAMILIES.len()];
        let Some(m) = Model::generate(fam, &mut rng) else {
            ctx.count("generator_rejected(unfolded size over cap)", 1);
            continue;
        };
        run_model_case(ctx, fam, i as u64, &m, &mut rng, None);
    }
    // ---- 3. exhaustive small sweeps: chain lengths / depths 1..=70 for every chain kind
    for kind in CHAIN_KINDS {
        for len in 1..=70usize {
            for closing in 0..4usize {
                if stuck() {
                    break;
                }
                let it = item;
                item += 1;
                if !ctx.mine(it) {
                    continue;
                }
                let mut rng = Rng::derive(ctx.seed, "c13-chain", (len * 16 + closing) as u64 ^ fnv64(kind.as_bytes()));
                let m = Model::chain(kind, len, closing, &mut rng);
                run_model_case(ctx, &format!("chain:{}", kind), (len * 4 + closing) as u64, &m, &mut rng, None);
            }
        }
    }

    // ---- 4. corpus fonts and their mutants
    let fonts = corpus_colr_fonts();
    ctx.extra.insert("corpus_colr_font_count".into(), json!(fonts.len()));
    corpus_pass(ctx, &fonts, &mut item);
    let per_font = ctx.tier.pick(48_000usize, 640_000);
    mutant_pass(ctx, &fonts, &mut item, per_font);
}

fn replay(ctx: &mut Ctx, _args: &Args, rec: &Value, input: Option<&[u8]>) {
    ctx.policy = PanicPolicy::Totality;
    let Some(font) = input else {
        ctx.inconclusive("replay without input bytes");
        return;
    };
    let d = &rec["detail"];
    let d = if d["case"].is_object() { &d["case"] } else { d };
    let gid = d["gid"].as_u64().unwrap_or(0) as u32;
    let coords: Vec<i16> = d["coords"].as_array().map(|a| a.iter().map(|v| v.as_i64().unwrap_or(0) as i16).collect()).unwrap_or_default();
    let policy = Policy::from_json(&d["policy"]);
    let what = d["what"].as_str().unwrap_or("replay").to_string();
    let font = &std::sync::Arc::new(font.to_vec());
    if let Some(o) = paint_one(ctx, font, gid, &coords, policy, Want::Any, &what) {
        eprintln!("replay outcome: {:?}", o);
        // keep the recorded family so that the signature is reproduced
        let sig = rec["signature"].as_str().unwrap_or("");
        let fam = sig.splitn(2, ':').nth(1).unwrap_or("").to_string();
        let exp = Expect { family: if sig.starts_with("unbounded-traversal:") { fam } else { format!("{}:gid={}", what, gid) }, ..Default::default() };
        judge(ctx, &o, font, gid, &coords, policy, &what, &exp);
    }
}

// ------------------------------------------------------------------ libFuzzer support
//
// Ctx-free entry points used by the cargo-fuzz targets in /verif/harness/fuzz
// (extra stage "fuzz-c13_colr"): the same checker painter and the same generic
// oracles as `paint_one` / `judge`, on the calling thread (libFuzzer's own
// -timeout is the hang monitor there).

/// Paint one glyph with the checker painter on the calling thread.
/// `Err` is a panic that is NOT the painter's own budget abort.
pub fn paint_direct(font: &[u8], gid: u32, coords: &[i16], policy: Policy, want: Want) -> Result<Outcome, vf_core::PanicInfo> {
    let mon = RefCell::new(Mon::new(policy));
    let ncoords: Vec<skrifa::instance::NormalizedCoord> = coords.iter().map(|c| skrifa::instance::NormalizedCoord::from_bits(*c)).collect();
    let _ = skrifa::color::verif_traversal_hooks::take_visits();
    let res = vf_core::guard(|| -> Option<(bool, Result<(), PaintError>)> {
        let fr = FontRef::new(font).ok()?;
        let coll = fr.color_glyphs();
        let g = GlyphId::new(gid);
        let glyph = match want {
            Want::Any => coll.get(g),
            Want::V0 => coll.get_with_format(g, ColorGlyphFormat::ColrV0),
            Want::V1 => coll.get_with_format(g, ColorGlyphFormat::ColrV1),
        }?;
        let v1 = matches!(glyph.format(), ColorGlyphFormat::ColrV1);
        let mut m = mon.borrow_mut();
        let r = paint_with(&glyph, skrifa::instance::LocationRef::new(&ncoords), &mut m);
        Some((v1, r))
    });
    let (visits, depth) = skrifa::color::verif_traversal_hooks::take_visits();
    let m = mon.into_inner();
    let mk = |present: bool, v1: bool, ok: bool, err: String, aborted: bool| Outcome {
        present,
        v1,
        ok,
        err,
        visits,
        max_depth: depth,
        callbacks: m.callbacks,
        open: m.stack.len(),
        nest_error: m.nest_error.clone(),
        aborted,
        timed_out: false,
        pushes: m.ev[0] + m.ev[2] + m.ev[3] + m.ev[8],
        digest: m.digest.finish(),
        log: m.log_string(),
        ev: m.ev,
        mode_mismatch: m.mode_mismatch,
    };
    match res {
        Ok(None) => Ok(mk(false, false, false, String::new(), false)),
        Ok(Some((v1, Ok(())))) => Ok(mk(true, v1, true, String::new(), false)),
        Ok(Some((v1, Err(e)))) => Ok(mk(true, v1, false, err_kind(&e), false)),
        Err(p) if p.class == vf_core::PanicClass::Harness => Ok(mk(true, true, false, "aborted-by-painter".into(), true)),
        Err(p) => Err(p),
    }
}

/// The generic oracles of [`judge`] (those that need no reference model), as a
/// list of violation kinds; empty = the outcome satisfies the property.
pub fn generic_verdicts(o: &Outcome, policy: Policy) -> Vec<String> {
    let mut v = vec![];
    if !o.present {
        return v;
    }
    if o.aborted || o.visits > VISIT_BUDGET {
        v.push("unbounded-traversal".to_string());
    }
    if o.max_depth > MAX_DEPTH {
        v.push(format!("depth-limit-exceeded:depth={}", o.max_depth));
    } else if o.max_depth == MAX_DEPTH && o.ok && policy.cache == Cache::Unimplemented {
        v.push("too-deep-graph-painted-ok".to_string());
    }
    if o.ok {
        if let Some((e, _)) = &o.nest_error {
            v.push(format!("ok-but-misnested:{}", e));
        } else if o.open > 0 {
            v.push(format!("ok-but-unbalanced:open={}", o.open));
        }
    }
    v
}

/// The non-triviality rule of this check applied to one outcome.
pub fn outcome_nontrivial(o: &Outcome) -> bool {
    o.present && o.v1 && ((o.visits >= 3 && o.pushes >= 1) || (!o.ok && o.visits >= 2))
}

/// COLR tables of generated paint graphs (every family, the chain kinds and small
/// instances of the fan-out shapes) as seed inputs for the fuzzer.
pub fn seed_colr_tables(seed: u64, per_family: usize) -> Vec<(String, Vec<u8>)> {
    let mut out = vec![];
    let mut push = |name: String, m: &Model, rng: &mut Rng| {
        if let Ok(bytes) = write_fonts::dump_table(&m.to_colr(rng)) {
            out.push((name, bytes));
        }
    };
    for fam in FAMILIES {
        for i in 0..per_family {
            let mut rng = Rng::derive(seed, "c13-fuzz-seed", fnv64(fam.as_bytes()) ^ i as u64);
            if let Some(m) = Model::generate(fam, &mut rng) {
                push(format!("gen-{}-{}", fam, i), &m, &mut rng);
            }
        }
    }
    for kind in CHAIN_KINDS {
        for (len, closing) in [(3usize, 0usize), (5, 1), (8, 2), (63, 0), (66, 0)] {
            let mut rng = Rng::derive(seed, "c13-fuzz-chain", (len * 16 + closing) as u64 ^ fnv64(kind.as_bytes()));
            let m = Model::chain(kind, len, closing, &mut rng);
            push(format!("chain-{}-{}-{}", kind, len, closing), &m, &mut rng);
        }
    }
    let mut rng = Rng::derive(seed, "c13-fuzz-fanout", 0);
    push("fibonacci-8".into(), &Model::fibonacci_layers(8), &mut rng);
    push("shared-composite-6".into(), &Model::shared_child_composite(6), &mut rng);
    push("nested-glyph-6".into(), &Model::nested_glyph_chain(6), &mut rng);
    out
}

/// Base glyph ids the COLR table of `font` lists (a bounded number): (glyph id, listed in the v1 BaseGlyphList).
pub fn listed_base_glyphs(font: &[u8]) -> Vec<(u32, bool)> {
    let mut ids: Vec<(u32, bool)> = vec![];
    let Ok(fr) = FontRef::new(font) else { return ids };
    let Ok(colr) = fr.colr() else { return ids };
    if let Some(Ok(list)) = colr.base_glyph_list() {
        for r in list.base_glyph_paint_records().iter().take(12) {
            ids.push((r.glyph_id().to_u32(), true));
        }
    }
    if let Some(Ok(recs)) = colr.base_glyph_records() {
        for r in recs.iter().take(6) {
            ids.push((r.glyph_id().to_u32(), false));
        }
    }
    ids.sort_unstable();
    ids.dedup();
    ids
}
