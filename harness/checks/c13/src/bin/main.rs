fn main() {
    vf_core::main_with("C13", vf_c13::run, vf_c13::REPLAY);
}
