//! C17 (a') — direct stress of `klippa::serialize::Serializer`, the object / link packer every
//! rebuilt table (HVAR / VVAR index maps and variation data, cmap, COLR, ...) goes through.
//!
//! Property slice: when serialization succeeds, every link of every LOGICAL object written
//! resolves (own width, relative to the parent's head) to a byte-for-byte copy of the object
//! it was made to point at. `pop_pack(share = true)` may merge identical objects, and only
//! those. The oracle is an independent resolver over the output bytes (it knows the objects
//! that were written, not the serializer's state).
//!
//! Workload: objects cut from ONE byte pattern per case, so that equal-length objects agree
//! wherever they were not deliberately changed; lengths and change positions straddle the
//! 128-byte window the object hash looks at: {0, 1, 64, 126..=132, len-1}. Exhaustive: pairs /
//! triples of leaf objects (length x first differing byte x share flags x link width x order);
//! parents that differ only in a link target / width / position beyond byte 128. Sampled:
//! graphs of up to 10 objects where most objects are one-step mutations of an earlier one.

use klippa::serialize::{OffsetWhence, Serializer};
use serde_json::{json, Value};
use vf_core::{Ctx, Digest, Rng};

#[derive(Clone, Debug, PartialEq, Eq)]
pub struct SLink {
    pub pos: usize,
    pub width: usize,
    pub to: usize,
}

/// Object `i` of a case: `len` bytes of the case pattern, xor-ed at `flips`, with link fields.
#[derive(Clone, Debug, Default, PartialEq, Eq)]
pub struct SObj {
    pub len: usize,
    pub flips: Vec<(usize, u8)>,
    /// sorted by pos, non-overlapping, inside the object; `to` > own index (0 = root)
    pub links: Vec<SLink>,
    pub share: bool,
}

#[derive(Clone, Debug)]
pub struct SCase {
    pub pattern_seed: u8,
    pub objs: Vec<SObj>,
}

fn pat(seed: u8, k: usize) -> u8 {
    // every byte depends on its position; period far longer than any object
    ((k.wrapping_mul(7) ^ (k >> 3).wrapping_mul(13)) as u8).wrapping_add(seed) ^ ((k >> 8) as u8)
}

impl SCase {
    fn bytes_of(&self, i: usize) -> Vec<u8> {
        let o = &self.objs[i];
        let mut v: Vec<u8> = (0..o.len).map(|k| pat(self.pattern_seed, k)).collect();
        if i == 0 && v.len() >= 4 {
            v[..4].copy_from_slice(b"ROOT");
        }
        for (p, x) in &o.flips {
            if *p < v.len() {
                v[*p] ^= *x;
            }
        }
        for l in &o.links {
            for b in &mut v[l.pos..l.pos + l.width] {
                *b = 0;
            }
        }
        v
    }

    fn well_formed(&self) -> Result<(), String> {
        let n = self.objs.len();
        if n == 0 {
            return Err("empty".into());
        }
        let mut has_parent = vec![false; n];
        has_parent[0] = true;
        for (i, o) in self.objs.iter().enumerate() {
            if o.len == 0 {
                return Err("zero-length object".into());
            }
            let mut cur = 0;
            for l in &o.links {
                if l.to <= i || l.to >= n || !(l.width == 2 || l.width == 4) || l.pos < cur || l.pos + l.width > o.len {
                    return Err(format!("bad link in object {i}"));
                }
                cur = l.pos + l.width;
                has_parent[l.to] = true;
            }
        }
        if has_parent.iter().any(|x| !x) {
            return Err("unreachable object".into());
        }
        Ok(())
    }

    pub fn to_json(&self) -> Value {
        json!({"pattern_seed": self.pattern_seed, "objects": self.objs.iter().map(|o| json!({
            "len": o.len, "share": o.share,
            "flips_pos_xor": o.flips.iter().map(|(p, x)| json!([p, x])).collect::<Vec<_>>(),
            "links_pos_width_to": o.links.iter().map(|l| json!([l.pos, l.width, l.to])).collect::<Vec<_>>()})).collect::<Vec<_>>()})
    }

    pub fn from_json(v: &Value) -> Option<SCase> {
        let mut objs = vec![];
        for o in v["objects"].as_array()? {
            let mut so = SObj { len: o["len"].as_u64()? as usize, share: o["share"].as_bool()?, ..Default::default() };
            for f in o["flips_pos_xor"].as_array()? {
                so.flips.push((f[0].as_u64()? as usize, f[1].as_u64()? as u8));
            }
            for l in o["links_pos_width_to"].as_array()? {
                so.links.push(SLink { pos: l[0].as_u64()? as usize, width: l[1].as_u64()? as usize, to: l[2].as_u64()? as usize });
            }
            objs.push(so);
        }
        Some(SCase { pattern_seed: v["pattern_seed"].as_u64()? as u8, objs })
    }

    fn digest(&self) -> u64 {
        let mut d = Digest::new();
        d.u32(self.pattern_seed as u32);
        for o in &self.objs {
            d.u64(o.len as u64);
            d.u32(o.share as u32);
            for (p, x) in &o.flips {
                d.u64(*p as u64);
                d.u32(*x as u32);
            }
            d.u32(0xFFFF_FFFF);
            for l in &o.links {
                d.u64(l.pos as u64);
                d.u32(l.width as u32);
                d.u32(l.to as u32);
            }
        }
        d.finish()
    }
}

/// Drive the real serializer. Ok(bytes) / Err(error description).
fn serialize(case: &SCase) -> Result<Vec<u8>, String> {
    let total: usize = case.objs.iter().map(|o| o.len).sum();
    let mut s = Serializer::new(total * 2 + 64);
    s.start_serialize().map_err(|e| format!("start_serialize: {:?}", e.bits_for_verif()))?;
    let n = case.objs.len();
    let mut idx: Vec<Option<usize>> = vec![None; n];
    let write_obj = |s: &mut Serializer, i: usize, idx: &[Option<usize>]| -> Result<(), String> {
        let b = case.bytes_of(i);
        let mut cur = 0usize;
        for l in &case.objs[i].links {
            s.embed_bytes(&b[cur..l.pos]).map_err(|_| "embed_bytes".to_string())?;
            let pos = if l.width == 2 { s.embed(0u16) } else { s.embed(0u32) }.map_err(|_| "embed".to_string())?;
            let Some(t) = idx[l.to] else { return Err("target not packed".into()) };
            s.add_link(pos..pos + l.width, t, OffsetWhence::Head, 0, false).map_err(|_| "add_link".to_string())?;
            cur = l.pos + l.width;
        }
        s.embed_bytes(&b[cur..]).map_err(|_| "embed_bytes".to_string())?;
        Ok(())
    };
    // children first (they have the higher indices), each pushed while the root is current
    for i in (1..n).rev() {
        s.push().map_err(|_| "push".to_string())?;
        write_obj(&mut s, i, &idx)?;
        match s.pop_pack(case.objs[i].share) {
            Some(x) => idx[i] = Some(x),
            None => return Err(format!("pop_pack returned None for object {i}")),
        }
    }
    write_obj(&mut s, 0, &idx)?;
    s.end_serialize();
    let out = s.copy_bytes();
    if out.is_empty() {
        return Err("serializer reported an error (empty output)".into());
    }
    Ok(out)
}

trait ErrBits {
    fn bits_for_verif(&self) -> String;
}
impl<T: std::fmt::Debug> ErrBits for T {
    fn bits_for_verif(&self) -> String {
        format!("{:?}", self)
    }
}

struct Res {
    links: u64,
    distinct_positions: usize,
}

/// independent resolver: root at 0, follow the links of the objects AS WRITTEN
fn resolve(case: &SCase, out: &[u8]) -> Result<Res, (String, Value)> {
    let mut seen = std::collections::HashSet::new();
    let mut stack = vec![(0usize, 0usize, usize::MAX)];
    let mut links = 0u64;
    let mut reached = vec![false; case.objs.len()];
    while let Some((i, at, via)) = stack.pop() {
        if !seen.insert((i, at)) {
            continue;
        }
        let want = case.bytes_of(i);
        let Some(got) = out.get(at..at + want.len()) else {
            return Err(("target-out-of-bounds".into(), json!({"object": i, "at": at, "len": want.len(), "out_len": out.len(), "via_parent": via as i64})));
        };
        let mut cur = 0usize;
        let mut ranges = vec![];
        for l in &case.objs[i].links {
            ranges.push((cur, l.pos));
            cur = l.pos + l.width;
        }
        ranges.push((cur, want.len()));
        for (a, b) in ranges {
            if got[a..b] != want[a..b] {
                let k = (a..b).find(|k| got[*k] != want[*k]).unwrap_or(a);
                return Err(("payload-mismatch".into(), json!({"object": i, "at": at, "first_diff_at": k, "expected": want[k], "found": got[k], "via_parent": via as i64,
                    "note": "the link lands on bytes that are not the object it was made to point at"})));
            }
        }
        reached[i] = true;
        for l in &case.objs[i].links {
            let mut v = 0usize;
            for b in &got[l.pos..l.pos + l.width] {
                v = (v << 8) | *b as usize;
            }
            links += 1;
            stack.push((l.to, at + v, i));
        }
    }
    if let Some(m) = reached.iter().position(|x| !x) {
        return Err(("object-absent".into(), json!({"object": m})));
    }
    let distinct_positions = seen.iter().map(|(_, p)| *p).collect::<std::collections::HashSet<_>>().len();
    Ok(Res { links, distinct_positions })
}

pub fn run_case(ctx: &mut Ctx, case: &SCase, family: &str, id: &str) {
    if let Err(e) = case.well_formed() {
        ctx.inconclusive(format!("serializer stress: malformed case {id}: {e}"));
        return;
    }
    ctx.eval();
    ctx.count(&format!("ser:{family}:cases"), 1);
    let label = || format!("serializer stress {} {}", id, case.to_json());
    let r = ctx.run_case(&label, None, &|| serialize(case));
    let out = match r {
        Ok(Ok(b)) => b,
        Ok(Err(e)) => {
            ctx.count("ser:serializer_error_or_refusal", 1);
            ctx.label("ser:errors", &e);
            return;
        }
        Err(p) => {
            ctx.judge_panic(&p, "klippa Serializer on a well-formed object graph", json!({"ser_case": case.to_json(), "id": id}), None);
            return;
        }
    };
    // which relations does the case hold between equal-length objects?
    let n = case.objs.len();
    let mut near128 = false;
    let mut twins = false;
    for i in 1..n {
        for j in i + 1..n {
            let (a, b) = (&case.objs[i], &case.objs[j]);
            if a.len != b.len {
                continue;
            }
            let (ba, bb) = (case.bytes_of(i), case.bytes_of(j));
            let k = 128.min(a.len);
            if ba == bb && a.links == b.links {
                twins = true;
                ctx.count("ser:pairs:true-twins", 1);
            } else if ba[..k] == bb[..k] && a.links == b.links {
                near128 = true;
                ctx.count("ser:pairs:same-first-128-bytes-and-links-different-tail", 1);
            } else if ba == bb {
                near128 = true;
                ctx.count("ser:pairs:same-bytes-different-links", 1);
            } else if ba[..k.min(64)] == bb[..k.min(64)] {
                ctx.count("ser:pairs:same-length-same-first-64-bytes", 1);
            }
        }
    }
    if near128 {
        ctx.count("ser:cases_with_near_twins", 1);
    }
    if near128 || twins {
        ctx.nontrivial(case.digest());
    }
    match resolve(case, &out) {
        Ok(res) => {
            ctx.count("ser:success_all_links_resolved", 1);
            ctx.count("ser:links_resolved", res.links);
            if res.distinct_positions < n {
                ctx.count("ser:success_with_objects_shared", 1);
                if near128 {
                    ctx.sample_by_kind("ser:near-twins-kept-apart-while-twins-shared", json!({"id": id, "case": case.to_json(), "out_len": out.len()}));
                }
            }
        }
        Err((kind, detail)) => {
            ctx.count("ser:misresolved", 1);
            // list a handful per shard (the violation list is capped; the font-level refutations
            // of the same cause should stay visible), count the rest
            static LISTED: std::sync::atomic::AtomicUsize = std::sync::atomic::AtomicUsize::new(0);
            if family != "replay" && LISTED.fetch_add(1, std::sync::atomic::Ordering::Relaxed) >= 8 {
                ctx.count("ser:misresolved_not_listed", 1);
                ctx.violation("serializer-misresolved:more-cases-not-listed-individually", json!({"what": "further serializer stress cases mis-resolved in this shard; see counter ser:misresolved"}), None);
                return;
            }
            ctx.violation(
                &format!("serializer-misresolved:{kind}:{id}"),
                json!({"what": "klippa Serializer: end_serialize succeeded but a link does not land on the object it was made to point at",
                       "problem": detail, "kind": kind, "id": id, "ser_case": case.to_json(), "out_len": out.len()}),
                None,
            );
        }
    }
}

const LENS: [usize; 14] = [1, 2, 64, 127, 128, 129, 130, 131, 132, 136, 160, 200, 256, 300];

fn interesting_positions(len: usize) -> Vec<usize> {
    let mut v: Vec<usize> = [0usize, 1, 63, 64, 126, 127, 128, 129, 130, 131, 132, 135, len / 2, len.saturating_sub(2), len.saturating_sub(1)]
        .into_iter()
        .filter(|p| *p < len)
        .collect();
    v.sort_unstable();
    v.dedup();
    v
}

fn exhaustive(ctx: &mut Ctx, item: &mut usize) {
    let mut cases = 0u64;
    // leaves A, B (B = A with one byte changed at d, or unchanged), optionally A again
    for len in LENS {
        let mut ds: Vec<Option<usize>> = interesting_positions(len).into_iter().map(Some).collect();
        ds.push(None);
        for d in ds {
            for (sa, sb) in [(true, true), (true, false), (false, true)] {
                for w in [2usize, 4] {
                    for order in 0..3u8 {
                        cases += 1;
                        *item += 1;
                        if !ctx.mine(*item) {
                            continue;
                        }
                        let a = SObj { len, flips: vec![], links: vec![], share: sa };
                        let mut b = SObj { len, flips: vec![], links: vec![], share: sb };
                        if let Some(d) = d {
                            b.flips.push((d, 0xFF));
                        }
                        // order 0: [A, B]; 1: [B, A] (packing order is by descending index); 2: [A, B, A]
                        let leaves: Vec<SObj> = match order {
                            0 => vec![a, b],
                            1 => vec![b, a],
                            _ => vec![a.clone(), b, a],
                        };
                        let k = leaves.len();
                        let root = SObj { len: 4 + k * w, flips: vec![], links: (0..k).map(|q| SLink { pos: 4 + q * w, width: w, to: 1 + q }).collect(), share: false };
                        let mut objs = vec![root];
                        objs.extend(leaves);
                        let case = SCase { pattern_seed: (len as u8).wrapping_mul(3), objs };
                        let id = format!("leaf:len{}:d{}:s{}{}:w{}:o{}", len, d.map(|d| d.to_string()).unwrap_or("none".into()), sa as u8, sb as u8, w, order);
                        run_case(ctx, &case, "exh-leaves", &id);
                    }
                }
            }
        }
    }
    // parents P1, P2 of equal length with one link each; the link's position is before / after
    // byte 128; P2 differs from P1 in exactly one of: target (C1 / C2 where C2 = C1 with a late
    // byte changed), link width (field bytes are zero either way), link position, a late byte
    for len in [64usize, 132, 140, 200] {
        for lpos in [0usize, 60, 124, 126, 128, 130] {
            if lpos + 4 > len {
                continue;
            }
            for variant in 0..6u8 {
                for clen in [8usize, 130, 200] {
                    cases += 1;
                    *item += 1;
                    if !ctx.mine(*item) {
                        continue;
                    }
                    // objects: 0 root, 1 P1, 2 P2, 3 C1, 4 C2
                    let c1 = SObj { len: clen, flips: vec![], links: vec![], share: true };
                    let c2 = SObj { len: clen, flips: vec![(clen - 1, 0x55)], links: vec![], share: true };
                    let p1 = SObj { len, flips: vec![], links: vec![SLink { pos: lpos, width: 2, to: 3 }], share: true };
                    let mut p2 = p1.clone();
                    match variant {
                        0 => {}                                                 // true twins
                        1 => p2.links[0].to = 4,                                // target
                        2 => p2.links[0].width = 4,                             // width (bytes under the wider field are zeroed)
                        3 => p2.links[0].pos = lpos + 2,                        // position
                        4 => p2.flips.push((len - 1, 0x0F)),                    // late byte
                        _ => {
                            p2.links[0].to = 4;
                            p2.flips.push((len - 1, 0x0F));
                        }
                    }
                    // make byte images equal where the variant only changes link attributes: zero the union of the fields
                    if variant == 2 || variant == 3 {
                        for q in lpos..lpos + 4 {
                            let z1 = pat(7, q);
                            if !(p1.links[0].pos..p1.links[0].pos + p1.links[0].width).contains(&q) {
                                // p1 carries literal bytes here: make them zero like a link field
                                let _ = z1;
                            }
                        }
                    }
                    let mut p1 = p1;
                    if variant == 2 || variant == 3 {
                        let zero = |o: &mut SObj, q: usize| {
                            if !o.links.iter().any(|l| (l.pos..l.pos + l.width).contains(&q)) {
                                o.flips.push((q, pat(7, q)));
                            }
                        };
                        for q in lpos..lpos + 4 {
                            zero(&mut p1, q);
                            zero(&mut p2, q);
                        }
                    }
                    let uses4 = p2.links[0].to == 4;
                    let mut objs = vec![SObj::default(), p1, p2, c1];
                    let mut root_links = vec![SLink { pos: 4, width: 2, to: 1 }, SLink { pos: 6, width: 2, to: 2 }];
                    if uses4 {
                        objs.push(c2);
                    }
                    if clen == 200 {
                        // the root links the children too
                        root_links.push(SLink { pos: 8, width: 4, to: 3 });
                    }
                    objs[0] = SObj { len: 12, flips: vec![], links: root_links, share: false };
                    let case = SCase { pattern_seed: 7, objs };
                    let id = format!("parent:len{len}:lp{lpos}:v{variant}:c{clen}");
                    run_case(ctx, &case, "exh-parents", &id);
                }
            }
        }
    }
    ctx.extra.insert("serializer_exhaustive_cases".into(), json!(cases));
}

fn mutate(r: &mut Rng, o: &mut SObj, i: usize, n: usize) -> &'static str {
    for _ in 0..6 {
        match r.below(6) {
            0 | 1 => {
                let ps = interesting_positions(o.len);
                let p = if r.chance(3, 4) { *r.pick(&ps) } else { r.usize(o.len) };
                if o.links.iter().any(|l| (l.pos..l.pos + l.width).contains(&p)) {
                    continue;
                }
                let x = *r.pick(&[0x01u8, 0x80, 0xFF]);
                if let Some(k) = o.flips.iter().position(|f| f.0 == p) {
                    o.flips.remove(k); // undo: back to the pattern
                    return "unflip";
                }
                o.flips.push((p, x));
                return if p >= 128 { "flip-at-or-after-128" } else { "flip-before-128" };
            }
            2 if !o.links.is_empty() && i + 2 < n => {
                let k = r.usize(o.links.len());
                let nt = r.range(i as i64 + 1, n as i64 - 1) as usize;
                if nt != o.links[k].to {
                    o.links[k].to = nt;
                    return "retarget";
                }
            }
            3 if !o.links.is_empty() => {
                let k = r.usize(o.links.len());
                o.links.remove(k);
                return "unlink";
            }
            4 if i + 1 < n && o.len >= 4 => {
                let w = if r.bool() { 2 } else { 4 };
                let ps = interesting_positions(o.len);
                let p = *r.pick(&ps);
                if p + w <= o.len && !o.links.iter().any(|l| l.pos < p + w && p < l.pos + l.width) {
                    o.links.push(SLink { pos: p, width: w, to: r.range(i as i64 + 1, n as i64 - 1) as usize });
                    o.links.sort_by_key(|l| l.pos);
                    o.flips.retain(|f| !(p..p + w).contains(&f.0));
                    return "add-link";
                }
            }
            5 => {
                o.share = !o.share;
                return "toggle-share";
            }
            _ => {}
        }
    }
    "copy"
}

fn sample_case(r: &mut Rng) -> (SCase, Vec<&'static str>) {
    let n = r.range(3, 10) as usize;
    let mut objs = vec![SObj::default(); n];
    let mut muts = vec![];
    let p_copy = *r.pick(&[4u64, 7, 9]);
    let len_pool: Vec<usize> = (0..r.range(1, 3)).map(|_| *r.pick(&LENS[2..])).collect();
    for i in (1..n).rev() {
        if i + 1 < n && r.chance(p_copy, 10) {
            let j = r.range(i as i64 + 1, n as i64 - 1) as usize;
            let mut o = objs[j].clone();
            for _ in 0..*r.pick(&[0usize, 1, 1, 1, 2]) {
                muts.push(mutate(r, &mut o, i, n));
            }
            objs[i] = o;
        } else {
            let mut o = SObj { len: *r.pick(&len_pool), flips: vec![], links: vec![], share: r.chance(5, 6) };
            for _ in 0..r.below(3) {
                muts.push(mutate(r, &mut o, i, n));
            }
            objs[i] = o;
        }
    }
    let mut has_parent = vec![false; n];
    for o in &objs[1..] {
        for l in &o.links {
            has_parent[l.to] = true;
        }
    }
    let mut links = vec![];
    let mut pos = 4;
    for i in 1..n {
        if !has_parent[i] || r.chance(1, 5) {
            let w = if r.bool() { 2 } else { 4 };
            links.push(SLink { pos, width: w, to: i });
            pos += w;
        }
    }
    objs[0] = SObj { len: pos, flips: vec![], links, share: false };
    (SCase { pattern_seed: r.below(256) as u8, objs }, muts)
}

pub fn run(ctx: &mut Ctx, item: &mut usize) {
    exhaustive(ctx, item);
    let count: u64 = ctx.tier.pick(60_000, 1_000_000);
    for k in 0..count {
        *item += 1;
        if !ctx.mine(*item) {
            continue;
        }
        let mut r = Rng::derive(ctx.seed, "c17-ser", k);
        let (case, muts) = sample_case(&mut r);
        for m in &muts {
            ctx.count(&format!("ser:mutation:{m}"), 1);
        }
        let id = format!("smp:seed{}:i{}", ctx.seed, k);
        run_case(ctx, &case, "sampled", &id);
    }
}

pub fn replay(ctx: &mut Ctx, v: &Value, id: &str) {
    match SCase::from_json(v) {
        Some(c) => run_case(ctx, &c, "replay", id),
        None => ctx.inconclusive("replay: serializer case not parsable"),
    }
}
