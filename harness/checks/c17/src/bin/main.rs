fn main() {
    vf_core::main_with("C17", vf_c17::run, vf_c17::REPLAY);
}
