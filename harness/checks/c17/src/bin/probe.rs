//! Debug helper: vf-c17-probe <font> <flags> <chars: a,b-c|all|none> <gids: a,b-c|all|none> [gid-to-dump ...]
use font_types::{GlyphId, NameId, Tag};
use klippa::{subset_font, Plan, SubsetFlags, DEFAULT_LAYOUT_FEATURES};
use read_fonts::collections::IntSet;
use read_fonts::{FontRef, TableProvider};
use skrifa::MetadataProvider;

fn parse(s: &str, all: &[u32]) -> Vec<u32> {
    if s == "all" {
        return all.to_vec();
    }
    if s == "none" {
        return vec![];
    }
    let mut v = vec![];
    for p in s.split(',') {
        let num = |x: &str| -> u32 {
            if let Some(h) = x.strip_prefix("0x") {
                u32::from_str_radix(h, 16).unwrap()
            } else {
                x.parse().unwrap()
            }
        };
        if let Some((a, b)) = p.split_once('-') {
            v.extend(num(a)..=num(b));
        } else {
            v.push(num(p));
        }
    }
    v
}

fn main() {
    let a: Vec<String> = std::env::args().collect();
    let data = std::fs::read(&a[1]).unwrap();
    let font = FontRef::new(&data).or_else(|_| FontRef::from_index(&data, 0)).unwrap();
    let flags: u16 = a[2].parse().unwrap();
    let allc: Vec<u32> = font.charmap().mappings().map(|m| m.0).collect();
    let n = font.maxp().unwrap().num_glyphs() as u32;
    let allg: Vec<u32> = (0..n).collect();
    let chars = parse(&a[3], &allc);
    let gids = parse(&a[4], &allg);
    let mut g: IntSet<GlyphId> = IntSet::empty();
    for x in &gids {
        g.insert(GlyphId::new(*x));
    }
    let mut u: IntSet<u32> = IntSet::empty();
    for x in &chars {
        u.insert(*x);
    }
    let drop_tables: IntSet<Tag> = [
        b"morx", b"mort", b"kerx", b"kern", b"JSTF", b"DSIG", b"EBDT", b"EBLC", b"EBSC", b"SVG ", b"PCLT", b"LTSH", b"feat", b"Glat", b"Gloc", b"Silf", b"Sill",
    ]
    .iter()
    .map(|t| Tag::new(*t))
    .collect();
    let mut name_ids: IntSet<NameId> = IntSet::empty();
    name_ids.insert_range(NameId::from(0)..=NameId::from(6));
    let mut langs: IntSet<u16> = IntSet::empty();
    langs.insert(0x0409);
    let mut scripts: IntSet<Tag> = IntSet::empty();
    scripts.invert();
    let mut feats: IntSet<Tag> = IntSet::empty();
    feats.extend(DEFAULT_LAYOUT_FEATURES.iter().copied());
    let plan = Plan::new(&g, &u, &font, SubsetFlags::from(flags), &drop_tables, &scripts, &feats, &name_ids, &langs);
    let out = match subset_font(&font, &plan) {
        Ok(o) => o,
        Err(e) => {
            println!("ERR {e}");
            return;
        }
    };
    println!("subset {} bytes", out.len());
    if let Ok(p) = std::env::var("PROBE_OUT") {
        std::fs::write(p, &out).unwrap();
    }
    let sub = FontRef::new(&out).unwrap();
    for r in sub.table_directory.table_records() {
        print!("{}:{} ", r.tag(), r.length());
    }
    println!();
    println!("orig glyphs {} subset glyphs {:?}", n, sub.maxp().map(|m| m.num_glyphs()));
    if let Ok(h) = sub.head() {
        println!("loca format {} glyf len {:?}", h.index_to_loc_format(), sub.glyf().map(|g| g.offset_data().len()));
    }
    println!("glyf {:?} loca {:?}", sub.glyf().is_ok(), sub.loca(None).map(|l| l.len()));
    if let Ok(c) = sub.cmap() {
        for r in c.encoding_records() {
            println!("cmap record ({:?},{}) format {:?}", r.platform_id(), r.encoding_id(), r.subtable(c.offset_data()).map(|s| s.format()));
        }
    } else {
        println!("no cmap");
    }
    for x in &a[5..] {
        let gid: u32 = x.parse().unwrap();
        for (nm, f) in [("orig", &font), ("sub", &sub)] {
            let l = f.loca(None).unwrap();
            let gl = f.glyf().unwrap();
            let gg = l.get_glyf(GlyphId::new(gid), &gl);
            println!("{nm} gid {gid}: {:?}", gg.as_ref().map(|g| g.as_ref().map(|g| (g.number_of_contours(), g.offset_data().len()))));
            if let Ok(Some(read_fonts::tables::glyf::Glyph::Composite(c))) = &gg {
                println!("   components {:?}", c.components().map(|c| (c.glyph.to_u32(), c.flags)).collect::<Vec<_>>());
            }
            if let Ok(hv) = f.hvar() {
                let n = f.axes().len();
                let lo = vec![font_types::F2Dot14::from_f32(-1.0); n];
                println!("   HVAR adv_map {:?} lsb_map {:?} rsb_map {:?}", hv.advance_width_mapping_offset(), hv.lsb_mapping_offset(), hv.rsb_mapping_offset());
                println!("   HVAR at all-min: adv delta {:?} lsb delta {:?}", hv.advance_width_delta(GlyphId::new(gid), &lo), hv.lsb_delta(GlyphId::new(gid), &lo));
                if let Some(Ok(m)) = hv.lsb_mapping() { println!("   lsb map count {} fmt {:?} get {:?}", 0, m.entry_format(), m.get(gid)); }
                if let Some(Ok(m)) = hv.advance_width_mapping() { println!("   adv map count {} fmt {:?} get {:?}", 0, m.entry_format(), m.get(gid)); }
                if let Ok(ivs) = hv.item_variation_store() { println!("   ivs data count {} ", ivs.item_variation_data_count()); }
            }
            let gm = f.glyph_metrics(skrifa::instance::Size::unscaled(), skrifa::instance::LocationRef::default());
            println!("   adv {:?} lsb {:?}", gm.advance_width(GlyphId::new(gid)), gm.left_side_bearing(GlyphId::new(gid)));
        }
    }
}
