//! C17 — subsetting preserves everything about the glyphs and characters it
//! keeps (see /verif/DESIGN.md §3 "C17").
//!
//! Oracle: differential, original font vs `klippa::subset_font` output, both
//! observed through skrifa (charmap, unhinted outlines recorded exactly as f32
//! bit patterns, advance width, left side bearing) at sizes {unscaled, 16,
//! 113} × locations {default, axis extremes, random normalized coords}.
//!
//! The old→new glyph id relation is *not* taken from the plan (its fields are
//! private): it is recovered from the plan's documented semantics — identity
//! under RETAIN_GIDS, otherwise the rank of the old id in the retained set,
//! where retained = {.notdef} ∪ glyphs of retained characters ∪ requested ids
//! ∪ cmap-14 closure ∪ COLR closure ∪ composite closure. The property only
//! demands requested glyphs, .notdef and components (`r_min`); the superset
//! (`r_full`) is cross-checked against the subset's glyph count.
//!
//! Workload: every glyf-flavoured font of the corpus (+ klippa's test fonts)
//! × { subset-to-everything, ALL 2^k character subsets of fonts with k ≤ 13
//! (14 in the thorough tier) mapped characters, every glyph alone by id,
//! random requests (1, 2, few, half, all−1, all characters; windows of
//! consecutive code points; unmapped characters; glyph-id singles, ranges,
//! composites, out-of-range ids) } × flag combinations; every clean subset is
//! subset again with the same request (idempotence) and checked the same way
//! with the first subset in the original's role.
//!
//! Added for the object-sharing mechanism of `klippa/src/serialize.rs`: (a') a direct
//! Serializer stress with an independent link resolver (ser.rs); (b') built variable fonts
//! whose HVAR index maps / ItemVariationData subtables share >= 128 leading bytes and differ
//! afterwards, run through the same differential oracle (built.rs).
//!
//! Refutations caused by an already analysed defect get a signature naming
//! that defect, each verified structurally on the subset itself (e.g.
//! `loca-past-glyf-end`, `metrics-differ:hvar-dropped`,
//! `cmap-wrong-glyph:format4-multi-rangeoffset`), so that any other cause is
//! still reported under the generic `<what>:<kind>:<retain|renum>:<font>`.
//!
//! `vf-c17-probe` (src/bin/probe.rs) subsets one font with one request and
//! dumps tables / glyphs: the reproducer tool for the findings.
use font_types::{F2Dot14, GlyphId, NameId, Tag};
use klippa::{subset_font, Plan, SubsetFlags, DEFAULT_LAYOUT_FEATURES};
use read_fonts::collections::IntSet;
use read_fonts::tables::cmap::{Cmap, Cmap4, CmapSubtable, PlatformId};
use read_fonts::tables::glyf::Glyph;
use read_fonts::{FontRef, TableProvider};
use serde_json::{json, Value};
use skrifa::instance::{LocationRef, Size};
use skrifa::metrics::GlyphMetrics;
use skrifa::outline::{DrawSettings, OutlineGlyphCollection, OutlinePen};
use skrifa::MetadataProvider;
use std::cell::RefCell;
use std::collections::{BTreeSet, HashMap};
use std::rc::Rc;
use std::sync::Arc;
use vf_core::{fnv64, Args, Ctx, Digest, PanicPolicy, Rng};

pub mod built;
pub mod ser;

pub const REPLAY: Option<fn(&mut Ctx, &Args, &Value, Option<&[u8]>)> = Some(replay);

// ------------------------------------------------------------------ flags

const F_NO_HINTING: u16 = 0x0001;
const F_RETAIN_GIDS: u16 = 0x0002;
const F_DESUBR: u16 = 0x0004;
const F_NAME_LEGACY: u16 = 0x0008;
const F_SET_OVERLAPS: u16 = 0x0010;
const F_PASSTHROUGH: u16 = 0x0020;
const F_NOTDEF_OUTLINE: u16 = 0x0040;
const F_GLYPH_NAMES: u16 = 0x0080;
const F_NO_PRUNE: u16 = 0x0100;
const F_NO_LAYOUT_CLOSURE: u16 = 0x0200;
const F_OPT_IUP: u16 = 0x0400;

/// flags whose effect on the observations is modelled (the others are
/// declared UNIMPLEMENTED in klippa and are or-ed in at random).
const CORE_FLAGS: [u16; 4] = [F_NO_HINTING, F_RETAIN_GIDS, F_NOTDEF_OUTLINE, F_SET_OVERLAPS];
const EXTRA_FLAGS: [u16; 7] = [
    F_DESUBR,
    F_NAME_LEGACY,
    F_PASSTHROUGH,
    F_GLYPH_NAMES,
    F_NO_PRUNE,
    F_NO_LAYOUT_CLOSURE,
    F_OPT_IUP,
];

fn flag_names(f: u16) -> String {
    let names = [
        (F_NO_HINTING, "no-hinting"),
        (F_RETAIN_GIDS, "retain-gids"),
        (F_DESUBR, "desubroutinize"),
        (F_NAME_LEGACY, "name-legacy"),
        (F_SET_OVERLAPS, "set-overlaps"),
        (F_PASSTHROUGH, "passthrough"),
        (F_NOTDEF_OUTLINE, "notdef-outline"),
        (F_GLYPH_NAMES, "glyph-names"),
        (F_NO_PRUNE, "no-prune-unicode-ranges"),
        (F_NO_LAYOUT_CLOSURE, "no-layout-closure"),
        (F_OPT_IUP, "optimize-iup"),
    ];
    let v: Vec<&str> = names.iter().filter(|(b, _)| f & b != 0).map(|(_, n)| *n).collect();
    if v.is_empty() {
        "default".into()
    } else {
        v.join("+")
    }
}

// ------------------------------------------------------------------ observations

#[derive(Clone, Debug)]
struct Setting {
    ppem: Option<f32>,
    coords: Vec<F2Dot14>,
    is_default_loc: bool,
    label: String,
}

impl Setting {
    fn size(&self) -> Size {
        match self.ppem {
            Some(p) => Size::new(p),
            None => Size::unscaled(),
        }
    }
}

/// What is seen of one glyph at one (size, location).
#[derive(Clone, Debug, PartialEq)]
struct SObs {
    /// 0 = drawn, 1 = draw returned Err, 2 = glyph not in the collection
    ostat: u8,
    outline: u64,
    ncmd: u32,
    adv: Option<u32>,
    lsb: Option<u32>,
}

struct DigestPen {
    d: Digest,
    n: u32,
}

impl OutlinePen for DigestPen {
    fn move_to(&mut self, x: f32, y: f32) {
        self.d.bytes(&[1]);
        self.d.f32(x);
        self.d.f32(y);
        self.n += 1;
    }
    fn line_to(&mut self, x: f32, y: f32) {
        self.d.bytes(&[2]);
        self.d.f32(x);
        self.d.f32(y);
        self.n += 1;
    }
    fn quad_to(&mut self, cx0: f32, cy0: f32, x: f32, y: f32) {
        self.d.bytes(&[3]);
        self.d.f32(cx0);
        self.d.f32(cy0);
        self.d.f32(x);
        self.d.f32(y);
        self.n += 1;
    }
    fn curve_to(&mut self, cx0: f32, cy0: f32, cx1: f32, cy1: f32, x: f32, y: f32) {
        self.d.bytes(&[4]);
        self.d.f32(cx0);
        self.d.f32(cy0);
        self.d.f32(cx1);
        self.d.f32(cy1);
        self.d.f32(x);
        self.d.f32(y);
        self.n += 1;
    }
    fn close(&mut self) {
        self.d.bytes(&[5]);
        self.n += 1;
    }
}

struct Observer<'a> {
    outlines: OutlineGlyphCollection<'a>,
    metrics: Vec<GlyphMetrics<'a>>,
    settings: &'a [Setting],
}

impl<'a> Observer<'a> {
    fn new(font: &FontRef<'a>, settings: &'a [Setting]) -> Self {
        let metrics = settings
            .iter()
            .map(|s| GlyphMetrics::new(font, s.size(), LocationRef::new(&s.coords)))
            .collect();
        Observer {
            outlines: font.outline_glyphs(),
            metrics,
            settings,
        }
    }

    fn obs(&self, gid: u32) -> Vec<SObs> {
        let g = GlyphId::new(gid);
        let glyph = self.outlines.get(g);
        self.settings
            .iter()
            .zip(self.metrics.iter())
            .map(|(s, m)| {
                let (ostat, outline, ncmd) = match &glyph {
                    None => (2u8, 0u64, 0u32),
                    Some(gl) => {
                        let mut pen = DigestPen { d: Digest::new(), n: 0 };
                        let r = gl.draw(DrawSettings::unhinted(s.size(), LocationRef::new(&s.coords)), &mut pen);
                        match r {
                            Ok(_) => (0, pen.d.finish(), pen.n),
                            Err(e) => {
                                let mut d = Digest::new();
                                d.str(&format!("{e:?}"));
                                (1, d.finish(), pen.n)
                            }
                        }
                    }
                };
                SObs {
                    ostat,
                    outline,
                    ncmd,
                    adv: m.advance_width(g).map(f32::to_bits),
                    lsb: m.left_side_bearing(g).map(f32::to_bits),
                }
            })
            .collect()
    }
}

fn make_settings(font: &FontRef, seed: u64, name: &str) -> Vec<Setting> {
    let n_axes = font.axes().len();
    let mut locs: Vec<(Vec<F2Dot14>, String)> = vec![(vec![], "default".into())];
    if n_axes > 0 {
        let lo = F2Dot14::from_f32(-1.0);
        let hi = F2Dot14::from_f32(1.0);
        let zero = F2Dot14::from_f32(0.0);
        locs.push((vec![lo; n_axes], "all-min".into()));
        locs.push((vec![hi; n_axes], "all-max".into()));
        if n_axes > 1 {
            for a in 0..n_axes.min(2) {
                let mut v = vec![zero; n_axes];
                v[a] = if a == 0 { hi } else { lo };
                locs.push((v, format!("axis{a}-extreme")));
            }
        }
        let mut rng = Rng::derive(seed, &format!("c17-loc:{name}"), 0);
        for k in 0..2 {
            let v: Vec<F2Dot14> = (0..n_axes).map(|_| F2Dot14::from_bits(rng.range(-16384, 16384) as i16)).collect();
            locs.push((v, format!("random{k}")));
        }
    }
    let mut out = vec![];
    for (coords, ll) in &locs {
        for ppem in [None, Some(16.0f32), Some(113.0f32)] {
            out.push(Setting {
                ppem,
                coords: coords.clone(),
                is_default_loc: coords.iter().all(|c| c.to_bits() == 0),
                label: format!("{}@{}", ppem.map(|p| p.to_string()).unwrap_or("unscaled".into()), ll),
            });
        }
    }
    out
}

// ------------------------------------------------------------------ view of a font to subset from

/// A font that is being subset (a corpus font, or — for idempotence — a
/// subset of one), with what the oracle needs to know about it.
struct View {
    /// corpus font name (root font for idempotence views)
    name: String,
    path: String,
    data: Arc<Vec<u8>>,
    index: Option<u32>,
    n_glyphs: u32,
    /// (codepoint, gid) of the skrifa charmap, sorted, gid < n_glyphs
    mappings: Vec<(u32, u32)>,
    map: HashMap<u32, u32>,
    /// component glyph ids of composite glyphs
    comps: Vec<Vec<u32>>,
    selectors: Vec<u32>,
    has_hvar: bool,
    has_gvar: bool,
    kinds: Vec<&'static str>,
    settings: Rc<Vec<Setting>>,
    /// (platform, encoding, format) of the subtable skrifa's charmap uses
    chosen_cmap: Option<(u16, u16, u16)>,
    cache: RefCell<HashMap<u32, Rc<Vec<SObs>>>>,
}

fn open_font(data: &[u8], index: Option<u32>) -> Option<FontRef<'_>> {
    match index {
        None => FontRef::new(data).ok(),
        Some(i) => FontRef::from_index(data, i).ok(),
    }
}

fn platform_u16(p: PlatformId) -> u16 {
    match p {
        PlatformId::Unicode => 0,
        PlatformId::Macintosh => 1,
        PlatformId::ISO => 2,
        PlatformId::Windows => 3,
        PlatformId::Custom => 4,
        _ => 0xFFFF,
    }
}

/// Re-implementation of skrifa's subtable choice (charmap.rs MappingSelection)
/// only used to *explain* a refutation (signature class), never to decide one.
fn chosen_cmap_record(cmap: &Cmap) -> Option<(u16, u16, u16)> {
    let mut best: Option<(u8, (u16, u16, u16))> = None;
    for rec in cmap.encoding_records().iter().rev() {
        let Ok(st) = rec.subtable(cmap.offset_data()) else { continue };
        let fmt = st.format();
        if fmt != 4 && fmt != 12 {
            continue;
        }
        let p = platform_u16(rec.platform_id());
        let e = rec.encoding_id();
        let kind = match (p, e) {
            (0, 5) => 0,
            (3, 0) => 3,
            (3, 10) | (0, 4) => 2,
            (2, _) | (0, _) | (3, 1) => 1,
            _ => 0,
        };
        if kind > best.map(|b| b.0).unwrap_or(0) {
            best = Some((kind, (p, e, fmt)));
        }
    }
    best.map(|b| b.1)
}

fn klippa_retains(p: u16, e: u16) -> bool {
    matches!((p, e), (0, 3) | (0, 4) | (3, 1) | (3, 10))
}

impl View {
    /// None if the font is not a glyf-flavoured font skrifa can open.
    fn build(
        name: &str,
        path: &str,
        data: Arc<Vec<u8>>,
        index: Option<u32>,
        settings: Option<Rc<Vec<Setting>>>,
        seed: u64,
    ) -> Result<View, String> {
        let d = data.clone();
        let font = open_font(&d, index).ok_or("not a font")?;
        let glyf = font.glyf().map_err(|_| "no glyf")?;
        let loca = font.loca(None).map_err(|_| "no loca")?;
        let maxp = font.maxp().map_err(|_| "no maxp")?;
        font.head().map_err(|_| "no head")?;
        // cmap is a required table and klippa::Plan::new documents that it
        // expects one (`expect("Error reading cmap table")`): out of domain
        font.cmap().map_err(|_| "no cmap")?;
        let n_glyphs = maxp.num_glyphs() as u32;
        let n_all = (loca.len() as u32).max(n_glyphs);
        let charmap = font.charmap();
        let mut mappings: Vec<(u32, u32)> = vec![];
        for (c, g) in charmap.mappings() {
            let g = g.to_u32();
            if g < n_glyphs && charmap.map(c).map(|x| x.to_u32()) == Some(g) {
                mappings.push((c, g));
            }
        }
        mappings.sort_unstable();
        mappings.dedup_by_key(|m| m.0);
        let map: HashMap<u32, u32> = mappings.iter().copied().collect();
        let mut comps = vec![vec![]; n_all as usize];
        for g in 0..n_all {
            if let Ok(Some(Glyph::Composite(c))) = loca.get_glyf(GlyphId::new(g), &glyf) {
                comps[g as usize] = c.components().map(|c| c.glyph.to_u32()).collect();
            }
        }
        let mut selectors = vec![];
        let mut chosen = None;
        if let Ok(cmap) = font.cmap() {
            chosen = chosen_cmap_record(&cmap);
            for rec in cmap.encoding_records() {
                if let Ok(CmapSubtable::Format14(c14)) = rec.subtable(cmap.offset_data()) {
                    selectors.extend(c14.var_selector().iter().map(|s| s.var_selector().to_u32()));
                }
            }
        }
        let mut kinds = vec![];
        if font.fvar().is_ok() {
            kinds.push("variable");
        } else {
            kinds.push("static");
        }
        if font.gvar().is_ok() {
            kinds.push("gvar");
        }
        if font.hvar().is_ok() {
            kinds.push("HVAR");
        }
        if font.colr().is_ok() {
            kinds.push("COLR");
        }
        if comps.iter().any(|c| !c.is_empty()) {
            kinds.push("composites");
        }
        if !selectors.is_empty() {
            kinds.push("cmap14");
        }
        let settings = match settings {
            Some(s) => s,
            None => Rc::new(make_settings(&font, seed, name)),
        };
        Ok(View {
            name: name.to_string(),
            path: path.to_string(),
            index,
            n_glyphs: n_all,
            mappings,
            map,
            comps,
            selectors,
            has_hvar: font.hvar().is_ok(),
            has_gvar: font.gvar().is_ok(),
            kinds,
            settings,
            chosen_cmap: chosen,
            cache: RefCell::new(HashMap::new()),
            data,
        })
    }

    fn obs(&self, observer: &Observer, gid: u32) -> Rc<Vec<SObs>> {
        if let Some(o) = self.cache.borrow().get(&gid) {
            return o.clone();
        }
        let o = Rc::new(observer.obs(gid));
        self.cache.borrow_mut().insert(gid, o.clone());
        o
    }
}

// ------------------------------------------------------------------ requests

#[derive(Clone, Debug, Default)]
struct Req {
    chars: Vec<u32>,
    gids: Vec<u32>,
    flags: u16,
    /// generator shape, evidence only
    shape: &'static str,
}

impl Req {
    fn digest(&self, font_id: &str) -> u64 {
        let mut d = Digest::new();
        d.str(font_id);
        for c in &self.chars {
            d.u32(*c);
        }
        d.bytes(&[0xfe]);
        for g in &self.gids {
            d.u32(*g);
        }
        d.u32(self.flags as u32);
        d.finish()
    }
    fn json(&self) -> Value {
        json!({"chars": ranges(&self.chars), "n_chars": self.chars.len(), "gids": ranges(&self.gids), "n_gids": self.gids.len(), "flags": self.flags, "flag_names": flag_names(self.flags), "shape": self.shape})
    }
    fn retain(&self) -> bool {
        self.flags & F_RETAIN_GIDS != 0
    }
}

/// "3,7-12,40" (decimal, sorted input)
fn ranges(v: &[u32]) -> String {
    let mut out = String::new();
    let mut i = 0;
    while i < v.len() {
        let mut j = i;
        while j + 1 < v.len() && v[j + 1] == v[j] + 1 {
            j += 1;
        }
        if !out.is_empty() {
            out.push(',');
        }
        if j > i {
            out.push_str(&format!("{}-{}", v[i], v[j]));
        } else {
            out.push_str(&format!("{}", v[i]));
        }
        i = j + 1;
    }
    out
}

fn parse_ranges(s: &str) -> Option<Vec<u32>> {
    let mut v = vec![];
    for p in s.split(',').filter(|p| !p.is_empty()) {
        if let Some((a, b)) = p.split_once('-') {
            let (a, b): (u32, u32) = (a.parse().ok()?, b.parse().ok()?);
            v.extend(a..=b);
        } else {
            v.push(p.parse().ok()?);
        }
    }
    Some(v)
}

fn make_plan(font: &FontRef, req: &Req) -> Plan {
    let mut gids: IntSet<GlyphId> = IntSet::empty();
    for g in &req.gids {
        gids.insert(GlyphId::new(*g));
    }
    let mut unicodes: IntSet<u32> = IntSet::empty();
    for c in &req.chars {
        unicodes.insert(*c);
    }
    // defaults of the klippa CLI (klippa/src/main.rs)
    let drop_tables: IntSet<Tag> = [
        b"morx", b"mort", b"kerx", b"kern", b"JSTF", b"DSIG", b"EBDT", b"EBLC", b"EBSC", b"SVG ", b"PCLT", b"LTSH",
        b"feat", b"Glat", b"Gloc", b"Silf", b"Sill",
    ]
    .iter()
    .map(|t| Tag::new(*t))
    .collect();
    let mut name_ids: IntSet<NameId> = IntSet::empty();
    name_ids.insert_range(NameId::from(0)..=NameId::from(6));
    let mut name_languages: IntSet<u16> = IntSet::empty();
    name_languages.insert(0x0409);
    let mut layout_scripts: IntSet<Tag> = IntSet::empty();
    layout_scripts.invert();
    let mut layout_features: IntSet<Tag> = IntSet::empty();
    layout_features.extend(DEFAULT_LAYOUT_FEATURES.iter().copied());
    Plan::new(
        &gids,
        &unicodes,
        font,
        SubsetFlags::from(req.flags),
        &drop_tables,
        &layout_scripts,
        &layout_features,
        &name_ids,
        &name_languages,
    )
}

enum SubOut {
    Ok(Vec<u8>),
    Err(String),
    Panic,
}

fn call_subset(ctx: &mut Ctx, view: &View, level: &str, req: &Req) -> SubOut {
    let Some(font) = open_font(&view.data, view.index) else {
        ctx.inconclusive(format!("cannot reopen view {}", view.name));
        return SubOut::Err("harness".into());
    };
    let label = || format!("{}:{}:{}", level, view.name, req.json());
    let r = ctx.run_case(&label, Some(&view.data), &|| {
        let plan = make_plan(&font, req);
        subset_font(&font, &plan).map_err(|e| format!("{e}"))
    });
    match r {
        Ok(Ok(b)) => SubOut::Ok(b),
        Ok(Err(e)) => SubOut::Err(e),
        Err(p) => {
            ctx.count("subset_panic", 1);
            ctx.judge_panic(
                &p,
                "klippa::Plan::new + subset_font",
                json!({"font": view.name, "path": view.path, "level": level, "request": req.json()}),
                None,
            );
            SubOut::Panic
        }
    }
}

// ------------------------------------------------------------------ expectations from the plan semantics

struct Expect {
    /// retained characters (requested and mapped, or mapping to a requested glyph), sorted
    chars: Vec<(u32, u32)>,
    /// glyphs the property demands: requested ∪ glyphs of retained chars ∪ .notdef ∪ components
    r_min: BTreeSet<u32>,
    /// glyphs the plan retains according to its semantics (⊇ r_min)
    r_full: BTreeSet<u32>,
}

fn composite_closure(view: &View, seed: &BTreeSet<u32>) -> BTreeSet<u32> {
    let mut out = BTreeSet::new();
    let mut stack: Vec<u32> = seed.iter().copied().collect();
    while let Some(g) = stack.pop() {
        if g >= view.n_glyphs || !out.insert(g) {
            continue;
        }
        for c in &view.comps[g as usize] {
            stack.push(*c);
        }
    }
    out
}

fn expectations(view: &View, font: &FontRef, req: &Req) -> Expect {
    let gidset: BTreeSet<u32> = req.gids.iter().copied().collect();
    let charset: BTreeSet<u32> = req.chars.iter().copied().collect();
    let mut chars = vec![];
    if gidset.is_empty() {
        for c in &charset {
            if let Some(g) = view.map.get(c) {
                chars.push((*c, *g));
            }
        }
    } else {
        for (c, g) in &view.mappings {
            if charset.contains(c) || gidset.contains(g) {
                chars.push((*c, *g));
            }
        }
    }
    let mut seed: BTreeSet<u32> = BTreeSet::new();
    seed.insert(0);
    for (_, g) in &chars {
        seed.insert(*g);
    }
    for g in &gidset {
        if *g < view.n_glyphs {
            seed.insert(*g);
        }
    }
    let r_min = composite_closure(view, &seed);

    // the plan's closures that may add glyphs beyond the property's minimum
    let mut gs: IntSet<GlyphId> = seed.iter().map(|g| GlyphId::new(*g)).collect();
    if let Ok(cmap) = font.cmap() {
        let mut unicodes: IntSet<u32> = chars.iter().map(|c| c.0).collect();
        for s in &view.selectors {
            if charset.contains(s) {
                unicodes.insert(*s);
            }
        }
        cmap.closure_glyphs(&unicodes, &mut gs);
    }
    let mut colred: IntSet<GlyphId> = IntSet::empty();
    if let Ok(colr) = font.colr() {
        colr.v0_closure_glyphs(&gs, &mut colred);
        let mut a = IntSet::empty();
        let mut b = IntSet::empty();
        let mut c = IntSet::empty();
        colr.v1_closure(&mut colred, &mut a, &mut b, &mut c);
    } else {
        colred = gs.clone();
    }
    let seed_full: BTreeSet<u32> = colred.iter().map(|g| g.to_u32()).filter(|g| *g < view.n_glyphs).collect();
    let mut r_full = composite_closure(view, &seed_full);
    for g in &r_min {
        r_full.insert(*g);
    }
    Expect { chars, r_min, r_full }
}

// ------------------------------------------------------------------ defect-class explanation (cmap format 4)

/// Is `c` served, in this format-4 subtable, by a segment with a non-zero
/// idRangeOffset that is preceded by at least one other such segment? That
/// is exactly the situation in which `serialize_rangeoffset_glyph_ids`
/// (klippa/src/cmap.rs) computes a wrong idRangeOffset (DESIGN §5 #6).
fn in_later_rangeoffset_segment(c4: &Cmap4, c: u32) -> bool {
    if c > 0xFFFF {
        return false;
    }
    let ends = c4.end_code();
    let starts = c4.start_code();
    let ros = c4.id_range_offsets();
    let mut earlier = 0;
    for i in 0..ends.len().min(starts.len()).min(ros.len()) {
        let (s, e, ro) = (starts[i].get() as u32, ends[i].get() as u32, ros[i].get());
        if s == 0xFFFF && e == 0xFFFF {
            break;
        }
        if ro != 0 {
            if s <= c && c <= e {
                return earlier >= 1;
            }
            earlier += 1;
        } else if s <= c && c <= e {
            return false;
        }
    }
    false
}

fn any_format4_later_rangeoffset(sub: &FontRef, c: u32) -> bool {
    let Ok(cmap) = sub.cmap() else { return false };
    for rec in cmap.encoding_records() {
        if let Ok(CmapSubtable::Format4(c4)) = rec.subtable(cmap.offset_data()) {
            if in_later_rangeoffset_segment(&c4, c) {
                return true;
            }
        }
    }
    false
}

fn count_rangeoffset_segments(sub: &FontRef) -> usize {
    let mut best = 0;
    if let Ok(cmap) = sub.cmap() {
        for rec in cmap.encoding_records() {
            if let Ok(CmapSubtable::Format4(c4)) = rec.subtable(cmap.offset_data()) {
                let n = c4.id_range_offsets().iter().filter(|r| r.get() != 0).count();
                best = best.max(n);
            }
        }
    }
    best
}

// ------------------------------------------------------------------ the check of one (font, request)

#[derive(Clone, Copy, PartialEq)]
enum Kind {
    Direct,
    Everything,
    Idem,
}

impl Kind {
    fn s(&self) -> &'static str {
        match self {
            Kind::Direct => "direct",
            Kind::Everything => "everything",
            Kind::Idem => "idem",
        }
    }
}

struct CaseCtx<'a> {
    view: &'a View,
    req: &'a Req,
    kind: Kind,
    /// for Kind::Idem: the request that produced the view
    root_req: Option<&'a Req>,
}

impl CaseCtx<'_> {
    fn detail(&self, extra: Value) -> Value {
        let mut d = json!({
            "font": self.view.name,
            "path": self.view.path,
            "kind": self.kind.s(),
            "request": self.req.json(),
        });
        if let Some(r) = self.root_req {
            d["root_request"] = r.json();
        }
        if let (Some(o), Some(e)) = (d.as_object_mut(), extra.as_object()) {
            for (k, v) in e {
                o.insert(k.clone(), v.clone());
            }
        }
        d
    }
    fn mode(&self) -> &'static str {
        if self.req.retain() {
            "retain"
        } else {
            "renum"
        }
    }
    fn sig(&self, what: &str) -> String {
        format!("{}:{}:{}:{}", what, self.kind.s(), self.mode(), self.view.name)
    }
}

/// Is this `Err` from subset_font legitimate? Decided from klippa's code:
/// `try_subset` (klippa/src/lib.rs) gives up when a table would need more
/// than 256 × the source table's size (same limit as hb-subset). For cmap
/// that is reachable with a well-formed font: a tiny source cmap (a few big
/// format-12 groups) and a scattered request needing one 12-byte group per
/// character run.
fn legitimate_error(view: &View, font: &FontRef, req: &Req, err: &str) -> Option<String> {
    if !err.contains("'cmap'") {
        return None;
    }
    let src_len = font.data_for_tag(Tag::new(b"cmap")).map(|d| d.len()).unwrap_or(0);
    let ex = expectations(view, font, req);
    // lower bound of the number of format-12 groups: runs of consecutive code points
    let mut groups = 0usize;
    let mut prev: Option<u32> = None;
    for (c, _) in &ex.chars {
        if prev.map(|p| p + 1 != *c).unwrap_or(true) {
            groups += 1;
        }
        prev = Some(*c);
    }
    let need = 16 + 12 * groups;
    // try_subset starts from estimate_subset_table_size (>= 8192) and doubles
    // (2n + 16) while the result stays <= 256 x source length
    let mut reachable = 8192 + src_len;
    while reachable * 2 + 16 <= src_len * 256 {
        reachable = reachable * 2 + 16;
    }
    if need > reachable {
        Some(format!("format-12 subtable alone needs {} bytes > {} bytes, the largest buffer klippa/src/lib.rs try_subset grows to for a {}-byte source cmap (256 x limit)", need, reachable, src_len))
    } else {
        None
    }
}

/// Returns the subset bytes and old→new relation if the case could be fully
/// evaluated (used by the idempotence step).
fn check_case(ctx: &mut Ctx, cc: &CaseCtx) -> Option<(Vec<u8>, HashMap<u32, u32>)> {
    let view = cc.view;
    let req = cc.req;
    ctx.eval();
    ctx.count(&format!("cases:{}", cc.kind.s()), 1);
    let out = match call_subset(ctx, view, cc.kind.s(), req) {
        SubOut::Ok(b) => b,
        SubOut::Panic => return None,
        SubOut::Err(e) => {
            ctx.count(&format!("subset_error:{}", e), 1);
            ctx.label("subset_error_fonts", &format!("{} [{}]", view.name, e));
            let legit = open_font(&view.data, view.index).and_then(|f| legitimate_error(view, &f, req, &e));
            if let Some(why) = legit {
                ctx.count("subset_error_legitimate", 1);
                ctx.label("subset_error_legitimate", &format!("{}: {} (would exceed klippa's 256 x source-table size limit, lib.rs try_subset)", view.name, e));
                ctx.sample_by_kind("legitimate-subset-error", json!({"font": view.name, "error": e, "why": why, "n_chars": req.chars.len()}));
                return None;
            }
            let tag = e.split('\'').nth(1).unwrap_or("?").to_string();
            let sig = format!("subset-error:{}:{}", tag.trim(), view.name);
            ctx.violation(&sig, cc.detail(json!({"error": e})), None);
            return None;
        }
    };
    ctx.count("subset_ok", 1);

    let Some(orig) = open_font(&view.data, view.index) else { return None };
    // (1) the subset reopens as a font
    let sub = match FontRef::new(&out) {
        Ok(f) => f,
        Err(e) => {
            ctx.violation(&cc.sig("reopen"), cc.detail(json!({"error": format!("{e:?}"), "subset_len": out.len()})), None);
            return None;
        }
    };
    let n_sub = match sub.maxp() {
        Ok(m) => m.num_glyphs() as u32,
        Err(e) => {
            ctx.violation(&cc.sig("reopen-maxp"), cc.detail(json!({"error": format!("{e:?}")})), None);
            return None;
        }
    };
    if sub.head().is_err() || sub.glyf().is_err() || sub.loca(None).is_err() {
        ctx.violation(&cc.sig("reopen-tables"), cc.detail(json!({"head": sub.head().is_ok(), "glyf": sub.glyf().is_ok(), "loca": sub.loca(None).is_ok()})), None);
        return None;
    }

    // (1a) maxp and loca must agree on the number of glyphs
    if let Ok(l) = sub.loca(None) {
        if l.len() as u32 != n_sub {
            ctx.violation(
                &cc.sig("maxp-loca-glyph-count"),
                cc.detail(json!({"maxp_num_glyphs": n_sub, "loca_glyphs": l.len()})),
                None,
            );
            return None;
        }
    }
    // (1b) loca must not point past the end of glyf
    let mut glyf_corrupt = false;
    if let (Ok(l), Ok(g), Ok(h)) = (sub.loca(None), sub.glyf(), sub.head()) {
        let glyf_len = g.offset_data().len() as u32;
        let last = l.get_raw(l.len()).unwrap_or(0);
        let long = h.index_to_loc_format() != 0;
        if last > glyf_len || !l.all_offsets_are_ascending() {
            glyf_corrupt = true;
            ctx.violation(
                &format!("loca-past-glyf-end:{}:{}", if long { "long" } else { "short" }, view.name),
                cc.detail(json!({"loca_format": if long { "long" } else { "short" }, "last_loca_offset": last, "glyf_length": glyf_len, "excess": last as i64 - glyf_len as i64, "ascending": l.all_offsets_are_ascending(), "subset_num_glyphs": n_sub})),
                None,
            );
        }
    }

    // (2) glyph set and the renumbering relation
    let ex = expectations(view, &orig, req);
    let retain = req.retain();
    let need = if retain {
        ex.r_min.iter().next_back().map(|g| g + 1).unwrap_or(1)
    } else {
        ex.r_min.len() as u32
    };
    if n_sub < need {
        ctx.violation(
            &cc.sig("glyph-missing"),
            cc.detail(json!({"subset_num_glyphs": n_sub, "needed_at_least": need, "r_min": ex.r_min.len()})),
            None,
        );
        return None;
    }
    let expected_n = if retain {
        ex.r_full.iter().next_back().map(|g| g + 1).unwrap_or(1)
    } else {
        ex.r_full.len() as u32
    };
    if ex.r_full.len() > ex.r_min.len() {
        ctx.count("cases_with_closure_superset", 1);
    }
    if n_sub != expected_n {
        // the relation cannot be recovered: nothing the property demands is
        // known to be missing, so this is not a refutation.
        ctx.count("relation_unrecoverable", 1);
        ctx.inconclusive(format!(
            "{}: subset has {} glyphs, plan semantics give {} (r_min {}), request {}",
            view.name,
            n_sub,
            expected_n,
            ex.r_min.len(),
            req.json()
        ));
        return None;
    }
    if cc.kind == Kind::Everything && n_sub != view.n_glyphs {
        ctx.violation(&cc.sig("everything-glyph-count"), cc.detail(json!({"subset_num_glyphs": n_sub, "original": view.n_glyphs})), None);
    }
    let mut rel: HashMap<u32, u32> = HashMap::with_capacity(ex.r_full.len());
    for (i, g) in ex.r_full.iter().enumerate() {
        rel.insert(*g, if retain { *g } else { i as u32 });
    }

    // (3) every kept glyph: same outline / advance / lsb at every size and location
    let settings: &[Setting] = &view.settings;
    let oobs = Observer::new(&orig, settings);
    let sobs = Observer::new(&sub, settings);
    let notdef_kept = req.flags & F_NOTDEF_OUTLINE != 0;
    let hvar_dropped = view.has_hvar && sub.hvar().is_err();
    // glyphs whose component closure contains .notdef
    let uses_notdef = |g: u32| -> bool {
        if g == 0 || view.comps[g as usize].is_empty() {
            return false;
        }
        let mut one = BTreeSet::new();
        one.insert(g);
        composite_closure(view, &one).contains(&0)
    };
    let mut compared = 0u64;
    let mut bad_glyphs = 0;
    let mut kept_nonempty = 0u64;
    for (&g, &ng) in ex.r_full.iter().map(|g| (g, &rel[g])) {
        let a = view.obs(&oobs, g);
        let b = sobs.obs(ng);
        let is_notdef_emptied = g == 0 && !notdef_kept;
        for (i, (x, y)) in a.iter().zip(b.iter()).enumerate() {
            let st = &settings[i];
            let mut diff: Option<&'static str> = None;
            if is_notdef_emptied {
                // without NOTDEF_OUTLINE the outline (and with it gvar data,
                // which also carries phantom-point metric deltas when there
                // is no HVAR) may be dropped: only hmtx/HVAR metrics are promised
                if st.is_default_loc || view.has_hvar || !view.has_gvar {
                    if x.adv != y.adv {
                        diff = Some("advance");
                    } else if x.lsb != y.lsb {
                        diff = Some("lsb");
                    }
                }
            } else {
                if x.ostat == 1 {
                    ctx.count("orig_draw_error_skipped", 1);
                } else if glyf_corrupt {
                    // already reported: every outline after the first odd-sized glyph is garbage
                } else if x.ostat != y.ostat || x.outline != y.outline || x.ncmd != y.ncmd {
                    diff = Some("outline");
                }
                if diff.is_none() {
                    if x.adv != y.adv {
                        diff = Some("advance");
                    } else if x.lsb != y.lsb {
                        diff = Some("lsb");
                    }
                }
                if i == 0 && x.ostat == 0 && x.ncmd > 0 {
                    kept_nonempty += 1;
                }
            }
            compared += 1;
            if let Some(what) = diff {
                bad_glyphs += 1;
                if bad_glyphs <= 3 {
                    let who = if g == 0 { "notdef" } else { "glyph" };
                    let sig = if what == "outline" && !notdef_kept && uses_notdef(g) {
                        // .notdef is emptied (no NOTDEF_OUTLINE) although a kept composite uses it as a component
                        format!("glyph-differs:composite-of-emptied-notdef:{}", view.name)
                    } else if what != "outline" && hvar_dropped && !st.is_default_loc {
                        // HVAR was dropped from the subset: skrifa falls back to gvar phantom deltas
                        format!("metrics-differ:hvar-dropped:{}", view.name)
                    } else {
                        cc.sig(&format!("glyph-differs:{}:{}", what, who))
                    };
                    ctx.violation(
                        &sig,
                        cc.detail(json!({
                            "old_gid": g, "new_gid": ng, "setting": st.label,
                            "original": {"draw_status": x.ostat, "commands": x.ncmd, "outline_digest": format!("{:016x}", x.outline), "advance": x.adv.map(f32::from_bits), "lsb": x.lsb.map(f32::from_bits)},
                            "subset": {"draw_status": y.ostat, "commands": y.ncmd, "outline_digest": format!("{:016x}", y.outline), "advance": y.adv.map(f32::from_bits), "lsb": y.lsb.map(f32::from_bits)},
                            "subset_num_glyphs": n_sub, "subset_has_HVAR": sub.hvar().is_ok(), "original_has_HVAR": view.has_hvar,
                        })),
                        None,
                    );
                }
                break;
            }
        }
    }
    ctx.count("glyph_setting_comparisons", compared);
    ctx.count("kept_glyphs_compared", ex.r_full.len() as u64);

    // (3b) components of kept composites are the renumbered components
    if let (false, Ok(sl), Ok(sg)) = (glyf_corrupt, sub.loca(None), sub.glyf()) {
        let mut bad = 0;
        for &g in ex.r_full.iter() {
            let oc = &view.comps[g as usize];
            if oc.is_empty() || (g == 0 && !notdef_kept) {
                continue;
            }
            let want: Vec<Option<u32>> = oc.iter().map(|c| rel.get(c).copied()).collect();
            let got: Vec<Option<u32>> = match sl.get_glyf(GlyphId::new(rel[&g]), &sg) {
                Ok(Some(Glyph::Composite(c))) => c.components().map(|c| Some(c.glyph.to_u32())).collect(),
                _ => vec![],
            };
            ctx.count("composites_checked", 1);
            if want != got && bad < 2 {
                bad += 1;
                ctx.violation(
                    &cc.sig("component-remap"),
                    cc.detail(json!({"old_gid": g, "new_gid": rel[&g], "old_components": oc, "expected_new_components": want, "subset_components": got})),
                    None,
                );
            }
        }
    }

    // (4) characters
    let scm = sub.charmap();
    let mut bad_chars = 0;
    let sub_chosen_format = sub.cmap().ok().and_then(|c| chosen_cmap_record(&c)).map(|c| c.2);
    let report_char = |ctx: &mut Ctx, c: u32, g: u32, got: Option<u32>, where_: &str, seen_in_format4: bool, bad_chars: &mut u32| {
        *bad_chars += 1;
        if *bad_chars > 3 {
            return;
        }
        let want = rel.get(&g).copied();
        let what = if got.is_none() { "cmap-unmapped" } else { "cmap-wrong-glyph" };
        let sig = if seen_in_format4 && any_format4_later_rangeoffset(&sub, c) {
            format!("cmap-wrong-glyph:format4-multi-rangeoffset:{}", view.name)
        } else if !scm.has_map() {
            // the subset has no cmap subtable skrifa can use at all
            format!("cmap-unmapped:no-retained-cmap-subtable:{}", view.name)
        } else {
            cc.sig(what)
        };
        ctx.violation(
            &sig,
            cc.detail(json!({
                "char": format!("U+{:04X}", c), "original_gid": g, "expected_new_gid": want, "subset_maps_to": got, "observed_in": where_,
                "subset_format4_rangeoffset_segments": count_rangeoffset_segments(&sub),
                "original_charmap_subtable(platform,encoding,format)": view.chosen_cmap.map(|c| json!([c.0, c.1, c.2])),
            })),
            None,
        );
    };
    for &(c, g) in &ex.chars {
        let got = scm.map(c).map(|x| x.to_u32());
        if got != rel.get(&g).copied() {
            report_char(ctx, c, g, got, "skrifa charmap", sub_chosen_format == Some(4), &mut bad_chars);
        }
    }
    ctx.count("char_mappings_checked", ex.chars.len() as u64);
    let kept_chars: HashMap<u32, u32> = ex.chars.iter().copied().collect();
    let mut extra = 0;
    let mut n_sub_mappings = 0u64;
    for (c, g2) in scm.mappings() {
        n_sub_mappings += 1;
        if !kept_chars.contains_key(&c) {
            extra += 1;
            if extra <= 2 {
                ctx.violation(
                    &cc.sig("cmap-extra-char"),
                    cc.detail(json!({"char": format!("U+{:04X}", c), "subset_maps_to": g2.to_u32(), "mapped_in_original_to": view.map.get(&c), "requested_as_char": req.chars.contains(&c)})),
                    None,
                );
            }
        }
    }
    ctx.count("subset_mappings_enumerated", n_sub_mappings);
    for c in &req.chars {
        if !view.map.contains_key(c) && !view.selectors.contains(c) {
            if let Some(g2) = scm.map(*c) {
                ctx.violation(
                    &cc.sig("cmap-maps-unmapped-char"),
                    cc.detail(json!({"char": format!("U+{:04X}", c), "subset_maps_to": g2.to_u32()})),
                    None,
                );
                break;
            }
        }
    }
    // (4b) every retained Unicode subtable, not only the one skrifa picks: where
    // the original subtable of the same (platform, encoding) agrees with the
    // original charmap, the subset subtable must give the renumbered glyph.
    if let (Ok(ocmap), Ok(scmap)) = (orig.cmap(), sub.cmap()) {
        let step = (ex.chars.len() / 1500).max(1);
        for srec in scmap.encoding_records() {
            let (p, e) = (platform_u16(srec.platform_id()), srec.encoding_id());
            if !klippa_retains(p, e) {
                continue;
            }
            let Ok(sst) = srec.subtable(scmap.offset_data()) else { continue };
            let Some(orec) = ocmap.encoding_records().iter().find(|r| platform_u16(r.platform_id()) == p && r.encoding_id() == e) else { continue };
            let Ok(ost) = orec.subtable(ocmap.offset_data()) else { continue };
            let lookup = |st: &CmapSubtable, c: u32| -> Option<Option<u32>> {
                match st {
                    CmapSubtable::Format4(t) => Some(t.map_codepoint(c).map(|g| g.to_u32())),
                    CmapSubtable::Format12(t) => Some(t.map_codepoint(c).map(|g| g.to_u32())),
                    _ => None,
                }
            };
            ctx.label("subset_cmap_subtables", &format!("({},{}) format {}", p, e, sst.format()));
            for &(c, g) in ex.chars.iter().step_by(step) {
                let (Some(o), Some(s)) = (lookup(&ost, c), lookup(&sst, c)) else { break };
                if o != Some(g) {
                    continue;
                }
                ctx.count("subtable_mappings_checked", 1);
                if s != rel.get(&g).copied() {
                    report_char(ctx, c, g, s, &format!("cmap subtable ({},{}) format {}", p, e, sst.format()), sst.format() == 4, &mut bad_chars);
                }
            }
        }
    }
    ctx.distinct("format4_rangeoffset_segment_counts", count_rangeoffset_segments(&sub) as u64);

    // evidence
    let nontrivial = ex.r_full.len() >= 2 && kept_nonempty >= 1;
    if nontrivial {
        ctx.nontrivial(fnv64(format!("{}:{}:{:016x}", cc.kind.s(), view.name, req.digest(&view.name)).as_bytes()));
    }
    ctx.distinct("flag_combinations", req.flags as u64);
    ctx.label("request_shapes", req.shape);
    ctx.label("core_flag_sets", &flag_names(req.flags & (F_NO_HINTING | F_RETAIN_GIDS | F_NOTDEF_OUTLINE | F_SET_OVERLAPS)));
    for b in EXTRA_FLAGS {
        if req.flags & b != 0 {
            ctx.label("extra_flags_seen", &flag_names(b));
        }
    }
    if let Ok(h) = sub.head() {
        ctx.label("subset_loca_format", if h.index_to_loc_format() == 0 { "short" } else { "long" });
    }
    if let Ok(hh) = sub.hhea() {
        if (hh.number_of_h_metrics() as u32) < n_sub {
            ctx.count("subsets_with_trimmed_long_metrics", 1);
        }
    }
    if let Ok(gv) = sub.gvar() {
        ctx.label("subset_gvar_offsets", if gv.flags().bits() & 1 != 0 { "long" } else { "short" });
    }
    ctx.sample_by_kind(
        &format!("{}:{}", cc.kind.s(), req.shape),
        json!({"font": view.name, "request": req.json(), "subset_len": out.len(), "subset_num_glyphs": n_sub, "kept": ex.r_full.len(), "required": ex.r_min.len(), "chars_kept": ex.chars.len()}),
    );
    if bad_glyphs == 0 && bad_chars == 0 && !glyf_corrupt {
        ctx.count("cases_all_observations_equal", 1);
        Some((out, rel))
    } else {
        // the subset is already refuted: its idempotence is not examined
        None
    }
}

/// idempotence: subset the subset with the same request (glyph ids taken
/// through the renumbering) and check it like any other subset, the first
/// subset playing the original's role.
fn check_idempotence(ctx: &mut Ctx, view: &View, req: &Req, out: Vec<u8>, rel: &HashMap<u32, u32>, seed: u64) {
    let v1 = match View::build(&view.name, &view.path, Arc::new(out), None, Some(view.settings.clone()), seed) {
        Ok(v) => v,
        Err(e) => {
            if e == "no cmap" {
                // nothing was mapped: klippa drops the empty cmap, and a font
                // without cmap is outside Plan::new's domain
                ctx.count("idem_skipped_subset_has_no_cmap", 1);
            } else {
                ctx.inconclusive(format!("idempotence: cannot build view of subset of {}: {}", view.name, e));
            }
            return;
        }
    };
    let mut gids: Vec<u32> = req.gids.iter().filter_map(|g| rel.get(g).copied()).collect();
    gids.sort_unstable();
    gids.dedup();
    let req2 = Req {
        chars: req.chars.clone(),
        gids,
        flags: req.flags,
        shape: req.shape,
    };
    let cc = CaseCtx {
        view: &v1,
        req: &req2,
        kind: Kind::Idem,
        root_req: Some(req),
    };
    if let Some((out2, _)) = check_case(ctx, &cc) {
        if let Ok(s2) = FontRef::new(&out2) {
            let n2 = s2.maxp().map(|m| m.num_glyphs() as u32).unwrap_or(0);
            if n2 != v1.n_glyphs {
                ctx.count("idem_glyph_count_changed", 1);
            } else {
                ctx.count("idem_glyph_count_same", 1);
            }
        }
    }
}

// ------------------------------------------------------------------ workload

fn pick_flags(rng: &mut Rng) -> u16 {
    let mut f = 0u16;
    for b in CORE_FLAGS {
        if rng.bool() {
            f |= b;
        }
    }
    if rng.chance(1, 3) {
        for b in EXTRA_FLAGS {
            if rng.chance(1, 3) {
                f |= b;
            }
        }
    }
    f
}

fn random_request(view: &View, rng: &mut Rng) -> Req {
    let n = view.mappings.len();
    let mut chars: Vec<u32> = vec![];
    let shape: &'static str;
    let pick_some = |rng: &mut Rng, k: usize| -> Vec<u32> {
        let mut idx: Vec<usize> = (0..n).collect();
        rng.shuffle(&mut idx);
        idx.truncate(k.min(n));
        idx.iter().map(|i| view.mappings[*i].0).collect()
    };
    match rng.below(12) {
        0 => {
            shape = "chars:1";
            chars = pick_some(rng, 1);
        }
        1 => {
            shape = "chars:2";
            chars = pick_some(rng, 2);
        }
        2 | 3 => {
            shape = "chars:few";
            let k = 3 + rng.usize(10);
            chars = pick_some(rng, k);
        }
        4 => {
            shape = "chars:half";
            // capped: a scattered request over a million code points only
            // measures klippa's output-size limit (see legitimate_error)
            chars = pick_some(rng, (n / 2).min(30_000));
        }
        5 => {
            shape = "chars:all-1";
            chars = pick_some(rng, n.saturating_sub(1));
        }
        6 => {
            shape = "chars:all";
            chars = view.mappings.iter().map(|m| m.0).collect();
        }
        7 | 8 => {
            // a window of consecutive mapped characters, thinned: produces
            // cmap segments of every kind (delta runs, range-offset runs)
            shape = "chars:window";
            if n > 0 {
                let w = 2 + rng.usize(60.min(n));
                let s = rng.usize(n.saturating_sub(w) + 1);
                let keep = 1 + rng.below(4);
                for m in &view.mappings[s..(s + w).min(n)] {
                    if rng.below(4) < keep {
                        chars.push(m.0);
                    }
                }
            }
        }
        9 => {
            // two or three distant windows: several range-offset segments
            shape = "chars:multi-window";
            if n > 0 {
                for _ in 0..2 + rng.usize(2) {
                    let w = 2 + rng.usize(12.min(n));
                    let s = rng.usize(n.saturating_sub(w) + 1);
                    for m in &view.mappings[s..(s + w).min(n)] {
                        if rng.below(5) != 0 {
                            chars.push(m.0);
                        }
                    }
                }
            }
        }
        10 => {
            shape = "chars:none";
        }
        _ => {
            shape = "chars:few+unmapped";
            let k = 1 + rng.usize(6);
            chars = pick_some(rng, k);
            for _ in 0..1 + rng.usize(3) {
                chars.push(match rng.below(3) {
                    0 => rng.below(0x300) as u32,
                    1 => 0xE000 + rng.below(0x100) as u32,
                    _ => 0x10000 + rng.below(0x20000) as u32,
                });
            }
        }
    }
    // glyph id requests
    let ng = view.n_glyphs.max(1);
    let mut gids: Vec<u32> = vec![];
    let gshape = rng.below(10);
    match gshape {
        0..=4 => {}
        5 => gids.push(rng.below(ng as u64) as u32),
        6 => {
            for _ in 0..2 + rng.usize(8) {
                gids.push(rng.below(ng as u64) as u32);
            }
        }
        7 => {
            let s = rng.below(ng as u64) as u32;
            let l = 1 + rng.below(20) as u32;
            for g in s..(s + l).min(ng) {
                gids.push(g);
            }
        }
        8 => {
            // composites, which pull in components
            let comps: Vec<u32> = (0..view.n_glyphs).filter(|g| !view.comps[*g as usize].is_empty()).collect();
            if !comps.is_empty() {
                for _ in 0..1 + rng.usize(4) {
                    gids.push(*rng.pick(&comps));
                }
            } else {
                gids.push(ng - 1);
            }
        }
        _ => {
            gids.push(ng - 1);
            if rng.bool() {
                // an id the font does not have: must be ignored
                gids.push(ng + rng.below(100) as u32);
            }
        }
    }
    if chars.is_empty() && gids.is_empty() && rng.below(4) != 0 {
        gids.push(rng.below(ng as u64) as u32);
    }
    chars.sort_unstable();
    chars.dedup();
    gids.sort_unstable();
    gids.dedup();
    Req {
        chars,
        gids,
        flags: pick_flags(rng),
        shape,
    }
}

fn everything_request(view: &View, flags: u16) -> Req {
    Req {
        chars: view.mappings.iter().map(|m| m.0).collect(),
        gids: (0..view.n_glyphs).collect(),
        flags,
        shape: "everything",
    }
}

fn load_views(ctx: &mut Ctx) -> Vec<View> {
    let mut fonts = vf_core::corpus_fonts();
    fonts.extend(vf_core::klippa_fonts());
    // built fonts (built.rs): corpus fonts with an HVAR made to exercise object sharing
    let mut built_fonts = vec![];
    for base in built::BASES {
        if let Some(f) = fonts.iter().find(|f| f.name == base) {
            for variant in built::VARIANTS {
                let r = vf_core::guard(std::panic::AssertUnwindSafe(|| built::build(&f.data, variant)));
                match r {
                    Ok(Ok(data)) => built_fonts.push(vf_core::CorpusFont { name: built::name_of(base, variant), path: format!("built:{}:{}", variant, f.path.to_string_lossy()).into(), data: Arc::new(data) }),
                    Ok(Err(e)) => ctx.inconclusive(format!("built font {base}/{variant}: {e}")),
                    Err(p) => ctx.inconclusive(format!("built font {base}/{variant}: panic while building: {}", p.msg)),
                }
            }
        } else if ctx.shard.0 == 0 {
            ctx.count("built_fonts:base_missing", 1);
        }
    }
    fonts.extend(built_fonts);
    let mut seen = BTreeSet::new();
    let mut views = vec![];
    for f in fonts {
        if !seen.insert(fnv64(&f.data)) {
            if ctx.shard.0 == 0 {
                ctx.count("fonts_duplicate_skipped", 1);
            }
            continue;
        }
        let index = if f.name.ends_with(".ttc") { Some(0) } else { None };
        match View::build(&f.name, &f.path.to_string_lossy(), f.data.clone(), index, None, ctx.seed) {
            Ok(v) => views.push(v),
            Err(why) => {
                if ctx.shard.0 == 0 {
                    ctx.count(&format!("fonts_skipped:{}", why), 1);
                    if why != "no glyf" {
                        ctx.label("fonts_skipped", &format!("{} ({})", f.name, why));
                    }
                }
            }
        }
    }
    views.sort_by(|a, b| a.name.cmp(&b.name));
    // names are used in signatures: they must be unique
    let mut names = BTreeSet::new();
    for v in views.iter_mut() {
        if !names.insert(v.name.clone()) {
            v.name = format!("{}#{:08x}", v.name, fnv64(&v.data) as u32);
            names.insert(v.name.clone());
        }
    }
    views
}

fn exhaustive_max_chars(thorough: bool) -> usize {
    if thorough {
        14
    } else {
        13
    }
}

pub fn run(ctx: &mut Ctx, args: &Args) {
    ctx.policy = PanicPolicy::Any;
    ctx.rule = "a (font, request, flags) case counts when klippa produced a subset whose retained set has at least two glyphs of which at least one (other than an emptied .notdef) draws a non-empty outline, and all of its kept glyphs, characters and components were compared with the original; digest = kind + font + requested chars + requested gids + flags. Serializer stress cases (ser.rs) count when the case holds two equal-length objects that are true twins or near twins (same first 128 bytes and links but a different tail, or same bytes but different links); digest = the object descriptions".into();
    ctx.assumptions = vec![
        "observations are those of skrifa (charmap, unhinted draw, glyph_metrics); hinted output and layout tables are out of scope".into(),
        "old→new glyph relation is recovered from the plan semantics (rank in the retained set, identity under retain-gids) and cross-checked against the subset's glyph count; a count mismatch that keeps all demanded glyphs is reported as inconclusive".into(),
        "without NOTDEF_OUTLINE only .notdef's hmtx/HVAR metrics are asserted".into(),
        "glyphs whose draw fails in the original font are not compared".into(),
    ];
    let inventory = args.extra.iter().any(|a| a == "--inventory");
    let views = load_views(ctx);
    let mut item = 0usize;
    let thorough = ctx.tier.is_thorough();
    // debugging aid: VF_C17_ONLY=ser runs only the serializer stress, =built only the built fonts
    let only = std::env::var("VF_C17_ONLY").unwrap_or_default();
    if !inventory && only != "built" {
        let t0 = ctx.elapsed_s();
        ser::run(ctx, &mut item);
        let t1 = ctx.elapsed_s();
        ctx.extra.insert("serializer_stress_seconds_this_shard".into(), json!(t1 - t0));
    }
    let mut all_exhaustive = true;
    for view in &views {
        if only == "ser" || (only == "built" && !view.path.starts_with("built:")) {
            continue;
        }
        let k = view.mappings.len();
        ctx.label("fonts", &format!("{} [{} glyphs, {} chars, {} settings, {}]", view.name, view.n_glyphs, k, view.settings.len(), view.kinds.join("+")));
        for kd in &view.kinds {
            ctx.label("font_kinds", kd);
        }
        if inventory {
            eprintln!("{:50} glyphs {:6} chars {:6} settings {:3} {:?} cmap {:?}", view.name, view.n_glyphs, k, view.settings.len(), view.kinds, view.chosen_cmap);
            continue;
        }
        // Cases are described first and materialised only by the shard that
        // runs them (a request can hold a million code points).
        enum Spec {
            Everything(u16),
            Exhaustive(u32, u16, bool),
            Single(u32, u16, bool),
            Random(u64),
            /// built fonts: keep a large random part of the glyph ids
            LargeKeep(u64),
        }
        let mut specs: Vec<Spec> = vec![];
        let is_built = view.path.starts_with("built:");
        // subset-to-everything under several flag sets
        let ev_flags: &[u16] = if thorough {
            &[0, F_RETAIN_GIDS, F_NOTDEF_OUTLINE, F_NOTDEF_OUTLINE | F_RETAIN_GIDS | F_NO_HINTING, F_NO_HINTING | F_SET_OVERLAPS]
        } else {
            &[F_NOTDEF_OUTLINE, F_RETAIN_GIDS]
        };
        for f in ev_flags {
            specs.push(Spec::Everything(*f));
        }
        let big = view.n_glyphs > 2000;
        let huge_charset = k > 50_000;
        if is_built {
            specs.push(Spec::Everything(0));
            specs.push(Spec::Everything(F_NOTDEF_OUTLINE | F_RETAIN_GIDS | F_NO_HINTING));
            for i in 0..ctx.tier.pick(40u64, 1500) {
                specs.push(Spec::LargeKeep(i));
            }
            if ctx.shard.0 == 0 {
                ctx.count("built_fonts", 1);
            }
        }
        if is_built {
            all_exhaustive = false;
        } else if k <= exhaustive_max_chars(thorough) {
            // exhaustive over all subsets of the mapped characters
            let flagsets: &[u16] = if thorough {
                &[
                    0,
                    F_RETAIN_GIDS,
                    F_NOTDEF_OUTLINE | F_NO_HINTING,
                    F_RETAIN_GIDS | F_NOTDEF_OUTLINE | F_SET_OVERLAPS,
                    F_NOTDEF_OUTLINE,
                    F_RETAIN_GIDS | F_NO_HINTING,
                    F_SET_OVERLAPS | F_GLYPH_NAMES | F_NO_LAYOUT_CLOSURE,
                    F_RETAIN_GIDS | F_NOTDEF_OUTLINE | F_NO_HINTING | F_SET_OVERLAPS | F_PASSTHROUGH,
                ]
            } else {
                &[0, F_RETAIN_GIDS]
            };
            for mask in 0u32..(1u32 << k) {
                for f in flagsets {
                    let idem = thorough || (mask.wrapping_mul(2654435761) >> 16) % 4 == 0;
                    specs.push(Spec::Exhaustive(mask, *f, idem));
                }
            }
            if ctx.shard.0 == 0 {
                ctx.count("fonts_exhaustive", 1);
                ctx.count("exhaustive_char_subsets", 1u64 << k);
            }
        } else {
            all_exhaustive = false;
        }
        // every glyph alone, requested by id: per-glyph data of every table is
        // exercised for every glyph (and closure, renumbering to gid 1..)
        if !is_built {
            let stride = if thorough || view.n_glyphs <= 1400 { 1 } else { (view.n_glyphs / 400).max(1) };
            let mut g = 0;
            while g < view.n_glyphs {
                let fl: &[u16] = if thorough {
                    &[0, F_RETAIN_GIDS | F_NOTDEF_OUTLINE]
                } else if g % 2 == 0 {
                    &[0]
                } else {
                    &[F_RETAIN_GIDS | F_NOTDEF_OUTLINE]
                };
                for f in fl {
                    specs.push(Spec::Single(g, *f, thorough && !big));
                }
                g += stride;
            }
        }
        let n_random: u64 = if is_built {
            ctx.tier.pick(40, 1500)
        } else if huge_charset {
            ctx.tier.pick(100, 600)
        } else if k <= exhaustive_max_chars(thorough) {
            ctx.tier.pick(300, 8000)
        } else if big {
            ctx.tier.pick(600, 24000)
        } else {
            ctx.tier.pick(2000, 100000)
        };
        for i in 0..n_random {
            specs.push(Spec::Random(i));
        }
        for spec in &specs {
            let mine = ctx.mine(item);
            item += 1;
            if !mine {
                continue;
            }
            let (req, idem) = match spec {
                Spec::Everything(f) => (everything_request(view, *f), true),
                Spec::Exhaustive(mask, f, idem) => {
                    let chars: Vec<u32> = (0..k).filter(|i| mask >> i & 1 == 1).map(|i| view.mappings[i].0).collect();
                    (Req { chars, gids: vec![], flags: *f, shape: "exhaustive-chars" }, *idem)
                }
                Spec::Single(g, f, idem) => (Req { chars: vec![], gids: vec![*g], flags: *f, shape: "gid:single" }, *idem),
                Spec::LargeKeep(i) => {
                    let mut rng = Rng::derive(ctx.seed, &format!("c17-keep:{}", view.name), *i);
                    let num = *rng.pick(&[6u64, 8, 9, 10]); // keep probability /10
                    let gids: Vec<u32> = (0..view.n_glyphs).filter(|_| rng.below(10) < num).collect();
                    let flags = pick_flags(&mut rng);
                    (Req { chars: vec![], gids, flags, shape: "gid:large-keep" }, rng.chance(1, 4))
                }
                Spec::Random(i) => {
                    // one independent stream per case: no dependence on the shard count
                    let mut rng = Rng::derive(ctx.seed, &format!("c17-req:{}", view.name), *i);
                    let r = random_request(view, &mut rng);
                    let idem = if big || huge_charset { rng.chance(1, 3) } else { true };
                    (r, idem)
                }
            };
            run_one(ctx, view, &req, idem);
        }
        // drop the observation cache of this font
        view.cache.borrow_mut().clear();
    }
    ctx.exhaustive = Some(false);
    ctx.extra.insert(
        "exhaustive_part".into(),
        json!(format!("all 2^k character subsets of every font with k <= {} mapped characters are enumerated (all fonts exhaustive: {})", exhaustive_max_chars(thorough), all_exhaustive)),
    );
}

fn run_one(ctx: &mut Ctx, view: &View, req: &Req, idem: bool) {
    let seed = ctx.seed;
    let r = vf_core::guard(std::panic::AssertUnwindSafe(|| {
        let cc = CaseCtx {
            view,
            req,
            kind: if req.shape == "everything" { Kind::Everything } else { Kind::Direct },
            root_req: None,
        };
        if let Some((out, rel)) = check_case(ctx, &cc) {
            if idem {
                check_idempotence(ctx, view, req, out, &rel, seed);
            }
        }
    }));
    if let Err(p) = r {
        // a panic outside subset_font: skrifa/read-fonts observing the subset, or the harness
        ctx.judge_panic(
            &p,
            "observing the subset through skrifa/read-fonts",
            json!({"font": view.name, "path": view.path, "request": req.json()}),
            None,
        );
    }
}

// ------------------------------------------------------------------ replay

/// Re-run one recorded case: needs `detail.path` and a request with complete
/// (non-abbreviated) `chars` / `gids` arrays.
fn replay(ctx: &mut Ctx, _args: &Args, rec: &Value, _bytes: Option<&[u8]>) {
    ctx.policy = PanicPolicy::Any;
    if rec["detail"]["ser_case"].is_object() {
        ser::replay(ctx, &rec["detail"]["ser_case"], rec["detail"]["id"].as_str().unwrap_or("replay"));
        return;
    }
    let d = if rec["detail"]["case"].is_object() { &rec["detail"]["case"] } else { &rec["detail"] };
    let path = d["path"].as_str().unwrap_or("");
    let r = if d["root_request"].is_object() { &d["root_request"] } else { &d["request"] };
    let (Some(chars), Some(gids)) = (r["chars"].as_str().and_then(parse_ranges), r["gids"].as_str().and_then(parse_ranges)) else {
        ctx.inconclusive("replay: request not parsable");
        return;
    };
    // built fonts: "built:<variant>:<path of the base font>"
    let (built_variant, base_path) = match path.strip_prefix("built:").and_then(|r| r.split_once(':')) {
        Some((v, p)) => (Some(v), p),
        None => (None, path),
    };
    let Ok(mut data) = std::fs::read(base_path) else {
        ctx.inconclusive(format!("replay: cannot read {base_path}"));
        return;
    };
    let mut name = std::path::Path::new(base_path).file_name().map(|s| s.to_string_lossy().to_string()).unwrap_or_default();
    if let Some(v) = built_variant {
        match built::build(&data, v) {
            Ok(b) => {
                data = b;
                name = built::name_of(&name, v);
            }
            Err(e) => {
                ctx.inconclusive(format!("replay: cannot rebuild {path}: {e}"));
                return;
            }
        }
    }
    let index = if name.ends_with(".ttc") { Some(0) } else { None };
    match View::build(&name, path, Arc::new(data), index, None, ctx.seed) {
        Ok(view) => {
            let req = Req {
                chars,
                gids,
                flags: r["flags"].as_u64().unwrap_or(0) as u16,
                shape: if d["kind"] == "everything" { "everything" } else { "replay" },
            };
            run_one(ctx, &view, &req, true);
        }
        Err(e) => ctx.inconclusive(format!("replay: {e}")),
    }
}
