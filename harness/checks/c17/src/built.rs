//! C17 (b') — BUILT variable fonts whose HVAR makes object sharing in the klippa serializer
//! observable end to end. A corpus glyf font with gvar + fvar and >= 200 glyphs gets a new HVAR
//! (write-fonts), everything else but COLR / CPAL is copied:
//!
//!  * `maps`: one ItemVariationData; the advance-width map and the LSB map are equal-length
//!    DeltaSetIndexMaps (1 byte per entry) that agree for every glyph below D (D >= 3/4 of the
//!    glyphs, so far beyond the 128th byte) and differ from there on; the RSB map is a byte
//!    copy of the advance map (a true twin, which MAY be shared).
//!  * `ivd`: two ItemVariationData subtables of 200 rows x 2 regions (i8) that agree in their
//!    first 100 rows (>= 128 identical leading bytes) and differ afterwards; advances use outer
//!    0, side bearings outer 1, both with inner = gid % 200.
//!
//! These fonts then run through the ordinary differential oracle (advance / lsb at non-default
//! locations, original vs subset) with all glyphs kept, retain-gids and large random keeps.

use font_types::{F2Dot14, Tag};
use read_fonts::tables::variations::EntryFormat;
use read_fonts::{FontRef, TableProvider};
use write_fonts::tables::hvar::Hvar;
use write_fonts::tables::variations::{DeltaSetIndexMap, ItemVariationData, ItemVariationStore, RegionAxisCoordinates, VariationRegion, VariationRegionList};
use write_fonts::FontBuilder;

pub const BASES: [&str; 2] = ["test_glyphs-glyf_colr_1_variable.ttf", "Comfortaa-Regular-new.ttf"];
pub const VARIANTS: [&str; 2] = ["maps", "ivd"];

fn regions(axis_count: u16) -> VariationRegionList {
    let f = F2Dot14::from_f32;
    let mk = |first: (f32, f32, f32)| {
        let mut axes = vec![RegionAxisCoordinates::new(f(first.0), f(first.1), f(first.2))];
        for _ in 1..axis_count {
            axes.push(RegionAxisCoordinates::new(f(0.0), f(0.0), f(0.0)));
        }
        VariationRegion::new(axes)
    };
    VariationRegionList::new(axis_count, vec![mk((0.0, 1.0, 1.0)), mk((-1.0, -1.0, 0.0))])
}

fn hvar(variant: &str, n_glyphs: usize, axis_count: u16) -> Hvar {
    match variant {
        "maps" => {
            let rows = 16usize;
            let mut deltas = vec![];
            for r in 0..rows {
                deltas.push((10 * r as i32 - 40) as i8 as u8);
                deltas.push((-7 * (r as i32) + 20) as i8 as u8);
            }
            let ivd = ItemVariationData::new(rows as u16, 0, vec![0, 1], deltas);
            let d = (n_glyphs * 3 / 4).max(128);
            let adv: Vec<u8> = (0..n_glyphs).map(|i| (i % rows) as u8).collect();
            let lsb: Vec<u8> = (0..n_glyphs).map(|i| if i < d { (i % rows) as u8 } else { ((i + 5) % rows) as u8 }).collect();
            let ef = EntryFormat::from_bits_truncate(0x07); // 1 byte per entry, 8 inner bits
            let n = n_glyphs as u16;
            Hvar::new(
                ItemVariationStore::new(regions(axis_count), vec![Some(ivd)]),
                Some(DeltaSetIndexMap::format_0(ef, n, adv.clone())),
                Some(DeltaSetIndexMap::format_0(ef, n, lsb)),
                Some(DeltaSetIndexMap::format_0(ef, n, adv)),
            )
        }
        _ => {
            let rows = 200usize;
            let mut d0 = vec![];
            let mut d1 = vec![];
            for r in 0..rows {
                let a = ((r % 100) as i32 + 1) as i8 as u8;
                let b = (-((r % 90) as i32) - 1) as i8 as u8;
                d0.push(a);
                d0.push(b);
                if r < 100 {
                    d1.push(a);
                    d1.push(b);
                } else {
                    d1.push((-((r % 100) as i32) - 3) as i8 as u8);
                    d1.push(((r % 90) as i32 + 5) as i8 as u8);
                }
            }
            let ivd0 = ItemVariationData::new(rows as u16, 0, vec![0, 1], d0);
            let ivd1 = ItemVariationData::new(rows as u16, 0, vec![0, 1], d1);
            let ef = EntryFormat::from_bits_truncate(0x17); // 2 bytes per entry, 8 inner bits
            let n = n_glyphs as u16;
            let map = |outer: u8| -> Vec<u8> { (0..n_glyphs).flat_map(|i| [outer, (i % rows) as u8]).collect() };
            Hvar::new(
                ItemVariationStore::new(regions(axis_count), vec![Some(ivd0), Some(ivd1)]),
                Some(DeltaSetIndexMap::format_0(ef, n, map(0))),
                Some(DeltaSetIndexMap::format_0(ef, n, map(1))),
                None,
            )
        }
    }
}

/// The font `base` with HVAR replaced by the `variant` one.
pub fn build(base: &[u8], variant: &str) -> Result<Vec<u8>, String> {
    let font = FontRef::new(base).map_err(|e| e.to_string())?;
    let n_glyphs = font.maxp().map_err(|e| e.to_string())?.num_glyphs() as usize;
    let axis_count = font.fvar().map_err(|e| e.to_string())?.axis_count();
    if n_glyphs < 200 || axis_count == 0 {
        return Err("base font too small".into());
    }
    let h = hvar(variant, n_glyphs, axis_count);
    let mut b = FontBuilder::new();
    b.add_table(&h).map_err(|e| e.to_string())?;
    // everything else is copied, except the colour tables: the built fonts are about HVAR, and
    // the COLR table of one base font trips an already recorded klippa defect (subset-error:COLR)
    for rec in font.table_directory.table_records() {
        let tag = rec.tag();
        if tag == Tag::new(b"COLR") || tag == Tag::new(b"CPAL") || tag == Tag::new(b"HVAR") {
            continue;
        }
        if let Some(d) = font.table_data(tag) {
            b.add_raw(tag, d.as_bytes().to_vec());
        }
    }
    Ok(b.build())
}

pub fn name_of(base: &str, variant: &str) -> String {
    format!("built-hvar-{}:{}", variant, base)
}
