//! Shared runtime-monitoring infrastructure: seeded RNG, panic monitor,
//! progress (cpu-time) monitor, evidence/partial writer, known-findings
//! matcher, replay files, corpus loader.
//!
//! Every check binary invocation (`vf <ID> --tier t --shard i/n --out p`)
//! creates one [`Ctx`], drives its workload through it and calls
//! [`Ctx::finish`], which writes a *partial* JSON. The `check` driver merges
//! the partials of all shards/profiles with `vf merge` into
//! /verif/evidence/<ID>.json and decides the exit code.

use serde_json::{json, Map, Value};
use std::cell::RefCell;
use std::collections::{BTreeMap, BTreeSet, HashSet};
use std::panic::{self, AssertUnwindSafe};
use std::path::{Path, PathBuf};
use std::sync::atomic::{AtomicU64, Ordering};
use std::sync::Once;
use std::time::Instant;

pub const VERIF_DIR: &str = "/verif";

/// Root of the repository under test (scratch worktrees set VF_REPO_DIR).
pub fn repo_dir() -> String {
    std::env::var("VF_REPO_DIR").unwrap_or_else(|_| "/repo".to_string())
}

/// Where evidence partials and replays are written (scratch runs set VF_OUT_DIR).
pub fn out_dir() -> String {
    std::env::var("VF_OUT_DIR").unwrap_or_else(|_| VERIF_DIR.to_string())
}

// ---------------------------------------------------------------- rng

/// xoshiro256** seeded through splitmix64; all randomness in the harness
/// derives from `VERIF_SEED`.
#[derive(Clone, Debug)]
pub struct Rng {
    s: [u64; 4],
}

fn splitmix(x: &mut u64) -> u64 {
    *x = x.wrapping_add(0x9E3779B97F4A7C15);
    let mut z = *x;
    z = (z ^ (z >> 30)).wrapping_mul(0xBF58476D1CE4E5B9);
    z = (z ^ (z >> 27)).wrapping_mul(0x94D049BB133111EB);
    z ^ (z >> 31)
}

impl Rng {
    pub fn new(seed: u64) -> Self {
        let mut x = seed ^ 0xA076_1D64_78BD_642F;
        let s = [
            splitmix(&mut x),
            splitmix(&mut x),
            splitmix(&mut x),
            splitmix(&mut x),
        ];
        Rng { s }
    }
    /// An independent stream derived from this seed and a label.
    pub fn derive(seed: u64, label: &str, n: u64) -> Self {
        Rng::new(seed ^ fnv64(label.as_bytes()).rotate_left(17) ^ n.wrapping_mul(0x9E3779B97F4A7C15))
    }
    pub fn u64(&mut self) -> u64 {
        let r = self.s[1].wrapping_mul(5).rotate_left(7).wrapping_mul(9);
        let t = self.s[1] << 17;
        self.s[2] ^= self.s[0];
        self.s[3] ^= self.s[1];
        self.s[1] ^= self.s[2];
        self.s[0] ^= self.s[3];
        self.s[2] ^= t;
        self.s[3] = self.s[3].rotate_left(45);
        r
    }
    pub fn u32(&mut self) -> u32 {
        (self.u64() >> 32) as u32
    }
    /// uniform in 0..n (n > 0)
    pub fn below(&mut self, n: u64) -> u64 {
        if n == 0 {
            return 0;
        }
        ((self.u64() as u128 * n as u128) >> 64) as u64
    }
    pub fn usize(&mut self, n: usize) -> usize {
        self.below(n as u64) as usize
    }
    /// uniform in lo..=hi
    pub fn range(&mut self, lo: i64, hi: i64) -> i64 {
        debug_assert!(lo <= hi);
        let span = (hi as i128 - lo as i128 + 1) as u128;
        let r = ((self.u64() as u128 * span) >> 64) as i128;
        (lo as i128 + r) as i64
    }
    pub fn bool(&mut self) -> bool {
        self.u64() & 1 == 1
    }
    /// true with probability num/den
    pub fn chance(&mut self, num: u64, den: u64) -> bool {
        self.below(den) < num
    }
    pub fn f64(&mut self) -> f64 {
        (self.u64() >> 11) as f64 / (1u64 << 53) as f64
    }
    pub fn pick<'a, T>(&mut self, xs: &'a [T]) -> &'a T {
        &xs[self.usize(xs.len())]
    }
    pub fn shuffle<T>(&mut self, xs: &mut [T]) {
        for i in (1..xs.len()).rev() {
            let j = self.usize(i + 1);
            xs.swap(i, j);
        }
    }
    pub fn bytes(&mut self, n: usize) -> Vec<u8> {
        let mut v = Vec::with_capacity(n);
        while v.len() < n {
            let x = self.u64().to_le_bytes();
            let k = (n - v.len()).min(8);
            v.extend_from_slice(&x[..k]);
        }
        v
    }
}

// ---------------------------------------------------------------- hashing

pub fn fnv64(bytes: &[u8]) -> u64 {
    let mut h: u64 = 0xcbf29ce484222325;
    for b in bytes {
        h ^= *b as u64;
        h = h.wrapping_mul(0x100000001b3);
    }
    h
}

/// Incremental FNV-1a digest used for observation digests.
#[derive(Clone, Copy, Debug, PartialEq, Eq)]
pub struct Digest(pub u64);

impl Default for Digest {
    fn default() -> Self {
        Digest(0xcbf29ce484222325)
    }
}

impl Digest {
    pub fn new() -> Self {
        Self::default()
    }
    #[inline]
    pub fn bytes(&mut self, b: &[u8]) {
        for x in b {
            self.0 ^= *x as u64;
            self.0 = self.0.wrapping_mul(0x100000001b3);
        }
    }
    #[inline]
    pub fn u64(&mut self, v: u64) {
        self.bytes(&v.to_le_bytes());
    }
    #[inline]
    pub fn i64(&mut self, v: i64) {
        self.u64(v as u64);
    }
    #[inline]
    pub fn u32(&mut self, v: u32) {
        self.bytes(&v.to_le_bytes());
    }
    #[inline]
    pub fn f32(&mut self, v: f32) {
        self.u32(v.to_bits());
    }
    #[inline]
    pub fn str(&mut self, s: &str) {
        self.bytes(s.as_bytes());
        self.bytes(&[0xff]);
    }
    pub fn dbg<T: std::fmt::Debug>(&mut self, v: &T) {
        use std::fmt::Write;
        struct W<'a>(&'a mut Digest);
        impl<'a> Write for W<'a> {
            fn write_str(&mut self, s: &str) -> std::fmt::Result {
                self.0.bytes(s.as_bytes());
                Ok(())
            }
        }
        let _ = write!(W(self), "{:?}", v);
    }
    pub fn finish(&self) -> u64 {
        self.0
    }
}

pub fn hex(bytes: &[u8]) -> String {
    let mut s = String::with_capacity(bytes.len() * 2);
    for b in bytes {
        s.push_str(&format!("{:02x}", b));
    }
    s
}

// ---------------------------------------------------------------- time

/// CPU time consumed by the calling thread, in nanoseconds
/// (CLOCK_THREAD_CPUTIME_ID: independent of machine load).
pub fn thread_cpu_ns() -> u64 {
    if cfg!(miri) {
        // Miri does not model per-thread cpu clocks; fall back to its virtual
        // monotonic clock.
        static T0: std::sync::OnceLock<Instant> = std::sync::OnceLock::new();
        return T0.get_or_init(Instant::now).elapsed().as_nanos() as u64;
    }
    let mut ts = libc::timespec {
        tv_sec: 0,
        tv_nsec: 0,
    };
    // SAFETY: plain syscall writing into a local.
    unsafe {
        libc::clock_gettime(libc::CLOCK_THREAD_CPUTIME_ID, &mut ts);
    }
    ts.tv_sec as u64 * 1_000_000_000 + ts.tv_nsec as u64
}

// ---------------------------------------------------------------- panic monitor

#[derive(Clone, Debug, PartialEq, Eq)]
pub enum PanicClass {
    Overflow,
    DebugAssert,
    Index,
    Unwrap,
    Explicit,
    Harness,
}

impl PanicClass {
    pub fn as_str(&self) -> &'static str {
        match self {
            PanicClass::Overflow => "overflow",
            PanicClass::DebugAssert => "assert",
            PanicClass::Index => "index",
            PanicClass::Unwrap => "unwrap",
            PanicClass::Explicit => "explicit",
            PanicClass::Harness => "harness",
        }
    }
    /// Classes that exist only in an overflow-checked / debug-assert build.
    pub fn is_strict_only(&self) -> bool {
        matches!(self, PanicClass::Overflow | PanicClass::DebugAssert)
    }
}

#[derive(Clone, Debug)]
pub struct PanicInfo {
    pub file: String,
    pub line: u32,
    pub msg: String,
    pub class: PanicClass,
}

impl PanicInfo {
    /// Stable signature: path relative to /repo, line, class.
    pub fn signature(&self) -> String {
        format!("panic:{}:{}:{}", self.file, self.line, self.class.as_str())
    }
    /// False for panics raised by harness code (paths of the harness workspace
    /// are relative: `core/src/..`, `checks/cNN/src/..`) or deliberately
    /// (`HarnessAbort`). Library and std locations count as library panics.
    pub fn in_repo(&self) -> bool {
        let f = self.file.as_str();
        !(self.class == PanicClass::Harness
            || f.starts_with("/verif")
            || f.starts_with("checks/")
            || f.starts_with("core/src")
            || f.contains("/harness/")
            || f.contains("/harness-ft/"))
    }
}

/// Payload for panics raised deliberately by the harness (e.g. a painter that
/// aborts a traversal which exceeded its budget). Never attributed to the
/// library.
pub struct HarnessAbort(pub &'static str);

thread_local! {
    static LAST_PANIC: RefCell<Option<PanicInfo>> = const { RefCell::new(None) };
}

fn classify(msg: &str) -> PanicClass {
    if msg.starts_with("attempt to ") && (msg.contains("overflow") || msg.contains("divide by zero") || msg.contains("remainder with a divisor of zero")) {
        // divide by zero is present in release too, but it is an arithmetic
        // check; keep it separate from overflow: classify as Explicit below.
        if msg.contains("overflow") {
            return PanicClass::Overflow;
        }
        return PanicClass::Explicit;
    }
    if msg.starts_with("assertion") || msg.contains("debug_assert") {
        return PanicClass::DebugAssert;
    }
    if msg.contains("index out of bounds")
        || msg.contains("out of range for slice")
        || msg.contains("slice index starts at")
        || msg.contains("range end index")
        || msg.contains("range start index")
        || msg.contains("is out of bounds")
        || msg.contains("mid > len")
        || msg.contains("copy_from_slice")
        || msg.contains("source slice length")
    {
        return PanicClass::Index;
    }
    if msg.contains("called `Option::unwrap()`")
        || msg.contains("called `Result::unwrap()`")
        || msg.contains("unwrap")
        || msg.contains("expect")
    {
        return PanicClass::Unwrap;
    }
    PanicClass::Explicit
}

static HOOK: Once = Once::new();

pub fn install_panic_hook() {
    HOOK.call_once(|| {
        panic::set_hook(Box::new(|info| {
            let (file, line) = info
                .location()
                .map(|l| (l.file().to_string(), l.line()))
                .unwrap_or_else(|| ("?".into(), 0));
            // paths relative to the repository root, also in scratch mode
            let root = format!("{}/", repo_dir().trim_end_matches('/'));
            let file = file
                .strip_prefix(root.as_str())
                .or_else(|| file.strip_prefix("/repo/"))
                .map(|s| s.to_string())
                .unwrap_or(file);
            let payload = info.payload();
            let (msg, class) = if payload.downcast_ref::<HarnessAbort>().is_some() {
                ("harness abort".to_string(), PanicClass::Harness)
            } else {
                let m = if let Some(s) = payload.downcast_ref::<&str>() {
                    s.to_string()
                } else if let Some(s) = payload.downcast_ref::<String>() {
                    s.clone()
                } else {
                    "<non-string payload>".to_string()
                };
                let c = classify(&m);
                (m, c)
            };
            let mut msg = msg;
            if msg.len() > 300 {
                let mut e = 300;
                while !msg.is_char_boundary(e) {
                    e -= 1;
                }
                msg.truncate(e);
            }
            LAST_PANIC.with(|p| {
                *p.borrow_mut() = Some(PanicInfo {
                    file,
                    line,
                    msg,
                    class,
                })
            });
        }));
    });
}

/// Run `f`, converting a panic into a [`PanicInfo`].
pub fn guard<R>(f: impl FnOnce() -> R) -> Result<R, PanicInfo> {
    install_panic_hook();
    LAST_PANIC.with(|p| *p.borrow_mut() = None);
    match panic::catch_unwind(AssertUnwindSafe(f)) {
        Ok(r) => Ok(r),
        Err(_) => Err(LAST_PANIC
            .with(|p| p.borrow_mut().take())
            .unwrap_or(PanicInfo {
                file: "?".into(),
                line: 0,
                msg: "panic without hook info".into(),
                class: PanicClass::Explicit,
            })),
    }
}

// ---------------------------------------------------------------- args / tier

#[derive(Clone, Copy, Debug, PartialEq, Eq)]
pub enum Tier {
    Quick,
    Thorough,
}

impl Tier {
    pub fn as_str(&self) -> &'static str {
        match self {
            Tier::Quick => "quick",
            Tier::Thorough => "thorough",
        }
    }
    pub fn is_thorough(&self) -> bool {
        *self == Tier::Thorough
    }
    /// pick a budget by tier
    pub fn pick<T>(&self, quick: T, thorough: T) -> T {
        match self {
            Tier::Quick => quick,
            Tier::Thorough => thorough,
        }
    }
}

#[derive(Clone, Debug)]
pub struct Args {
    pub id: String,
    pub tier: Tier,
    pub seed: u64,
    pub shard: (usize, usize),
    pub out: PathBuf,
    pub replay: Option<PathBuf>,
    pub trace: bool,
    pub profile: String,
    pub extra: Vec<String>,
}

impl Args {
    pub fn parse(argv: &[String]) -> Args {
        let mut a = Args {
            id: argv.first().cloned().unwrap_or_default(),
            tier: match std::env::var("VERIF_TIER").as_deref() {
                Ok("thorough") => Tier::Thorough,
                _ => Tier::Quick,
            },
            seed: std::env::var("VERIF_SEED")
                .ok()
                .and_then(|s| s.parse::<i64>().ok())
                .map(|v| v as u64)
                .unwrap_or(1),
            shard: (0, 1),
            out: PathBuf::new(),
            replay: None,
            trace: false,
            profile: if cfg!(debug_assertions) {
                "strict".into()
            } else {
                "rel".into()
            },
            extra: vec![],
        };
        let mut i = 1;
        while i < argv.len() {
            let k = argv[i].as_str();
            let mut val = || {
                i += 1;
                argv.get(i).cloned().unwrap_or_default()
            };
            match k {
                "--tier" => {
                    a.tier = if val() == "thorough" {
                        Tier::Thorough
                    } else {
                        Tier::Quick
                    }
                }
                "--seed" => a.seed = val().parse::<i64>().map(|v| v as u64).unwrap_or(1),
                "--shard" => {
                    let v = val();
                    let mut it = v.split('/');
                    let x = it.next().and_then(|s| s.parse().ok()).unwrap_or(0);
                    let n = it.next().and_then(|s| s.parse().ok()).unwrap_or(1);
                    a.shard = (x, n);
                }
                "--out" => a.out = PathBuf::from(val()),
                "--replay" => a.replay = Some(PathBuf::from(val())),
                "--trace" => a.trace = true,
                "--profile" => a.profile = val(),
                other => a.extra.push(other.to_string()),
            }
            i += 1;
        }
        if a.out.as_os_str().is_empty() {
            a.out = PathBuf::from(format!(
                "{}/evidence/.partials/{}.{}.{}.json",
                out_dir(), a.id, a.profile, a.shard.0
            ));
        }
        a
    }
}

// ---------------------------------------------------------------- known findings

#[derive(Clone, Debug)]
pub struct KnownFinding {
    pub status: String,
    pub property: String,
    pub signature: String,
    pub what: String,
}

pub fn load_known_findings() -> Vec<KnownFinding> {
    load_known_findings_for(None)
}

/// Loads the entries of one property only (cheap pre-filter on the raw line, so
/// that slow interpreters such as Miri do not parse the whole file).
pub fn load_known_findings_for(property: Option<&str>) -> Vec<KnownFinding> {
    let path = format!("{}/known_findings.jsonl", VERIF_DIR);
    let mut v = vec![];
    if let Ok(s) = std::fs::read_to_string(path) {
        for line in s.lines() {
            let line = line.trim();
            if line.is_empty() || line.starts_with('#') {
                continue;
            }
            if let Some(p) = property {
                if !line.contains(&format!("\"{}\"", p)) {
                    continue;
                }
            }
            if let Ok(j) = serde_json::from_str::<Value>(line) {
                v.push(KnownFinding {
                    status: j["status"].as_str().unwrap_or("").to_string(),
                    property: j["property"].as_str().unwrap_or("").to_string(),
                    signature: j["signature"].as_str().unwrap_or("").to_string(),
                    what: j["what"].as_str().unwrap_or("").to_string(),
                });
            }
        }
    }
    v
}

// ---------------------------------------------------------------- ctx

/// How a panic caught during a case is to be judged by the running property.
#[derive(Clone, Copy, Debug, PartialEq, Eq)]
pub enum PanicPolicy {
    /// Totality properties in a shipping-semantics build: every library panic
    /// violates. In a strict build, overflow/debug-assert panics are *not*
    /// this property's (they are C20's) and are only counted.
    Totality,
    /// C20: only overflow / debug-assert classes violate; other panics are
    /// counted (they belong to the totality properties).
    StrictOnly,
    /// Any library panic violates, whatever its class (writers, builders).
    Any,
}

pub struct Ctx {
    pub id: String,
    pub tier: Tier,
    pub seed: u64,
    pub shard: (usize, usize),
    pub profile: String,
    pub rng: Rng,
    pub policy: PanicPolicy,
    /// When true (C20 re-running other properties' workloads) only panics judged
    /// by `judge_panic` are recorded; the workloads' own semantic oracles are
    /// counted but not reported (they belong to their own property's check).
    pub panics_only: bool,
    /// Multiplier applied by `budget()`; C20 re-runs other properties' workloads
    /// at a reduced scale in its quick tier.
    pub scale: f64,
    pub trace: bool,
    out: PathBuf,
    start: Instant,
    evaluations: u64,
    nontrivial: HashSet<u64>,
    counters: BTreeMap<String, u64>,
    distinct: BTreeMap<String, HashSet<u64>>,
    labels: BTreeMap<String, BTreeSet<String>>,
    samples: Vec<Value>,
    violations: Vec<Value>,
    seen_violation_sigs: HashSet<String>,
    known_hits: BTreeMap<String, (String, u64)>,
    inconclusive: Vec<String>,
    known: Vec<KnownFinding>,
    pub rule: String,
    pub level: String,
    pub assumptions: Vec<String>,
    pub extra: Map<String, Value>,
    pub exhaustive: Option<bool>,
    case_index: u64,
}

/// cpu-time bound per operation: max(2 s, 50 µs × input bytes)
pub fn cpu_bound_ns(input_len: usize) -> u64 {
    (2_000_000_000u64).max(50_000u64.saturating_mul(input_len as u64))
}

static WATCH_CASE: AtomicU64 = AtomicU64::new(0);
static WATCH_START_MS: AtomicU64 = AtomicU64::new(0);
static WATCH_START_CPU_MS: AtomicU64 = AtomicU64::new(0);

/// CPU time consumed by the whole process, in milliseconds.
fn process_cpu_ms() -> u64 {
    if cfg!(miri) {
        return now_ms();
    }
    let mut ts = libc::timespec {
        tv_sec: 0,
        tv_nsec: 0,
    };
    // SAFETY: plain syscall writing into a local.
    unsafe {
        libc::clock_gettime(libc::CLOCK_PROCESS_CPUTIME_ID, &mut ts);
    }
    ts.tv_sec as u64 * 1000 + ts.tv_nsec as u64 / 1_000_000
}
static WATCHDOG: Once = Once::new();

fn now_ms() -> u64 {
    static T0: std::sync::OnceLock<Instant> = std::sync::OnceLock::new();
    T0.get_or_init(Instant::now).elapsed().as_millis() as u64 + 1
}

/// Wall-clock watchdog: if one case runs longer than `limit_s`, write a marker
/// and exit(3) ("suspected hang"; the driver re-runs the shard in trace mode to
/// identify the case and then decides on cpu time, alone).
fn start_watchdog(out: PathBuf, limit_s: u64) {
    WATCHDOG.call_once(move || {
        std::thread::spawn(move || loop {
            std::thread::sleep(std::time::Duration::from_millis(500));
            let st = WATCH_START_MS.load(Ordering::Relaxed);
            if st != 0 {
                let el = now_ms().saturating_sub(st);
                // A case is a suspected hang when it has run for `limit_s` of wall
                // time AND the process really consumed cpu meanwhile (a busy loop),
                // so that a starved process on a loaded machine is not mistaken for
                // one; a case that consumes no cpu at all (deadlock) is caught at
                // five times the limit.
                let cpu = process_cpu_ms().saturating_sub(WATCH_START_CPU_MS.load(Ordering::Relaxed));
                if (el > limit_s * 1000 && cpu > limit_s * 500) || el > limit_s * 5000 {
                    let case = WATCH_CASE.load(Ordering::Relaxed);
                    let _ = std::fs::write(
                        out.with_extension("hang"),
                        format!("{{\"case_index\":{},\"elapsed_ms\":{}}}", case, el),
                    );
                    eprintln!("vf: watchdog: case {} running for {} ms; exiting 3", case, el);
                    std::process::exit(3);
                }
            }
        });
    });
}

impl Ctx {
    pub fn new(args: &Args) -> Ctx {
        install_panic_hook();
        let limit = std::env::var("VF_CASE_WALL_LIMIT_S")
            .ok()
            .and_then(|s| s.parse().ok())
            .unwrap_or(60);
        start_watchdog(args.out.clone(), limit);
        if let Some(p) = args.out.parent() {
            let _ = std::fs::create_dir_all(p);
        }
        Ctx {
            id: args.id.clone(),
            tier: args.tier,
            seed: args.seed,
            shard: args.shard,
            profile: args.profile.clone(),
            rng: Rng::derive(args.seed, &args.id, args.shard.0 as u64),
            policy: PanicPolicy::Any,
            panics_only: false,
            scale: 1.0,
            trace: args.trace,
            out: args.out.clone(),
            start: Instant::now(),
            evaluations: 0,
            nontrivial: HashSet::new(),
            counters: BTreeMap::new(),
            distinct: BTreeMap::new(),
            labels: BTreeMap::new(),
            samples: vec![],
            violations: vec![],
            seen_violation_sigs: HashSet::new(),
            known_hits: BTreeMap::new(),
            inconclusive: vec![],
            known: load_known_findings_for(Some(&args.id)),
            rule: String::new(),
            level: "exploration".into(),
            assumptions: vec![],
            extra: Map::new(),
            exhaustive: None,
            case_index: 0,
        }
    }

    /// Does work item `i` belong to this shard?
    #[inline]
    pub fn mine(&self, i: usize) -> bool {
        i % self.shard.1 == self.shard.0
    }
    /// Tier-dependent budget scaled by `self.scale` (at least 1).
    pub fn budget(&self, quick: usize, thorough: usize) -> usize {
        ((self.tier.pick(quick, thorough) as f64 * self.scale) as usize).max(1)
    }
    pub fn is_strict(&self) -> bool {
        cfg!(debug_assertions)
    }
    pub fn elapsed_s(&self) -> f64 {
        self.start.elapsed().as_secs_f64()
    }

    // ---- evidence counters
    #[inline]
    pub fn eval(&mut self) {
        self.evaluations += 1;
    }
    #[inline]
    pub fn evals(&mut self, n: u64) {
        self.evaluations += n;
    }
    /// Record a case that satisfies the property's non-triviality rule.
    #[inline]
    pub fn nontrivial(&mut self, digest: u64) {
        self.nontrivial.insert(digest);
    }
    #[inline]
    pub fn count(&mut self, key: &str, n: u64) {
        if let Some(c) = self.counters.get_mut(key) {
            *c += n;
        } else {
            self.counters.insert(key.to_string(), n);
        }
    }
    #[inline]
    pub fn distinct(&mut self, key: &str, digest: u64) {
        if let Some(c) = self.distinct.get_mut(key) {
            c.insert(digest);
        } else {
            let mut s = HashSet::new();
            s.insert(digest);
            self.distinct.insert(key.to_string(), s);
        }
    }
    pub fn label(&mut self, key: &str, label: &str) {
        let set = self.labels.entry(key.to_string()).or_default();
        if set.len() < 2000 && !set.contains(label) {
            set.insert(label.to_string());
        }
    }
    pub fn sample(&mut self, v: Value) {
        if self.samples.len() < 6 {
            self.samples.push(v);
        }
    }
    pub fn sample_by_kind(&mut self, kind: &str, v: Value) {
        // at most one sample per kind, at most 12 kinds
        let k = format!("sample:{}", kind);
        if self.samples.len() < 12 && !self.counters.contains_key(&k) {
            self.counters.insert(k, 1);
            self.samples.push(json!({"kind": kind, "case": v}));
        }
    }
    pub fn inconclusive(&mut self, what: impl Into<String>) {
        let w = what.into();
        self.count("inconclusive", 1);
        if self.inconclusive.len() < 50 {
            self.inconclusive.push(w);
        }
    }

    // ---- violations

    fn replay_dir(&self) -> PathBuf {
        PathBuf::from(format!("{}/replays/{}", out_dir(), self.id))
    }

    /// Report a refuting observation. `signature` must identify the specific
    /// failing input / call site / history; it is what known findings are
    /// keyed on. Returns true if it was a *new* (non-known) violation.
    pub fn violation(&mut self, signature: &str, detail: Value, bytes: Option<&[u8]>) -> bool {
        if self.panics_only {
            self.count("foreign_oracle_reports_ignored", 1);
            return false;
        }
        self.violation_for(&self.id.clone(), signature, detail, bytes)
    }

    pub fn violation_for(
        &mut self,
        property: &str,
        signature: &str,
        detail: Value,
        bytes: Option<&[u8]>,
    ) -> bool {
        if let Some(k) = self
            .known
            .iter()
            .find(|k| k.status == "open" && k.property == property && k.signature == signature)
        {
            let e = self
                .known_hits
                .entry(signature.to_string())
                .or_insert((k.what.clone(), 0));
            e.1 += 1;
            return false;
        }
        self.count("violations_raw", 1);
        if !self.seen_violation_sigs.insert(signature.to_string()) {
            return true;
        }
        if self.violations.len() >= 40 {
            return true;
        }
        let dir = self.replay_dir();
        let _ = std::fs::create_dir_all(&dir);
        let stem = format!(
            "{}-{:016x}",
            self.profile,
            fnv64(signature.as_bytes()) ^ self.seed
        );
        let jpath = dir.join(format!("{}.json", stem));
        let mut rec = json!({
            "property": property,
            "signature": signature,
            "detail": detail,
            "seed": self.seed,
            "tier": self.tier.as_str(),
            "profile": self.profile,
            "shard": [self.shard.0, self.shard.1],
        });
        if let Some(b) = bytes {
            let bpath = dir.join(format!("{}.bin", stem));
            let _ = std::fs::write(&bpath, b);
            rec["input_file"] = json!(bpath.to_string_lossy());
            rec["input_len"] = json!(b.len());
        }
        let _ = std::fs::write(&jpath, serde_json::to_vec_pretty(&rec).unwrap());
        eprintln!(
            "vf: violation property={} signature={} replay={}",
            property,
            signature,
            jpath.display()
        );
        self.violations.push(json!({
            "property": property,
            "signature": signature,
            "replay": jpath.to_string_lossy(),
            "detail": rec["detail"],
        }));
        true
    }

    /// Judge a caught panic according to the current policy.
    pub fn judge_panic(&mut self, p: &PanicInfo, what: &str, detail: Value, bytes: Option<&[u8]>) {
        if !p.in_repo() {
            // a harness bug must never be reported as a property violation
            self.inconclusive(format!("harness panic {}:{} {}", p.file, p.line, p.msg));
            return;
        }
        self.count(&format!("panic_class:{}", p.class.as_str()), 1);
        let violates = match self.policy {
            PanicPolicy::Any => true,
            PanicPolicy::Totality => !(self.is_strict() && p.class.is_strict_only()),
            PanicPolicy::StrictOnly => p.class.is_strict_only(),
        };
        if violates {
            let sig = p.signature();
            let d = json!({"what": what, "panic": {"file": p.file, "line": p.line, "msg": p.msg, "class": p.class.as_str()}, "case": detail});
            self.violation_for(&self.id.clone(), &sig, d, bytes);
        } else {
            self.distinct("other_property_panic_sites", fnv64(p.signature().as_bytes()));
            self.label("other_property_panic_sites", &p.signature());
        }
    }

    /// Run one case under the panic + progress monitors.
    ///
    /// * `label` is evaluated only when needed (trace mode / slow case);
    /// * `bytes` is the input for replay files and for the cpu bound;
    /// * a panic is returned to the caller to be judged;
    /// * a case exceeding the cpu bound is re-run three times and reported
    ///   through `violation("slow:...")` only if all three exceed.
    pub fn run_case<R>(
        &mut self,
        label: &dyn Fn() -> String,
        bytes: Option<&[u8]>,
        f: &dyn Fn() -> R,
    ) -> Result<R, PanicInfo> {
        self.case_index += 1;
        if self.trace {
            let cur = self.out.with_extension("cur.json");
            let mut rec = json!({"case_index": self.case_index, "label": label()});
            if let Some(b) = bytes {
                let bp = self.out.with_extension("cur.bin");
                let _ = std::fs::write(&bp, b);
                rec["input_file"] = json!(bp.to_string_lossy());
            }
            let _ = std::fs::write(cur, rec.to_string());
        }
        WATCH_CASE.store(self.case_index, Ordering::Relaxed);
        WATCH_START_CPU_MS.store(process_cpu_ms(), Ordering::Relaxed);
        WATCH_START_MS.store(now_ms(), Ordering::Relaxed);
        let t0 = thread_cpu_ns();
        let r = guard(f);
        let dt = thread_cpu_ns().saturating_sub(t0);
        WATCH_START_MS.store(0, Ordering::Relaxed);
        let bound = cpu_bound_ns(bytes.map(|b| b.len()).unwrap_or(0));
        if dt > bound {
            // re-run alone three times
            let mut all = true;
            let mut times = vec![dt];
            for _ in 0..3 {
                WATCH_START_CPU_MS.store(process_cpu_ms(), Ordering::Relaxed);
        WATCH_START_MS.store(now_ms(), Ordering::Relaxed);
                let t0 = thread_cpu_ns();
                let _ = guard(f);
                let d = thread_cpu_ns().saturating_sub(t0);
                WATCH_START_MS.store(0, Ordering::Relaxed);
                times.push(d);
                if d <= bound {
                    all = false;
                    break;
                }
            }
            let l = label();
            if all {
                let sig = format!("slow:{}", l);
                self.violation(
                    &sig,
                    json!({"what": "cpu-time bound exceeded on 4 of 4 runs", "cpu_ns": times, "bound_ns": bound, "case": l}),
                    bytes,
                );
            } else {
                self.inconclusive(format!("slow once, not reproduced: {} {:?}", l, times));
            }
        }
        r
    }

    pub fn case_index(&self) -> u64 {
        self.case_index
    }

    // ---- finish

    pub fn finish(mut self) -> i32 {
        let wall = self.start.elapsed().as_secs_f64();
        let mut distinct = Map::new();
        for (k, s) in &self.distinct {
            let mut v: Vec<u64> = s.iter().copied().collect();
            v.sort_unstable();
            distinct.insert(k.clone(), json!(v));
        }
        let mut labels = Map::new();
        for (k, s) in &self.labels {
            labels.insert(k.clone(), json!(s.iter().collect::<Vec<_>>()));
        }
        let mut nt: Vec<u64> = self.nontrivial.iter().copied().collect();
        nt.sort_unstable();
        // digests go to a side binary file (8 bytes LE each): they can be many.
        let ntpath = self.out.with_extension("nt.bin");
        let mut buf = Vec::with_capacity(nt.len() * 8);
        for d in &nt {
            buf.extend_from_slice(&d.to_le_bytes());
        }
        let _ = std::fs::write(&ntpath, &buf);
        let known: Vec<Value> = self
            .known_hits
            .iter()
            .map(|(sig, (what, n))| json!({"signature": sig, "what": what, "hits": n}))
            .collect();
        self.counters.retain(|k, _| !k.starts_with("sample:"));
        let partial = json!({
            "property_id": self.id,
            "tier": self.tier.as_str(),
            "seed": self.seed,
            "shard": [self.shard.0, self.shard.1],
            "profile": self.profile,
            "level": self.level,
            "rule": self.rule,
            "assumptions": self.assumptions,
            "evaluations": self.evaluations,
            "nontrivial_file": ntpath.to_string_lossy(),
            "nontrivial_count": nt.len(),
            "counters": self.counters,
            "distinct": distinct,
            "labels": labels,
            "samples": self.samples,
            "violations": self.violations,
            "known_hits": known,
            "inconclusive": self.inconclusive,
            "extra": self.extra,
            "exhaustive": self.exhaustive,
            "wall_s": wall,
            "complete": true,
        });
        if let Err(e) = std::fs::write(&self.out, serde_json::to_vec(&partial).unwrap()) {
            eprintln!("vf: cannot write partial {}: {}", self.out.display(), e);
            return 2;
        }
        if self.violations.is_empty() {
            0
        } else {
            1
        }
    }
}

// ---------------------------------------------------------------- merge

/// Merge shard partials into the final evidence file. Returns the exit code
/// (0 held, 1 violation, 2 inconclusive/observed nothing).
pub fn merge(id: &str, partials: &[PathBuf], driver_notes: &Value, evidence_path: &Path) -> i32 {
    let mut evaluations = 0u64;
    let mut nontrivial: Vec<u64> = vec![];
    let mut counters: BTreeMap<String, u64> = BTreeMap::new();
    let mut distinct: BTreeMap<String, HashSet<u64>> = BTreeMap::new();
    let mut labels: BTreeMap<String, BTreeSet<String>> = BTreeMap::new();
    let mut samples: Vec<Value> = vec![];
    let mut violations: Vec<Value> = vec![];
    let mut known: BTreeMap<String, (String, u64)> = BTreeMap::new();
    let mut inconclusive: Vec<String> = vec![];
    let mut extra = Map::new();
    let mut profiles: BTreeSet<String> = BTreeSet::new();
    let mut rule = String::new();
    let mut level = String::from("exploration");
    let mut assumptions: Vec<String> = vec![];
    let mut tier = String::from("quick");
    let mut seed = 0i64;
    let mut exhaustive: Option<bool> = None;
    let mut wall_sum = 0f64;
    let mut merged = 0usize;
    for p in partials {
        let Ok(s) = std::fs::read(p) else {
            inconclusive.push(format!("missing partial {}", p.display()));
            continue;
        };
        let Ok(j) = serde_json::from_slice::<Value>(&s) else {
            inconclusive.push(format!("unparsable partial {}", p.display()));
            continue;
        };
        merged += 1;
        evaluations += j["evaluations"].as_u64().unwrap_or(0);
        if let Some(f) = j["nontrivial_file"].as_str() {
            if let Ok(b) = std::fs::read(f) {
                for c in b.chunks_exact(8) {
                    nontrivial.push(u64::from_le_bytes(c.try_into().unwrap()));
                }
            }
        }
        if let Some(m) = j["counters"].as_object() {
            for (k, v) in m {
                *counters.entry(k.clone()).or_default() += v.as_u64().unwrap_or(0);
            }
        }
        if let Some(m) = j["distinct"].as_object() {
            for (k, v) in m {
                let set = distinct.entry(k.clone()).or_default();
                for d in v.as_array().into_iter().flatten() {
                    if let Some(x) = d.as_u64() {
                        set.insert(x);
                    }
                }
            }
        }
        if let Some(m) = j["labels"].as_object() {
            for (k, v) in m {
                let set = labels.entry(k.clone()).or_default();
                for d in v.as_array().into_iter().flatten() {
                    if let Some(x) = d.as_str() {
                        set.insert(x.to_string());
                    }
                }
            }
        }
        for s in j["samples"].as_array().into_iter().flatten() {
            if samples.len() < 12 && !samples.contains(s) {
                samples.push(s.clone());
            }
        }
        for v in j["violations"].as_array().into_iter().flatten() {
            violations.push(v.clone());
        }
        for k in j["known_hits"].as_array().into_iter().flatten() {
            let e = known
                .entry(k["signature"].as_str().unwrap_or("").to_string())
                .or_insert((k["what"].as_str().unwrap_or("").to_string(), 0));
            e.1 += k["hits"].as_u64().unwrap_or(0);
        }
        for s in j["inconclusive"].as_array().into_iter().flatten() {
            if inconclusive.len() < 100 {
                inconclusive.push(s.as_str().unwrap_or("").to_string());
            }
        }
        if let Some(m) = j["extra"].as_object() {
            for (k, v) in m {
                extra.insert(k.clone(), v.clone());
            }
        }
        profiles.insert(j["profile"].as_str().unwrap_or("?").to_string());
        if rule.is_empty() {
            rule = j["rule"].as_str().unwrap_or("").to_string();
        }
        level = j["level"].as_str().unwrap_or("exploration").to_string();
        if !["exploration", "fault_enumeration", "model_checking", "proof", "translation_validation", "other"].contains(&level.as_str()) {
            level = "exploration".into();
        }
        for a in j["assumptions"].as_array().into_iter().flatten() {
            let a = a.as_str().unwrap_or("").to_string();
            if !assumptions.contains(&a) {
                assumptions.push(a);
            }
        }
        tier = j["tier"].as_str().unwrap_or("quick").to_string();
        seed = j["seed"].as_u64().unwrap_or(0) as i64;
        match (exhaustive, j["exhaustive"].as_bool()) {
            (None, Some(b)) => exhaustive = Some(b),
            (Some(a), Some(b)) => exhaustive = Some(a && b),
            _ => {}
        }
        wall_sum += j["wall_s"].as_f64().unwrap_or(0.0);
    }
    nontrivial.sort_unstable();
    nontrivial.dedup();

    // driver-level violations (aborts, hangs) and notes
    for v in driver_notes["violations"].as_array().into_iter().flatten() {
        violations.push(v.clone());
    }
    for s in driver_notes["inconclusive"].as_array().into_iter().flatten() {
        inconclusive.push(s.as_str().unwrap_or("").to_string());
    }
    for k in driver_notes["known_hits"].as_array().into_iter().flatten() {
        let e = known
            .entry(k["signature"].as_str().unwrap_or("").to_string())
            .or_insert((k["what"].as_str().unwrap_or("").to_string(), 0));
        e.1 += k["hits"].as_u64().unwrap_or(1);
    }
    if let Some(m) = driver_notes["extra"].as_object() {
        for (k, v) in m {
            extra.insert(k.clone(), v.clone());
        }
    }

    // de-duplicate violations by signature
    let mut seen = HashSet::new();
    violations.retain(|v| seen.insert(v["signature"].as_str().unwrap_or("").to_string()));

    let mut coverage = Map::new();
    coverage.insert("evaluations".into(), json!(evaluations));
    coverage.insert("distinct_nontrivial".into(), json!(nontrivial.len()));
    coverage.insert("rule".into(), json!(rule));
    coverage.insert("samples".into(), json!(samples));
    if let Some(e) = exhaustive {
        coverage.insert("exhaustive".into(), json!(e));
    }
    coverage.insert("events".into(), json!(counters));
    let dcounts: BTreeMap<String, usize> = distinct.iter().map(|(k, v)| (k.clone(), v.len())).collect();
    coverage.insert("distinct_observed".into(), json!(dcounts));
    let lab: BTreeMap<String, Value> = labels
        .iter()
        .map(|(k, v)| {
            (
                k.clone(),
                json!({"count": v.len(), "values": v.iter().take(400).collect::<Vec<_>>()}),
            )
        })
        .collect();
    coverage.insert("observed_kinds".into(), json!(lab));
    coverage.insert("profiles".into(), json!(profiles));
    coverage.insert("partials_merged".into(), json!(merged));
    coverage.insert("inconclusive".into(), json!(inconclusive));
    let kh: Vec<Value> = known
        .iter()
        .map(|(s, (w, n))| json!({"signature": s, "what": w, "hits": n}))
        .collect();
    coverage.insert("known_findings_hit".into(), json!(kh));
    coverage.insert("violation_list".into(), json!(violations));
    for (k, v) in extra {
        coverage.insert(k, v);
    }
    let wall = driver_notes["wall_s"].as_f64().unwrap_or(wall_sum);
    let ev = json!({
        "property_id": id,
        "tier": driver_notes["tier"].as_str().unwrap_or(&tier),
        "seed": driver_notes["seed"].as_i64().unwrap_or(seed),
        "level": level,
        "coverage": coverage,
        "assumptions": assumptions,
        "wall_s": wall,
        "violations": violations.len(),
    });
    if let Some(p) = evidence_path.parent() {
        let _ = std::fs::create_dir_all(p);
    }
    let _ = std::fs::write(evidence_path, serde_json::to_vec_pretty(&ev).unwrap());

    for (s, (w, n)) in &known {
        println!("KNOWN-FINDING: property={} {} [{}; {} hits]", id, w, s, n);
    }
    if !violations.is_empty() {
        for v in &violations {
            println!(
                "VIOLATION property={} replay={}",
                v["property"].as_str().unwrap_or(id),
                v["replay"].as_str().unwrap_or("?")
            );
            println!("  signature: {}", v["signature"].as_str().unwrap_or("?"));
        }
        return 1;
    }
    // a single-case replay is judged on violations only
    let is_replay = driver_notes["replay"].as_bool().unwrap_or(false);
    if is_replay {
        println!("REPLAY property={} no violation reproduced (evaluations={})", id, evaluations);
        return 0;
    }
    let floor_fail = evaluations == 0 || nontrivial.len() < 2;
    if floor_fail {
        println!(
            "INCONCLUSIVE property={} monitors observed too little (evaluations={}, distinct_nontrivial={})",
            id,
            evaluations,
            nontrivial.len()
        );
        return 2;
    }
    let hard_inconclusive = driver_notes["hard_inconclusive"].as_bool().unwrap_or(false);
    if hard_inconclusive {
        println!("INCONCLUSIVE property={} (see evidence coverage.inconclusive)", id);
        return 2;
    }
    println!(
        "HELD property={} evaluations={} distinct_nontrivial={} inconclusive_notes={}",
        id,
        evaluations,
        nontrivial.len(),
        inconclusive.len()
    );
    0
}

// ---------------------------------------------------------------- corpus

#[derive(Clone)]
pub struct CorpusFont {
    pub name: String,
    pub path: PathBuf,
    pub data: std::sync::Arc<Vec<u8>>,
}

impl CorpusFont {
    pub fn id(&self) -> String {
        format!("{}#{:016x}", self.name, fnv64(&self.data))
    }
}

fn collect_fonts(dir: &Path, out: &mut Vec<PathBuf>, depth: usize) {
    if depth > 6 {
        return;
    }
    let Ok(rd) = std::fs::read_dir(dir) else { return };
    let mut entries: Vec<_> = rd.flatten().map(|e| e.path()).collect();
    entries.sort();
    for p in entries {
        if p.is_dir() {
            collect_fonts(&p, out, depth + 1);
        } else if let Some(ext) = p.extension().and_then(|e| e.to_str()) {
            if matches!(ext, "ttf" | "otf" | "ttc") {
                out.push(p);
            }
        }
    }
}

/// Fonts shipped in /repo/font-test-data (ttf, ttc) and the frozen extra fonts
/// under /verif/corpus/fonts.
pub fn corpus_fonts() -> Vec<CorpusFont> {
    let mut paths = vec![];
    collect_fonts(&PathBuf::from(format!("{}/font-test-data/test_data", repo_dir())), &mut paths, 0);
    collect_fonts(&PathBuf::from(format!("{}/corpus/fonts", VERIF_DIR)), &mut paths, 0);
    load(paths)
}

/// Test-data fonts only (small).
pub fn test_data_fonts() -> Vec<CorpusFont> {
    let mut paths = vec![];
    collect_fonts(&PathBuf::from(format!("{}/font-test-data/test_data", repo_dir())), &mut paths, 0);
    load(paths)
}

/// klippa's own test fonts.
pub fn klippa_fonts() -> Vec<CorpusFont> {
    let mut paths = vec![];
    collect_fonts(&PathBuf::from(format!("{}/klippa/test-data/fonts", repo_dir())), &mut paths, 0);
    load(paths)
}

/// The extra frozen real-world fonts under /verif/corpus/fonts.
pub fn extra_fonts() -> Vec<CorpusFont> {
    let mut paths = vec![];
    collect_fonts(&PathBuf::from(format!("{}/corpus/fonts", VERIF_DIR)), &mut paths, 0);
    load(paths)
}

fn load(paths: Vec<PathBuf>) -> Vec<CorpusFont> {
    let mut v = vec![];
    for p in paths {
        if let Ok(d) = std::fs::read(&p) {
            v.push(CorpusFont {
                name: p.file_name().unwrap().to_string_lossy().to_string(),
                path: p,
                data: std::sync::Arc::new(d),
            });
        }
    }
    v
}
