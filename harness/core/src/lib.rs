//! vf-core — shared runtime-monitoring infrastructure for the fontations
//! checks (see /verif/DESIGN.md §1).
pub mod core;
pub mod gen;
pub use crate::core::*;

/// Entry point used by every check binary.
pub fn main_with(
    id: &str,
    run: fn(&mut Ctx, &Args),
    replay: Option<fn(&mut Ctx, &Args, &serde_json::Value, Option<&[u8]>)>,
) -> ! {
    let mut argv: Vec<String> = std::env::args().skip(1).collect();
    argv.insert(0, id.to_string());
    let args = Args::parse(&argv);
    let mut ctx = Ctx::new(&args);
    if let Some(path) = &args.replay {
        let rec: serde_json::Value = std::fs::read(path)
            .ok()
            .and_then(|b| serde_json::from_slice(&b).ok())
            .unwrap_or(serde_json::json!({}));
        let input = rec["input_file"].as_str().and_then(|f| std::fs::read(f).ok());
        match replay {
            Some(r) => r(&mut ctx, &args, &rec, input.as_deref()),
            None => {
                eprintln!("vf: {} has no single-case replay; re-running its workload with the recorded seed", id);
                run(&mut ctx, &args)
            }
        }
    } else {
        run(&mut ctx, &args);
    }
    std::process::exit(ctx.finish());
}
