//! Workload generators shared between checks.
