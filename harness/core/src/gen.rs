//! Workload generators shared between checks: an independent sfnt directory
//! parser, structure-aware byte mutation (boundary-directed), truncation
//! sweeps, table-directory edits, splicing, and a font re-assembler.

use crate::core::Rng;

/// One table record of an sfnt directory (independent of read-fonts).
#[derive(Clone, Debug, PartialEq, Eq)]
pub struct TableRec {
    pub tag: [u8; 4],
    pub checksum: u32,
    pub offset: u32,
    pub len: u32,
    /// byte position of this record inside the file
    pub rec_pos: usize,
}

impl TableRec {
    pub fn tag_str(&self) -> String {
        self.tag.iter().map(|b| if b.is_ascii_graphic() || *b == b' ' { *b as char } else { '?' }).collect()
    }
    /// clamp the table range to the file
    pub fn range(&self, file_len: usize) -> std::ops::Range<usize> {
        let s = (self.offset as usize).min(file_len);
        let e = s.saturating_add(self.len as usize).min(file_len);
        s..e
    }
}

pub fn be16(b: &[u8], p: usize) -> Option<u16> {
    Some(u16::from_be_bytes(b.get(p..p + 2)?.try_into().ok()?))
}
pub fn be32(b: &[u8], p: usize) -> Option<u32> {
    Some(u32::from_be_bytes(b.get(p..p + 4)?.try_into().ok()?))
}

/// Parse the table directory of a single-font sfnt (or of font `index` of a
/// TTC). Lenient: returns whatever records fit in the file.
pub fn parse_dir(bytes: &[u8], index: u32) -> Vec<TableRec> {
    let mut base = 0usize;
    if bytes.get(0..4) == Some(b"ttcf") {
        let n = be32(bytes, 8).unwrap_or(0);
        if index >= n {
            return vec![];
        }
        base = match be32(bytes, 12 + 4 * index as usize) {
            Some(o) => o as usize,
            None => return vec![],
        };
    }
    let Some(n) = be16(bytes, base + 4) else { return vec![] };
    let mut v = vec![];
    for i in 0..n as usize {
        let p = base + 12 + 16 * i;
        let (Some(t), Some(c), Some(o), Some(l)) = (bytes.get(p..p + 4), be32(bytes, p + 4), be32(bytes, p + 8), be32(bytes, p + 12)) else {
            break;
        };
        v.push(TableRec { tag: t.try_into().unwrap(), checksum: c, offset: o, len: l, rec_pos: p });
    }
    v
}

/// Assemble a minimal, well-formed sfnt from (tag, bytes) pairs (independent of
/// write-fonts; checksums are left zero — read-fonts does not verify them).
pub fn build_sfnt(version: u32, tables: &[([u8; 4], Vec<u8>)]) -> Vec<u8> {
    let mut tables: Vec<_> = tables.to_vec();
    tables.sort_by(|a, b| a.0.cmp(&b.0));
    let n = tables.len() as u16;
    let mut out = vec![];
    out.extend_from_slice(&version.to_be_bytes());
    out.extend_from_slice(&n.to_be_bytes());
    let es = if n == 0 { 0 } else { 15 - n.leading_zeros() as u16 };
    let sr = if n == 0 { 0 } else { (1u16 << es).wrapping_mul(16) };
    out.extend_from_slice(&sr.to_be_bytes());
    out.extend_from_slice(&es.to_be_bytes());
    out.extend_from_slice(&(n.wrapping_mul(16).wrapping_sub(sr)).to_be_bytes());
    let mut off = 12 + 16 * tables.len();
    let mut body = vec![];
    for (tag, data) in &tables {
        out.extend_from_slice(tag);
        out.extend_from_slice(&0u32.to_be_bytes());
        out.extend_from_slice(&(off as u32).to_be_bytes());
        out.extend_from_slice(&(data.len() as u32).to_be_bytes());
        body.extend_from_slice(data);
        while body.len() % 4 != 0 {
            body.push(0);
        }
        off = 12 + 16 * tables.len() + body.len();
    }
    out.extend_from_slice(&body);
    out
}

/// Split a font into its tables.
pub fn split_tables(bytes: &[u8]) -> Vec<([u8; 4], Vec<u8>)> {
    parse_dir(bytes, 0)
        .iter()
        .map(|r| (r.tag, bytes[r.range(bytes.len())].to_vec()))
        .collect()
}

/// Replace (or add) one table of a font, re-assembling the container.
pub fn with_table(bytes: &[u8], tag: &[u8; 4], data: &[u8]) -> Vec<u8> {
    let mut t = split_tables(bytes);
    if let Some(e) = t.iter_mut().find(|e| &e.0 == tag) {
        e.1 = data.to_vec();
    } else {
        t.push((*tag, data.to_vec()));
    }
    build_sfnt(be32(bytes, 0).unwrap_or(0x00010000), &t)
}

/// Remove one table.
pub fn without_table(bytes: &[u8], tag: &[u8; 4]) -> Vec<u8> {
    let t: Vec<_> = split_tables(bytes).into_iter().filter(|e| &e.0 != tag).collect();
    build_sfnt(be32(bytes, 0).unwrap_or(0x00010000), &t)
}

// ---------------------------------------------------------------- edits

/// A reversible in-place edit.
#[derive(Clone, Debug)]
pub struct Edit {
    pub pos: usize,
    pub old: Vec<u8>,
    pub new: Vec<u8>,
}

/// Applies edits in place and restores them on `undo` (avoids copying large
/// fonts per mutant).
#[derive(Default)]
pub struct Patcher {
    log: Vec<Edit>,
}

impl Patcher {
    pub fn new() -> Self {
        Self::default()
    }
    pub fn set(&mut self, buf: &mut [u8], pos: usize, new: &[u8]) {
        if pos >= buf.len() {
            return;
        }
        let end = (pos + new.len()).min(buf.len());
        let old = buf[pos..end].to_vec();
        buf[pos..end].copy_from_slice(&new[..end - pos]);
        self.log.push(Edit { pos, old, new: new[..end - pos].to_vec() });
    }
    pub fn set16(&mut self, buf: &mut [u8], pos: usize, v: u16) {
        self.set(buf, pos, &v.to_be_bytes());
    }
    pub fn set32(&mut self, buf: &mut [u8], pos: usize, v: u32) {
        self.set(buf, pos, &v.to_be_bytes());
    }
    pub fn describe(&self) -> String {
        let mut s = String::new();
        for e in self.log.iter().take(12) {
            s.push_str(&format!("@{}:{}->{};", e.pos, crate::core::hex(&e.old), crate::core::hex(&e.new)));
        }
        if self.log.len() > 12 {
            s.push_str(&format!("(+{} more)", self.log.len() - 12));
        }
        s
    }
    pub fn edits(&self) -> &[Edit] {
        &self.log
    }
    pub fn undo(&mut self, buf: &mut [u8]) {
        while let Some(e) = self.log.pop() {
            buf[e.pos..e.pos + e.old.len()].copy_from_slice(&e.old);
        }
    }
}

/// 16-bit values that sit on validation boundaries.
pub const INTERESTING16: [u16; 14] = [0, 1, 2, 3, 0x7F, 0x80, 0xFF, 0x100, 0x7FFF, 0x8000, 0x8001, 0xFFFD, 0xFFFE, 0xFFFF];
/// 32-bit values that sit on validation boundaries.
pub const INTERESTING32: [u32; 12] = [0, 1, 2, 0xFFFF, 0x10000, 0x10001, 0x7FFFFFFF, 0x80000000, 0x80000001, 0xFFFFFFFE, 0xFFFFFFFF, 0x00FFFFFF];

/// Values derived from the context: region length ±1, current value ±1,
/// doubled/halved, file length.
pub fn contextual16(cur: u16, region_len: usize, rel_pos: usize) -> Vec<u16> {
    let l = region_len as u32;
    let mut v = vec![
        cur.wrapping_add(1),
        cur.wrapping_sub(1),
        cur.wrapping_mul(2),
        cur / 2,
        (l & 0xFFFF) as u16,
        (l.wrapping_sub(1) & 0xFFFF) as u16,
        (l.wrapping_add(1) & 0xFFFF) as u16,
        ((l / 2) & 0xFFFF) as u16,
        (l.saturating_sub(rel_pos as u32) & 0xFFFF) as u16,
        (rel_pos as u32 & 0xFFFF) as u16,
        cur ^ 0x8000,
        cur.swap_bytes(),
    ];
    v.sort_unstable();
    v.dedup();
    v
}

/// The kinds of random whole-file mutation `mutate_random` applies.
pub const MUTATION_KINDS: [&str; 10] = [
    "bitflip", "byte", "interesting16", "interesting32", "contextual16", "dir-offset", "dir-length", "copy-block", "zero-block", "ff-block",
];

/// Apply 1..=4 random structure-aware edits inside table payloads (or the
/// directory) of `buf`, recording them in `patcher`. Returns the kinds used.
pub fn mutate_random(buf: &mut [u8], dir: &[TableRec], rng: &mut Rng, patcher: &mut Patcher, focus: Option<&[u8; 4]>) -> Vec<&'static str> {
    let mut kinds = vec![];
    if buf.is_empty() {
        return kinds;
    }
    let n = 1 + rng.usize(4);
    for _ in 0..n {
        // choose a region: a table (biased to `focus` and to the first 512 bytes), or the header
        let file_len = buf.len();
        let (rs, re) = if let (Some(f), true) = (focus, rng.chance(3, 4)) {
            match dir.iter().find(|r| &r.tag == f) {
                Some(r) => {
                    let x = r.range(file_len);
                    (x.start, x.end)
                }
                None => (0, file_len),
            }
        } else if !dir.is_empty() && rng.chance(9, 10) {
            let r = rng.pick(dir);
            let x = r.range(file_len);
            (x.start, x.end)
        } else {
            (0, (12 + 16 * dir.len()).min(file_len))
        };
        if re <= rs {
            continue;
        }
        let len = re - rs;
        let pos_in = if rng.chance(2, 3) { rng.usize(len.min(512)) } else { rng.usize(len) };
        let pos = rs + pos_in;
        let kind = *rng.pick(&MUTATION_KINDS);
        match kind {
            "bitflip" => {
                let b = buf[pos] ^ (1 << rng.usize(8));
                patcher.set(buf, pos, &[b]);
            }
            "byte" => {
                let r = rng.u32() as u8;
                let b = *rng.pick(&[0u8, 1, 0x7f, 0x80, 0xff, r]);
                patcher.set(buf, pos, &[b]);
            }
            "interesting16" => {
                let p = pos & !1;
                patcher.set16(buf, p, *rng.pick(&INTERESTING16));
            }
            "interesting32" => {
                let p = pos & !1;
                patcher.set32(buf, p, *rng.pick(&INTERESTING32));
            }
            "contextual16" => {
                let p = pos & !1;
                let cur = be16(buf, p).unwrap_or(0);
                let c = contextual16(cur, len, p - rs);
                patcher.set16(buf, p, *rng.pick(&c));
            }
            "dir-offset" | "dir-length" => {
                if dir.is_empty() {
                    continue;
                }
                let r = rng.pick(dir);
                let field = if kind == "dir-offset" { r.rec_pos + 8 } else { r.rec_pos + 12 };
                let cur = be32(buf, field).unwrap_or(0);
                let fl = file_len as u32;
                let other = dir[rng.usize(dir.len())].offset;
                let v = *rng.pick(&[
                    0,
                    1,
                    cur.wrapping_add(1),
                    cur.wrapping_sub(1),
                    cur.wrapping_add(2),
                    cur / 2,
                    fl,
                    fl.wrapping_sub(1),
                    fl.wrapping_sub(cur),
                    fl.wrapping_add(1),
                    0xFFFFFFFF,
                    0x80000000,
                    0xFFFFFFFFu32.wrapping_sub(cur).wrapping_add(1),
                    other,
                ]);
                patcher.set32(buf, field, v);
            }
            "copy-block" => {
                let n = (1 + rng.usize(32)).min(len);
                let src = rs + rng.usize(len - n + 1);
                let block = buf[src..src + n].to_vec();
                patcher.set(buf, pos, &block);
            }
            "zero-block" => {
                let n = 1 + rng.usize(16);
                patcher.set(buf, pos, &vec![0u8; n]);
            }
            _ => {
                let n = 1 + rng.usize(16);
                patcher.set(buf, pos, &vec![0xffu8; n]);
            }
        }
        kinds.push(kind);
    }
    kinds
}

/// Deterministic boundary sweep over one region: for every 2-byte aligned
/// position in the first `window` bytes, every interesting/contextual 16-bit
/// value; and at 4-byte steps every interesting 32-bit value. Calls `f` with
/// the patched buffer and a description; restores the buffer afterwards.
/// `select(i)` filters the enumeration index (sharding / sampling).
pub fn sweep_region(
    buf: &mut [u8],
    start: usize,
    end: usize,
    window: usize,
    select: &mut dyn FnMut(usize) -> bool,
    f: &mut dyn FnMut(&[u8], &str),
) -> usize {
    let end = end.min(buf.len());
    if start >= end {
        return 0;
    }
    let len = end - start;
    let w = window.min(len);
    let mut idx = 0usize;
    let mut p = Patcher::new();
    let mut pos = start;
    while pos + 2 <= start + w {
        let cur = be16(buf, pos).unwrap_or(0);
        let mut vals: Vec<u16> = INTERESTING16.to_vec();
        vals.extend(contextual16(cur, len, pos - start));
        vals.sort_unstable();
        vals.dedup();
        for v in vals {
            if v == cur {
                continue;
            }
            if select(idx) {
                p.set16(buf, pos, v);
                f(buf, &format!("u16@{}={:#x}", pos, v));
                p.undo(buf);
            }
            idx += 1;
        }
        if (pos - start) % 4 == 0 && pos + 4 <= start + w {
            let cur32 = be32(buf, pos).unwrap_or(0);
            for v in INTERESTING32 {
                if v == cur32 {
                    continue;
                }
                if select(idx) {
                    p.set32(buf, pos, v);
                    f(buf, &format!("u32@{}={:#x}", pos, v));
                    p.undo(buf);
                }
                idx += 1;
            }
        }
        pos += 2;
    }
    idx
}

/// Truncation lengths to try for a payload of `len` bytes: every prefix up to
/// `dense` bytes, then a geometric / boundary sample.
pub fn truncation_points(len: usize, dense: usize) -> Vec<usize> {
    let mut v: Vec<usize> = (0..len.min(dense)).collect();
    let mut x = dense.max(1);
    while x < len {
        v.push(x);
        v.push(x - 1);
        v.push(x + 1);
        x = x * 5 / 4 + 1;
    }
    for k in 1..=8usize {
        if len >= k {
            v.push(len - k);
        }
    }
    v.retain(|&x| x < len);
    v.sort_unstable();
    v.dedup();
    v
}

/// Copies `data` to a freshly allocated buffer at a chosen misalignment with
/// different neighbouring bytes; returns (owner, range) so that
/// `&owner[range]` equals `data` but sits elsewhere in memory.
pub fn relocate(data: &[u8], misalign: usize, pad_byte: u8) -> (Vec<u8>, std::ops::Range<usize>) {
    let mut v = vec![pad_byte; data.len() + 64];
    // make the start address have the requested residue mod 8
    let base = v.as_ptr() as usize;
    let want = misalign % 8;
    let mut off = 16 + (misalign % 16);
    while (base + off) % 8 != want {
        off += 1;
    }
    v[off..off + data.len()].copy_from_slice(data);
    (v, off..off + data.len())
}
