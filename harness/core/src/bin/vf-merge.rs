use std::path::PathBuf;
fn main() {
    let argv: Vec<String> = std::env::args().skip(1).collect();
    if argv.len() < 3 {
        eprintln!("usage: vf-merge <ID> <evidence.json> <driver-notes.json> <partial>...");
        std::process::exit(2);
    }
    let notes: serde_json::Value = std::fs::read(&argv[2])
        .ok()
        .and_then(|b| serde_json::from_slice(&b).ok())
        .unwrap_or(serde_json::json!({}));
    let partials: Vec<PathBuf> = argv[3..].iter().map(PathBuf::from).collect();
    std::process::exit(vf_core::core::merge(&argv[0], &partials, &notes, &PathBuf::from(&argv[1])));
}
