#!/bin/bash
# MANIFEST.setup_cmd: offline pre-build of every check in every profile / sanitizer
# stage its quick command uses, so that the quick commands only rebuild what
# changed in /repo. Everything comes from files on disk (cargo registry cache,
# rust toolchains, clang); nothing is fetched.
set -u
cd "$(dirname "$0")"
V=$(pwd)
export CARGO_NET_OFFLINE=true
rc=0
cd "$V/harness"
[ -f Cargo.lock ] || cp /repo/Cargo.lock Cargo.lock
cargo build --profile strict --workspace 2>&1 | tail -2 || rc=1
# rel is only used by some checks; build just those
cargo build --profile rel -p vf-core -p vf-c01 -p vf-c02 -p vf-c07 -p vf-c12 -p vf-c13 -p vf-c15 2>&1 | tail -2 || rc=1
if [ -d "$V/harness-ft" ]; then
  cd "$V/harness-ft"
  [ -f Cargo.lock ] || cp /repo/Cargo.lock Cargo.lock
  cargo build --profile rel --bin vf-c03 2>&1 | tail -2 || rc=1
fi
# sanitizer stages that run in the quick tier: ASan build (C brotli instrumented with clang) ...
cd "$V/harness"
for c in vf-c02 vf-c18; do
  CARGO_TARGET_DIR="$V/harness/target-asan" CC=clang CFLAGS="-fsanitize=address -fno-omit-frame-pointer" \
  RUSTFLAGS="-Zsanitizer=address -Cforce-frame-pointers=yes --cfg googlefonts_fontations_verif" \
    cargo +nightly build --profile rel --target x86_64-unknown-linux-gnu -p $c 2>&1 | tail -1 || true
done
# ... and the Miri slices (cargo miri has no build-only mode: run each small slice once)
mkdir -p "$V/evidence/.partials"
for c in vf-c15 vf-c14 vf-c01 vf-c12; do
  CARGO_TARGET_DIR="$V/harness/target-miri" MIRIFLAGS="-Zmiri-disable-isolation" VF_CASE_WALL_LIMIT_S=3600 \
    timeout 1200 cargo +nightly miri run -q -p $c -- --profile miri --tier quick --seed 1 --out "$V/evidence/.partials/setup.$c.json" >/dev/null 2>&1 || true
done
rm -f "$V"/evidence/.partials/setup.*
exit $rc
