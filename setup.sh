#!/bin/bash
# MANIFEST.setup_cmd: offline pre-build of every check in every profile it uses.
set -u
cd "$(dirname "$0")/harness"
export CARGO_NET_OFFLINE=true
[ -f Cargo.lock ] || cp /repo/Cargo.lock Cargo.lock
rc=0
cargo build --profile strict --workspace 2>&1 | tail -3 || rc=1
cargo build --profile rel --workspace 2>&1 | tail -3 || rc=1
if [ -d ../harness-ft ]; then
  cd ../harness-ft
  [ -f Cargo.lock ] || cp /repo/Cargo.lock Cargo.lock
  cargo build --profile rel 2>&1 | tail -3 || rc=1
fi
exit $rc
