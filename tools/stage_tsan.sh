#!/bin/bash
# ThreadSanitizer stage of a check crate (extra stage "tsan" in stages.json,
# thorough tier only).
#
#   stage_tsan.sh <crate> <out> <tier> <seed> <harness-dir>
#
# Builds <crate> and the standard library (-Zbuild-std) with TSan into a
# dedicated target directory, then runs
#   <target-tsan>/x86_64-unknown-linux-gnu/rel/<crate> --profile tsan --tier T --seed S --out OUT
# and exits with the binary's exit code (TSan reports: 66). A build problem is
# a tool error (exit 2, no sanitizer marker), never a violation.
set -u
if [ $# -lt 5 ]; then
  echo "usage: $0 <crate> <out> <tier> <seed> <harness-dir>" >&2
  exit 2
fi
crate=$1; out=$2; tier=$3; seed=$4; harness=$5
target="${VF_TSAN_TARGET_DIR:-$harness/target-tsan}"
triple=x86_64-unknown-linux-gnu

cd "$harness" || { echo "stage_tsan: no harness dir $harness" >&2; exit 2; }
export CARGO_TARGET_DIR="$target"
export CARGO_NET_OFFLINE=true
unset RUSTUP_TOOLCHAIN
t0=$(date +%s)
# env RUSTFLAGS replaces the rustflags of .cargo/config.toml: repeat the cfg flag
RUSTFLAGS="-Zsanitizer=thread --cfg googlefonts_fontations_verif" \
  cargo +nightly build -Zbuild-std --target $triple --profile rel -p "$crate" 2>&1 | tail -n 40
rc=${PIPESTATUS[0]}
if [ "$rc" -ne 0 ]; then
  echo "stage_tsan: build of $crate failed (cargo rc=$rc): tool error" >&2
  exit 2
fi
echo "stage_tsan: built $crate in $(( $(date +%s) - t0 ))s" >&2

bin="$target/$triple/rel/$crate"
[ -x "$bin" ] || { echo "stage_tsan: $bin missing: tool error" >&2; exit 2; }
rm -f "$out"
sym=$(command -v llvm-symbolizer || true)
export TSAN_OPTIONS="${VF_TSAN_OPTIONS:-halt_on_error=1:exitcode=66:second_deadlock_stack=1${sym:+:external_symbolizer_path=$sym}}"
log=$(mktemp /tmp/vf-tsan.XXXXXX)
t1=$(date +%s)
"$bin" --profile tsan --tier "$tier" --seed "$seed" --out "$out" 2>&1 | tee "$log"
rc=${PIPESTATUS[0]}
echo "stage_tsan: $crate exit=$rc after $(( $(date +%s) - t1 ))s" >&2
if [ "$rc" -ne 0 ] && grep -q 'WARNING: ThreadSanitizer' "$log"; then
  # The driver only looks at the end of the log: repeat the headline (without
  # pid / addresses, so that it is the same on every run) after the long report.
  # (the driver takes the first marker line within the last 3000 bytes as the violation's signature:
  # push the report's own lines out of that window so that the normalised headline is that line)
  for _ in $(seq 1 52); do echo "----------------------------------------------------------------"; done
  echo "---- sanitizer report headline (full report above)"
  grep -E 'WARNING: ThreadSanitizer|^SUMMARY: ' "$log" | head -n 4 \
    | sed -E 's/==[0-9]+==//g; s/0x[0-9a-fA-F]+/0x_/g; s/ *\(pid=[0-9]+\)//g'
fi
rm -f "$log"
exit "$rc"
