#!/bin/bash
# AddressSanitizer stage of a check crate (extra stage "asan" in stages.json).
#
#   stage_asan.sh <crate> <out> <tier> <seed> <harness-dir>
#
# Builds <crate> (e.g. vf-c18) with ASan instrumentation of BOTH the Rust code
# and the C brotli library that brotlic-sys compiles (CC=clang CFLAGS=-fsanitize=address)
# into a dedicated target directory, then runs
#   <target-asan>/x86_64-unknown-linux-gnu/rel/<crate> --profile asan --tier T --seed S --out OUT
# and exits with the binary's exit code (ASan / LSan reports: 77). A build
# problem is a tool error (exit 2, no sanitizer marker), never a violation.
set -u
if [ $# -lt 5 ]; then
  echo "usage: $0 <crate> <out> <tier> <seed> <harness-dir>" >&2
  exit 2
fi
crate=$1; out=$2; tier=$3; seed=$4; harness=$5
target="${VF_ASAN_TARGET_DIR:-$harness/target-asan}"
triple=x86_64-unknown-linux-gnu

cd "$harness" || { echo "stage_asan: no harness dir $harness" >&2; exit 2; }
export CARGO_TARGET_DIR="$target"
export CARGO_NET_OFFLINE=true
unset RUSTUP_TOOLCHAIN
# env RUSTFLAGS replaces the rustflags of .cargo/config.toml: repeat the cfg flag
t0=$(date +%s)
CC=clang CFLAGS="-fsanitize=address -fno-omit-frame-pointer" \
RUSTFLAGS="-Zsanitizer=address -Cforce-frame-pointers=yes --cfg googlefonts_fontations_verif" \
  cargo +nightly build --profile rel --target $triple -p "$crate" 2>&1 | tail -n 40
rc=${PIPESTATUS[0]}
if [ "$rc" -ne 0 ]; then
  echo "stage_asan: build of $crate failed (cargo rc=$rc): tool error" >&2
  exit 2
fi
echo "stage_asan: built $crate in $(( $(date +%s) - t0 ))s" >&2

bin="$target/$triple/rel/$crate"
[ -x "$bin" ] || { echo "stage_asan: $bin missing: tool error" >&2; exit 2; }
rm -f "$out"
sym=$(command -v llvm-symbolizer || true)
[ -n "$sym" ] && export ASAN_SYMBOLIZER_PATH="$sym"
export ASAN_OPTIONS="${VF_ASAN_OPTIONS:-halt_on_error=1:abort_on_error=0:detect_leaks=1:exitcode=77:allocator_may_return_null=1:malloc_context_size=12}"
log=$(mktemp /tmp/vf-asan.XXXXXX)
t1=$(date +%s)
"$bin" --profile asan --tier "$tier" --seed "$seed" --out "$out" 2>&1 | tee "$log"
rc=${PIPESTATUS[0]}
echo "stage_asan: $crate exit=$rc after $(( $(date +%s) - t1 ))s" >&2
if [ "$rc" -ne 0 ] && grep -qE 'ERROR: (AddressSanitizer|LeakSanitizer)' "$log"; then
  # The driver only looks at the end of the log: repeat the headline (without
  # pid / addresses, so that it is the same on every run) after the long report.
  # (the driver takes the first marker line within the last 3000 bytes as the violation's signature:
  # push the report's own lines out of that window so that the normalised headline is that line)
  for _ in $(seq 1 52); do echo "----------------------------------------------------------------"; done
  echo "---- sanitizer report headline (full report above)"
  grep -E 'ERROR: (AddressSanitizer|LeakSanitizer)|^SUMMARY: ' "$log" | head -n 4 \
    | sed -E 's/==[0-9]+==//g; s/0x[0-9a-fA-F]+/0x_/g; s/\(pid=[0-9]+\)//g; s/ T[0-9]+\)?$//'
fi
rm -f "$log"
exit "$rc"
