#!/bin/bash
# Coverage-guided fuzzing stage of a check (extra stage "fuzz-<target>" in stages.json,
# thorough tier only).
#
#   stage_fuzz.sh <target> <property-id> <out> <tier> <seed> <harness-dir> <seconds>
#
# Builds the cargo-fuzz target <target> of <harness-dir>/fuzz in the project's fuzzing
# configuration (optimised + debug assertions + overflow checks, hooks on:
# --cfg googlefonts_fontations_verif; no sanitizer: the ASan stages are separate),
# generates its seed corpus (fonts <= 64 KiB of font-test-data + built inputs) into
# fuzz/corpus/<target>/, runs libFuzzer for <seconds> with -fork=<ncpu> -timeout=10
# -seed=<seed>, and writes ONE partial JSON (format of vf_core::Ctx::finish) to <out>.
#
# The targets run the oracles of the property's check on every input libFuzzer evolves
# and abort with a `VF-VIOLATION: <signature>` line on an oracle failure, so libFuzzer
# keeps the input. Afterwards every artifact is re-run alone:
#   crash-*    VF-VIOLATION line (or a panic located in library code) -> violation
#              anything else (harness panic, unexplained signal, not reproduced) -> inconclusive
#   timeout-*  re-run 3 times; only if all three use > 10 s of cpu time -> hang:fuzz:<target>:<fnv>
#   oom-*      inconclusive
# Exit 0: no violation, 1: violation(s), 2: tool failure (never a verdict).
#
# Environment: VF_REPO_DIR (tree under test, default /repo), VF_OUT_DIR (where replays/
# lives, default /verif), VF_FUZZ_JOBS (default nproc), VF_FUZZ_SANITIZER (default none),
# VF_FUZZ_TARGET_DIR (default <harness-dir>/fuzz/target), VF_FUZZ_CODEGEN_UNITS (default:
# cargo-fuzz's 1; 16 builds faster, runs a little slower), VF_FUZZ_KEEP_CORPUS=1 (do not
# wipe the evolved corpus of a previous run).
set -u
if [ $# -lt 7 ]; then
  echo "usage: $0 <target> <property-id> <out> <tier> <seed> <harness-dir> <seconds>" >&2
  exit 2
fi
target=$1; pid=$2; out=$3; tier=$4; seed=$5; harness=$6; seconds=$7
fuzzdir="$harness/fuzz"
tdir="${VF_FUZZ_TARGET_DIR:-$fuzzdir/target}"
jobs="${VF_FUZZ_JOBS:-$(nproc)}"
san="${VF_FUZZ_SANITIZER:-none}"
triple=x86_64-unknown-linux-gnu
outdir="${VF_OUT_DIR:-/verif}"
export VF_REPO_DIR="${VF_REPO_DIR:-/repo}"

cd "$fuzzdir" || { echo "stage_fuzz: no fuzz crate at $fuzzdir: tool error" >&2; exit 2; }
[ -f Cargo.lock ] || cp "$harness/Cargo.lock" Cargo.lock 2>/dev/null
unset CARGO_TARGET_DIR RUSTUP_TOOLCHAIN
export CARGO_NET_OFFLINE=true
# cargo-fuzz sets RUSTFLAGS itself (which replaces build.rustflags of .cargo/config.toml)
# and appends the caller's RUSTFLAGS: the hooks' cfg flag has to come through here.
export RUSTFLAGS="--cfg googlefonts_fontations_verif"
t0=$(date +%s)
blog=$(mktemp /tmp/vf-fuzz-build.XXXXXX)
# shellcheck disable=SC2086
cargo +nightly fuzz build -O -a -s "$san" --no-cfg-fuzzing ${VF_FUZZ_CODEGEN_UNITS:+--codegen-units $VF_FUZZ_CODEGEN_UNITS} --target-dir "$tdir" "$target" > "$blog" 2>&1
rc=$?
if [ "$rc" -ne 0 ]; then
  grep -v '^warning: unused\|^ *= note\|^help: ' "$blog" | tail -n 60
  rm -f "$blog"
  echo "stage_fuzz: build of $target failed (cargo rc=$rc): tool error" >&2
  exit 2
fi
grep -E '^ *(Finished|error)' "$blog" | tail -n 2
rm -f "$blog"
bin="$tdir/$triple/release/$target"
[ -x "$bin" ] || { echo "stage_fuzz: $bin missing: tool error" >&2; exit 2; }
build_s=$(( $(date +%s) - t0 ))
echo "stage_fuzz: built $target in ${build_s}s" >&2

corpus="$fuzzdir/corpus/$target"
art="$fuzzdir/artifacts/$target"
side="$fuzzdir/artifacts/$target.side.log"
log="$fuzzdir/artifacts/$target.log"
[ "${VF_FUZZ_KEEP_CORPUS:-0}" = 1 ] || rm -rf "$corpus"
rm -rf "$art" "$side" "$log"
mkdir -p "$corpus" "$art"
VF_FUZZ_GEN_SEEDS="$corpus" "$bin" 2>&1 | grep -v '^WARNING: Failed to find function'
if [ "${PIPESTATUS[0]}" -ne 0 ]; then
  echo "stage_fuzz: seed corpus generation failed: tool error" >&2
  exit 2
fi

case "$target" in
  c01_walk|c02_font) maxlen=65536; dict="-dict=$fuzzdir/dict/sfnt.dict" ;;
  c01_payload)       maxlen=8196; dict="" ;;
  c13_colr)          maxlen=16384; dict="" ;;
  c14_sbs)           maxlen=512;   dict="" ;;
  *)                 maxlen=65536; dict="" ;;
esac
# libFuzzer's seed is a 32-bit unsigned, 0 = "pick one"
lfseed=$seed
if ! [ "$lfseed" -ge 1 ] 2>/dev/null || [ "$lfseed" -gt 4294967295 ]; then
  lfseed=$(python3 -c "import sys; print(int(sys.argv[1]) % 4294967295 + 1)" "$seed" 2>/dev/null || echo 1)
fi
t1=$(date +%s)
# shellcheck disable=SC2086
VF_FUZZ_SIDE_LOG="$side" timeout -k 10 $(( seconds + 300 )) "$bin" \
  -fork="$jobs" -seed="$lfseed" -max_total_time="$seconds" -timeout=10 -print_final_stats=1 \
  -max_len="$maxlen" -ignore_crashes=1 -ignore_timeouts=1 -ignore_ooms=1 \
  -artifact_prefix="$art/" $dict "$corpus" > "$log" 2>&1
frc=$?
run_s=$(( $(date +%s) - t1 ))
grep -E '^#[0-9]+: cov:' "$log" | tail -n 3
grep -E '^INFO: (fuzzed for|exiting)' "$log" | tail -n 2
echo "stage_fuzz: $target libFuzzer exit=$frc after ${run_s}s" >&2

python3 - "$target" "$pid" "$out" "$tier" "$seed" "$bin" "$corpus" "$art" "$side" "$log" "$outdir" "$frc" "$run_s" "$build_s" "$jobs" "$seconds" "$san" <<'PYEOF'
import json, os, re, resource, shutil, subprocess, sys, time, traceback


def _excepthook(tp, v, tb):
    traceback.print_exception(tp, v, tb)
    sys.stderr.flush()
    os._exit(3)


sys.excepthook = _excepthook

(target, pid, out, tier, seed, binp, corpus, art, side, log, outdir, frc, run_s, build_s, jobs, seconds, san) = sys.argv[1:18]
frc, run_s, build_s, jobs, seconds = int(frc), int(run_s), int(build_s), int(jobs), int(seconds)
try:
    seed_i = int(seed)
except ValueError:
    seed_i = 1
MASK = (1 << 64) - 1


def fnv64(b):
    h = 0xcbf29ce484222325
    for x in b:
        h ^= x
        h = (h * 0x100000001b3) & MASK
    return h


def tool_failure(msg):
    sys.stderr.write("stage_fuzz: %s: tool error\n" % msg)
    sys.exit(2)


text = ""
try:
    text = open(log, "rb").read().decode("utf-8", "replace")
except OSError:
    pass
execs = cov = ft = 0
n_oom = n_to = n_crash = 0
for m in re.finditer(r"^#(\d+): cov: (\d+) ft: (\d+) corp: (\d+) exec/s:? (\d+) oom/timeout/crash: (\d+)/(\d+)/(\d+)", text, re.M):
    execs, cov, ft = int(m.group(1)), int(m.group(2)), int(m.group(3))
    n_oom, n_to, n_crash = int(m.group(6)), int(m.group(7)), int(m.group(8))
m = re.search(r"stat::number_of_executed_units:\s*(\d+)", text)
if m and int(m.group(1)) > execs:
    execs = int(m.group(1))
arts = sorted(os.listdir(art)) if os.path.isdir(art) else []
if execs == 0 and not arts:
    sys.stderr.write(text[-1500:])
    tool_failure("libFuzzer reported no executed units (exit %d)" % frc)

# ---------------------------------------------------------------- corpus -> non-trivial digests, samples
units = []
for fn in sorted(os.listdir(corpus)):
    fp = os.path.join(corpus, fn)
    if os.path.isfile(fp):
        units.append((fn, fp))
digests = set()
new_units = []
seed_units = 0
for fn, fp in units:
    try:
        b = open(fp, "rb").read()
    except OSError:
        continue
    digests.add(fnv64(b))
    if fn.startswith("seed-"):
        seed_units += 1
    else:
        new_units.append((fn, fp, len(b), b[:32]))
ntpath = re.sub(r"\.json$", "", out) + ".nt.bin"
try:
    os.makedirs(os.path.dirname(os.path.abspath(out)), exist_ok=True)
except OSError as e:
    tool_failure("cannot create the directory of %s: %s" % (out, e))
with open(ntpath, "wb") as f:
    for d in sorted(digests):
        f.write(d.to_bytes(8, "little"))
samples = []
pick = new_units[:: max(1, len(new_units) // 3)][:3] if new_units else []
for fn, fp, n, head in pick:
    samples.append({"kind": "fuzz:%s:evolved-corpus-unit" % target, "case": {"unit": fn, "len": n, "hex_prefix": head.hex()}})

# ---------------------------------------------------------------- side log: known findings, strict-only sites, oracle counters
counters = {}
known_sigs = {}
strict_sites = set()
try:
    for line in open(side, "r", errors="replace"):
        parts = line.rstrip("\n").split("\t")
        if parts[0] == "STATS" and len(parts) > 1:
            try:
                for k, v in json.loads(parts[1]).items():
                    key = "fuzz:%s:oracle:%s" % (target, k)
                    counters[key] = counters.get(key, 0) + int(v)
            except ValueError:
                pass
        elif parts[0] == "KNOWN" and len(parts) > 1:
            known_sigs[parts[1]] = known_sigs.get(parts[1], 0) + 1
        elif parts[0] == "STRICT" and len(parts) > 1:
            strict_sites.add(parts[1])
except OSError:
    pass
known_what = {}
try:
    for line in open("/verif/known_findings.jsonl"):
        line = line.strip()
        if not line or line.startswith("#"):
            continue
        try:
            k = json.loads(line)
        except ValueError:
            continue
        if k.get("property") == pid and k.get("status") == "open":
            known_what[k.get("signature", "")] = k.get("what", "")
except OSError:
    pass
# In fork mode the parent's "#N" only adds up the jobs that FINISHED (the <= ncpu jobs in flight when the
# budget ends are killed and not counted); the targets count every input the oracle ran themselves.
execs_parent = execs
execs_oracle = counters.get("fuzz:%s:oracle:inputs_executed" % target, 0)
execs = max(execs_parent, execs_oracle)
known_hits = [{"signature": s, "what": known_what.get(s, ""), "hits": n} for s, n in sorted(known_sigs.items())]

# ---------------------------------------------------------------- artifacts
violations, inconclusive = [], []
seen_sigs = set()
rdir = os.path.join(outdir, "replays", pid)
env = dict(os.environ)
env.pop("VF_FUZZ_SIDE_LOG", None)
env.pop("VF_FUZZ_GEN_SEEDS", None)


def run_single(path, lf_timeout, wall):
    """Run the target on one input. Returns (rc or None on wall timeout, output, cpu seconds, wall seconds)."""
    r0 = resource.getrusage(resource.RUSAGE_CHILDREN)
    t0 = time.time()
    try:
        p = subprocess.run([binp, "-timeout=%d" % lf_timeout, "-rss_limit_mb=4096", path], env=env, stdout=subprocess.PIPE, stderr=subprocess.STDOUT,
                           timeout=wall, cwd=os.path.dirname(art))
        rc, o = p.returncode, p.stdout.decode("utf-8", "replace")
    except subprocess.TimeoutExpired as e:
        rc, o = None, (e.stdout or b"").decode("utf-8", "replace")
    r1 = resource.getrusage(resource.RUSAGE_CHILDREN)
    cpu = (r1.ru_utime + r1.ru_stime) - (r0.ru_utime + r0.ru_stime)
    return rc, o, cpu, time.time() - t0


def keep(path, b):
    os.makedirs(rdir, exist_ok=True)
    rp = os.path.join(rdir, "fuzz-%s-%016x.bin" % (target, fnv64(b)))
    try:
        shutil.copy(path, rp)
    except OSError:
        return path
    return rp


def add_violation(sig, detail, path, b):
    if sig in seen_sigs:
        return
    seen_sigs.add(sig)
    if sig in known_what:
        known_hits.append({"signature": sig, "what": known_what[sig], "hits": 1})
        return
    if len(violations) >= 40:
        return
    rp = keep(path, b)
    detail = dict(detail)
    detail.update({"target": target, "input_len": len(b), "input_fnv": "%016x" % fnv64(b),
                   "reproduce": "cd %s && %s %s" % (os.path.dirname(os.path.dirname(art)), binp, rp)})
    violations.append({"property": pid, "signature": sig, "replay": rp, "detail": detail})
    sys.stderr.write("vf: violation property=%s signature=%s replay=%s\n" % (pid, sig, rp))


crashes = [a for a in arts if a.startswith("crash-")]
timeouts = [a for a in arts if a.startswith("timeout-")]
ooms = [a for a in arts if a.startswith("oom-")]
others = [a for a in arts if not a.startswith(("crash-", "timeout-", "oom-"))]
CRASH_CAP = 120
for a in crashes[:CRASH_CAP]:
    path = os.path.join(art, a)
    b = open(path, "rb").read()
    rc, o, cpu, wall = run_single(path, 60, 150)
    m = re.search(r"^VF-VIOLATION: (.+)$", o, re.M)
    d = re.search(r"^VF-DETAIL: (.+)$", o, re.M)
    if m:
        add_violation(m.group(1).strip(), {"what": d.group(1).strip()[:1500] if d else "", "artifact": a}, path, b)
        continue
    h = re.search(r"^VF-HARNESS-PANIC: (.+)$", o, re.M)
    if h:
        if len(inconclusive) < 20:
            inconclusive.append("fuzz %s: harness panic on artifact %s (kept at %s): %s" % (target, a, keep(path, b), h.group(1)[:200]))
        continue
    p = re.search(r"panicked at ([^\s:]+):(\d+)", o)
    if p and "/verif/" not in p.group(1) and "/harness/" not in p.group(1) and not p.group(1).startswith(("fuzz_targets/", "src/", "checks/", "core/")):
        f = re.sub(r"^.*?/(?=(read-fonts|skrifa|font-types|write-fonts|incremental-font-transfer|shared-brotli-patch-decoder|klippa)/)", "", p.group(1))
        add_violation("panic:%s:%s:fuzz" % (f, p.group(2)), {"what": o[-800:], "artifact": a}, path, b)
        continue
    if len(inconclusive) < 20:
        why = "not reproduced when re-run alone (exit 0)" if rc == 0 else ("unexplained end rc=%s without an oracle marker: %s" % (rc, " | ".join(o.strip().splitlines()[-3:])[-300:]))
        inconclusive.append("fuzz %s: crash artifact %s (kept at %s) %s" % (target, a, keep(path, b), why))
if len(crashes) > CRASH_CAP:
    inconclusive.append("fuzz %s: %d crash artifacts, only the first %d were re-run" % (target, len(crashes), CRASH_CAP))
hangs = 0
for a in timeouts[:6]:
    path = os.path.join(art, a)
    b = open(path, "rb").read()
    cpus = []
    for _ in range(3):
        rc, o, cpu, wall = run_single(path, 120, 180)
        cpus.append(round(cpu, 2))
        if cpu <= 10.0:
            break
    if len(cpus) == 3 and all(c > 10.0 for c in cpus):
        hangs += 1
        add_violation("hang:fuzz:%s:%016x" % (target, fnv64(b)), {"what": "input exceeds libFuzzer -timeout=10 and uses > 10 s of cpu time on 3 of 3 runs alone", "cpu_s": cpus, "artifact": a}, path, b)
    elif len(inconclusive) < 20:
        inconclusive.append("fuzz %s: libFuzzer -timeout=10 fired on %s during the loaded parallel run, not confirmed alone (cpu seconds %s)" % (target, path, cpus))
if len(timeouts) > 6:
    inconclusive.append("fuzz %s: %d timeout artifacts, only the first 6 were re-run" % (target, len(timeouts)))
for a in ooms[:5]:
    path = os.path.join(art, a)
    b = open(path, "rb").read()
    inconclusive.append("fuzz %s: libFuzzer out-of-memory artifact %s (rss/malloc limit 2 GiB), kept at %s" % (target, a, keep(path, b)))

counters.update({
    "fuzz:%s:executed_units" % target: execs,
    "fuzz:%s:seed_units" % target: seed_units,
    "fuzz:%s:new_units(coverage-increasing)" % target: len(new_units),
    "fuzz:%s:crash_artifacts" % target: len(crashes),
    "fuzz:%s:timeout_artifacts" % target: len(timeouts),
    "fuzz:%s:oom_artifacts" % target: len(ooms),
    "fuzz:%s:hangs_confirmed" % target: hangs,
})
rule = ("fuzz stage %s: a corpus unit present at the end of the libFuzzer run, i.e. a seed or an evolved input that increased edge/feature coverage "
        "of the instrumented library + oracle code (libFuzzer keeps only those); digest = fnv64 of the unit's bytes" % target)
labels = {}
if strict_sites:
    labels["other_property_panic_sites"] = sorted(strict_sites)
partial = {
    "property_id": pid, "tier": tier, "seed": seed_i, "shard": [0, 1], "profile": "fuzz", "level": "exploration",
    "rule": rule,
    "assumptions": ["fuzz stages: libFuzzer (cargo-fuzz, -fork, wall-clock budget) is not reproducible run to run; a finding is reproducible from its kept input. "
                    "Build = optimised + debug assertions + overflow checks; overflow / debug-assert panics are noted (other_property_panic_sites) and belong to C20"],
    "evaluations": execs, "nontrivial_file": ntpath, "nontrivial_count": len(digests),
    "counters": counters, "distinct": {}, "labels": labels, "samples": samples,
    "violations": violations, "known_hits": known_hits, "inconclusive": inconclusive,
    "extra": {"fuzz:%s" % target: {"rule": rule, "executed_units": execs, "executed_units_reported_by_libfuzzer_parent": execs_parent, "executed_units_counted_by_oracle": execs_oracle, "exec_per_s": round(execs / max(1, run_s), 1), "edges_covered": cov, "features": ft,
                                    "corpus_units_at_end": len(units), "seed_units": seed_units, "new_units": len(new_units), "jobs": jobs,
                                    "budget_s": seconds, "run_wall_s": run_s, "build_wall_s": build_s, "sanitizer": san,
                                    "libfuzzer_oom_timeout_crash": [n_oom, n_to, n_crash]}},
    "exhaustive": None, "wall_s": run_s + build_s, "complete": True,
}
try:
    os.makedirs(os.path.dirname(out) or ".", exist_ok=True)
    with open(out, "w") as f:
        json.dump(partial, f)
except OSError as e:
    tool_failure("cannot write %s: %s" % (out, e))
print("stage_fuzz: %s %s executed=%d (%.0f/s) corpus=%d (+%d new) cov=%d crashes=%d timeouts=%d ooms=%d violations=%d known=%d inconclusive=%d" % (
    target, pid, execs, execs / max(1, run_s), len(units), len(new_units), cov, len(crashes), len(timeouts), len(ooms), len(violations), len(known_hits), len(inconclusive)))
sys.exit(1 if violations else 0)
PYEOF
prc=$?
# 0 / 1 / 2 are the script's own verdicts; anything else (an uncaught exception) is a tool failure
case "$prc" in 0|1|2) exit "$prc" ;; *) echo "stage_fuzz: post-processing failed (rc=$prc): tool error" >&2; exit 2 ;; esac
