#!/usr/bin/env python3
"""Regenerates the generated tables inside DESIGN.md: the list of fix: commits
(between <!-- FIXES:BEGIN/END -->) and the seeded-change table (between
<!-- SEEDED:BEGIN/END -->)."""
import json, re, subprocess
P = '/verif/DESIGN.md'
s = open(P).read()

# ---- fixes: commit, properties (from known_findings fixed entries), subject
log = subprocess.run(['git', '-C', '/repo', 'log', '--reverse', '--format=%h %s'], capture_output=True, text=True).stdout.splitlines()
fixes = [l.split(' ', 1) for l in log if l.split(' ', 1)[1].startswith('fix:')]
by_commit = {}
for l in open('/verif/known_findings.jsonl'):
    l = l.strip()
    if not l:
        continue
    j = json.loads(l)
    if j.get('status') == 'fixed' and j.get('commit'):
        by_commit.setdefault(j['commit'][:7], set()).add(j['property'])
rows = ["| commit | properties whose check found it (from known_findings.jsonl) | what failed |", "|---|---|---|"]
for h, sub in fixes:
    props = ', '.join(sorted(by_commit.get(h[:7], []))) or 'code review during a repair / incidental'
    rows.append(f"| `{h}` | {props} | {sub[5:]} |")
fix_tbl = f"{len(fixes)} `fix:` commits in /repo, oldest first:\n\n" + "\n".join(rows)
s = re.sub(r'<!-- FIXES:BEGIN -->.*?<!-- FIXES:END -->', '<!-- FIXES:BEGIN -->\n' + fix_tbl.replace('\\', '\\\\') + '\n<!-- FIXES:END -->', s, flags=re.S)

# ---- seeded
tbl = subprocess.run(['/verif/tools/gen_seeded_table.py'], capture_output=True, text=True).stdout
s = re.sub(r'<!-- SEEDED:BEGIN -->.*?<!-- SEEDED:END -->', '<!-- SEEDED:BEGIN -->\n' + tbl.replace('\\', '\\\\') + '<!-- SEEDED:END -->', s, flags=re.S)
# ---- thorough evidence
import glob, os
rows = ["| id | evaluations | distinct non-trivial | stages | wall s | violations |", "|---|---|---|---|---|---|"]
for f in sorted(glob.glob('/verif/evidence/thorough/C*.json')):
    j = json.load(open(f))
    c = j['coverage']
    rows.append(f"| {j['property_id']} | {c['evaluations']:,} | {c['distinct_nontrivial']:,} | {', '.join(c.get('driver', {}).get('stages', []))} | {round(j['wall_s'])} | {j.get('violations', 0)} |")
s = re.sub(r'<!-- THOROUGH:BEGIN -->.*?<!-- THOROUGH:END -->', '<!-- THOROUGH:BEGIN -->\n' + "\n".join(rows) + '\n<!-- THOROUGH:END -->', s, flags=re.S)
open(P, 'w').write(s)
print('fixes', len(fixes))
