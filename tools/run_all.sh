#!/bin/bash
# usage: tools/run_all.sh <tier> ID...   — runs checks sequentially, logs to /tmp/vf-runs/
# after a thorough run the evidence is also kept as evidence/thorough/<ID>.json
mkdir -p /tmp/vf-runs /verif/evidence/thorough
tier=$1; shift
for id in "$@"; do
  s=$(date +%s)
  timeout 10800 /verif/check $id --tier $tier > /tmp/vf-runs/$id.$tier.log 2>&1
  rc=$?
  e=$(date +%s)
  echo "$id $tier seed=${VERIF_SEED:-1} rc=$rc wall=$((e-s))s :: $(grep -E '^(HELD|VIOLATION|INCONCLUSIVE)' /tmp/vf-runs/$id.$tier.log | head -3 | tr '\n' ' ')" >> /tmp/vf-runs/summary.log
  if [ "$tier" = thorough ] && [ -f /verif/evidence/$id.json ]; then cp /verif/evidence/$id.json /verif/evidence/thorough/$id.json; fi
done
