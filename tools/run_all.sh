#!/bin/bash
# usage: tools/run_all.sh <tier> ID...   — runs checks sequentially, logs to /tmp/vf-runs/
mkdir -p /tmp/vf-runs
tier=$1; shift
for id in "$@"; do
  s=$(date +%s)
  timeout 7200 /verif/check $id --tier $tier > /tmp/vf-runs/$id.$tier.log 2>&1
  rc=$?
  e=$(date +%s)
  echo "$id $tier rc=$rc wall=$((e-s))s :: $(grep -E '^(HELD|VIOLATION|INCONCLUSIVE)' /tmp/vf-runs/$id.$tier.log | head -3 | tr '\n' ' ')" >> /tmp/vf-runs/summary.log
done
