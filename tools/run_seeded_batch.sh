#!/bin/bash
# usage: tools/run_seeded_batch.sh <slot> <seed-name>...
slot=$1; shift
for s in "$@"; do
  timeout 5400 /verif/tools/run_seeded.py /verif/seeded/$s --slot $slot >> /tmp/vf-runs/seeded.$slot.log 2>&1
done
echo "slot $slot done" >> /tmp/vf-runs/seeded.$slot.log
