#!/usr/bin/env python3
"""Run the registered check of a seeded change's property against the change,
in scratch mode (never touches /repo).

  tools/run_seeded.py <seed-dir> [--slot N] [--tier quick|thorough] [--check ID]

A fixed scratch worktree /tmp/wt-seedrun-<slot> is reused between seeds so that
cargo builds incrementally. Writes <seed-dir>/detect.json.
"""
import json, os, subprocess, sys, time

VERIF = os.path.dirname(os.path.dirname(os.path.abspath(__file__)))


def sh(cmd, **kw):
    return subprocess.run(cmd, shell=True, text=True, capture_output=True, **kw)


def main():
    seed = os.path.abspath(sys.argv[1])
    slot, tier, check = "0", "quick", None
    a = sys.argv[2:]
    for i, x in enumerate(a):
        if x == "--slot":
            slot = a[i + 1]
        if x == "--tier":
            tier = a[i + 1]
        if x == "--check":
            check = a[i + 1]
    meta = json.load(open(os.path.join(seed, "meta.json")))
    prop = check or meta["property"]
    wt = f"/tmp/wt-seedrun-{slot}"
    if not os.path.isdir(wt):
        r = sh(f"git -C /repo worktree add --detach {wt} HEAD")
        if r.returncode != 0:
            print(r.stderr)
            return 2
    else:
        sh(f"git -C {wt} checkout -q --detach $(git -C /repo rev-parse HEAD) && git -C {wt} checkout -- . ")
    sh(f"git -C {wt} checkout -- . && git -C {wt} clean -fdq -e .vf -e target")
    r = sh(f"git -C {wt} apply {seed}/patch.diff")
    result = {"property": prop, "tier": tier, "repo_head": sh("git -C /repo rev-parse --short HEAD").stdout.strip()}
    if r.returncode != 0:
        result.update({"applied": False, "error": r.stderr[-400:]})
    else:
        t0 = time.time()
        env = dict(os.environ, VF_REPO=wt, CARGO_TARGET_DIR=f"{wt}/.vf/target")
        p = subprocess.run([os.path.join(VERIF, "check"), prop, "--tier", tier], env=env, text=True, capture_output=True, cwd=VERIF)
        lines = [l for l in p.stdout.splitlines() if l.startswith(("VIOLATION", "  signature", "KNOWN-FINDING", "HELD", "INCONCLUSIVE"))]
        result.update({"applied": True, "rc": p.returncode, "detected": p.returncode == 1,
                       "verdict_lines": [l[:300] for l in lines if not l.startswith("KNOWN-FINDING")][:12],
                       "wall_s": round(time.time() - t0, 1), "stderr_tail": p.stderr[-300:]})
    sh(f"git -C {wt} checkout -- . && git -C {wt} clean -fdq -e .vf -e target")
    name = f"detect.{prop}.json" if check else "detect.json"
    json.dump(result, open(os.path.join(seed, name), "w"), indent=1)
    print(os.path.basename(seed), prop, "DETECTED" if result.get("detected") else result)
    return 0


if __name__ == "__main__":
    sys.exit(main())
