#!/usr/bin/env python3
"""Prints the markdown table of seeded changes and detection results (DESIGN.md §10.2)."""
import json, glob, os
rows = []
for d in sorted(glob.glob('/verif/seeded/C*')):
    name = os.path.basename(d)
    try:
        m = json.load(open(d + '/meta.json'))
    except Exception:
        continue
    det = {}
    for f in sorted([x for x in glob.glob(d + '/detect*.json') if 'history' not in x]):
        j = json.load(open(f))
        det[j['property']] = j
    hist = []
    hp = d + '/detect_history.json'
    if os.path.exists(hp):
        hist = json.load(open(hp))
    own = det.get(m['property'])
    status = 'not run'
    if own:
        status = 'DETECTED' if own.get('detected') else ('missed' if own.get('applied') else 'patch does not apply')
    other = [(k, v) for k, v in det.items() if k != m['property'] and v.get('detected')]
    if own and not own.get('detected') and other:
        k, v = other[0]
        status = f"held under `./check {m['property']}` (overflow-class panic: owned by {k}) — DETECTED by `./check {k}`"
        own = v
    sig = ''
    if own and own.get('detected'):
        sigs = [l.strip()[11:] for l in own.get('verdict_lines', []) if l.strip().startswith('signature:')]
        sig = (sigs[0] if sigs else '')[:90]
    first = ''
    if hist:
        first = 'first attempt: ' + hist[0]
    files = ', '.join(os.path.basename(x) for x in m.get('files_changed', [])[:2])
    needs = m.get('needs', '').replace('|', '/').replace('\n', ' ')[:170]
    rows.append(f"| {name} | {m['property']} | {files} | {needs} | {status}{(' — ' + first) if first else ''} | `{sig}` |")
print("| seed | property | file(s) | needs, to manifest | result of `./check <property>` (quick) | first signature |")
print("|---|---|---|---|---|---|")
print("\n".join(rows))
